// dsplint — fact extractor for the dsplib static checks (clang LibTooling, LLVM 14).
//
// For one translation unit it writes one JSON file with the *resolved* program:
//   functions : every function definition whose body is spelled under --root
//               (template instantiations included, dependent patterns excluded):
//               signature facts, the typed AST of the body with resolved
//               declarations/callees/macro provenance, and its clang::CFG
//               (all sub-expressions as elements, no edge pruning);
//   edges     : call edges of the non-repo (standard library) function bodies that
//               are reachable from repo functions, so that whole-program
//               reachability passes through std::make_shared & co.;
//   classes   : every complete, non-dependent class defined under --root;
//   statics   : every variable with static storage duration defined under --root;
//   diags     : error diagnostics (used for the tolerant coverage unit).
// All rules live in /verif/dsplint/*.py; this file decides nothing.
//
// usage: dsplint --root=/repo --out=facts.json file.cc -- <compile flags>

#include "clang/AST/ASTConsumer.h"
#include "clang/AST/ASTContext.h"
#include "clang/AST/DeclCXX.h"
#include "clang/AST/DeclTemplate.h"
#include "clang/AST/ExprCXX.h"
#include "clang/AST/RecursiveASTVisitor.h"
#include "clang/AST/StmtCXX.h"
#include "clang/Analysis/CFG.h"
#include "clang/Basic/Diagnostic.h"
#include "clang/Basic/SourceManager.h"
#include "clang/Frontend/CompilerInstance.h"
#include "clang/Frontend/FrontendAction.h"
#include "clang/Index/USRGeneration.h"
#include "clang/Lex/Lexer.h"
#include "clang/Tooling/CommonOptionsParser.h"
#include "clang/Tooling/Tooling.h"
#include "llvm/ADT/DenseMap.h"
#include "llvm/ADT/DenseSet.h"
#include "llvm/Support/CommandLine.h"
#include "llvm/Support/JSON.h"
#include "llvm/Support/raw_ostream.h"

#include <map>
#include <set>
#include <string>
#include <vector>

using namespace clang;
namespace json = llvm::json;

static llvm::cl::OptionCategory Cat("dsplint options");
static llvm::cl::opt<std::string> OptRoot("root", llvm::cl::desc("repository root"), llvm::cl::cat(Cat),
                                          llvm::cl::init("/repo"));
static llvm::cl::opt<std::string> OptOut("out", llvm::cl::desc("output json"), llvm::cl::cat(Cat),
                                         llvm::cl::init("-"));
static llvm::cl::list<std::string> OptExtraRoot("also", llvm::cl::desc("additional source root treated as repo code"),
                                                llvm::cl::cat(Cat));

namespace {

struct DiagCollector : public DiagnosticConsumer
{
    json::Array diags;
    void HandleDiagnostic(DiagnosticsEngine::Level level, const Diagnostic& info) override {
        DiagnosticConsumer::HandleDiagnostic(level, info);
        if (level < DiagnosticsEngine::Error) {
            return;
        }
        llvm::SmallString<256> msg;
        info.FormatDiagnostic(msg);
        json::Object o;
        o["msg"] = msg.str().str();
        if (info.hasSourceManager() && info.getLocation().isValid()) {
            auto& sm = info.getSourceManager();
            auto ploc = sm.getPresumedLoc(sm.getExpansionLoc(info.getLocation()));
            if (ploc.isValid()) {
                o["file"] = std::string(ploc.getFilename());
                o["line"] = (int64_t)ploc.getLine();
            }
        }
        diags.push_back(std::move(o));
    }
};

class Extractor : public RecursiveASTVisitor<Extractor>
{
public:
    explicit Extractor(ASTContext& ctx)
      : ctx_(ctx)
      , sm_(ctx.getSourceManager())
      , pol_(ctx.getLangOpts()) {
        pol_.SuppressTagKeyword = true;
        pol_.Bool = true;
        pol_.FullyQualifiedName = true;
    }

    bool shouldVisitTemplateInstantiations() const {
        return true;
    }
    bool shouldVisitImplicitCode() const {
        return true;
    }

    //--------------------------------------------------------------------------------------------
    // location helpers
    std::string fileOf(SourceLocation loc) const {
        if (loc.isInvalid()) {
            return "";
        }
        auto ploc = sm_.getPresumedLoc(sm_.getExpansionLoc(loc));
        if (ploc.isInvalid()) {
            return "";
        }
        return ploc.getFilename();
    }

    int lineOf(SourceLocation loc) const {
        if (loc.isInvalid()) {
            return 0;
        }
        return sm_.getExpansionLineNumber(loc);
    }

    bool inRepoFile(const std::string& f) const {
        if (f.empty()) {
            return false;
        }
        auto starts = [&](const std::string& r) {
            return !r.empty() && f.compare(0, r.size(), r) == 0 && (f.size() == r.size() || f[r.size()] == '/');
        };
        if (starts(OptRoot)) {
            return true;
        }
        for (auto& r : OptExtraRoot) {
            if (starts(r)) {
                return true;
            }
        }
        return false;
    }

    bool inRepo(SourceLocation loc) const {
        return inRepoFile(fileOf(loc));
    }

    // names of all macros whose expansion (body or argument) contains `loc`, innermost first, de-duplicated
    json::Array macroStack(SourceLocation loc) const {
        json::Array r;
        std::set<std::string> seen;
        int guard = 0;
        while (loc.isMacroID() && guard++ < 32) {
            std::string nm = Lexer::getImmediateMacroName(loc, sm_, ctx_.getLangOpts()).str();
            if (seen.insert(nm).second) {
                r.push_back(nm);
            }
            loc = sm_.getImmediateExpansionRange(loc).getBegin();
        }
        return r;
    }

    std::string textOf(const Stmt* s) const {
        if (!s) {
            return "";
        }
        auto range = CharSourceRange::getTokenRange(sm_.getExpansionLoc(s->getBeginLoc()),
                                                    sm_.getExpansionLoc(s->getEndLoc()));
        bool invalid = false;
        auto txt = Lexer::getSourceText(range, sm_, ctx_.getLangOpts(), &invalid);
        if (invalid) {
            return "";
        }
        std::string r = txt.str();
        if (r.size() > 160) {
            r = r.substr(0, 157) + "...";
        }
        for (auto& ch : r) {
            if (ch == '\n' || ch == '\r' || ch == '\t') {
                ch = ' ';
            }
        }
        return r;
    }

    //--------------------------------------------------------------------------------------------
    std::string usrOf(const Decl* d) {
        if (!d) {
            return "";
        }
        d = d->getCanonicalDecl();
        auto it = usrCache_.find(d);
        if (it != usrCache_.end()) {
            return it->second;
        }
        llvm::SmallString<256> buf;
        std::string r;
        if (!index::generateUSRForDecl(d, buf)) {
            r = buf.str().str();
        }
        usrCache_[d] = r;
        return r;
    }

    int declId(const Decl* d) {
        if (!d) {
            return -1;
        }
        d = d->getCanonicalDecl();
        auto it = declIds_.find(d);
        if (it != declIds_.end()) {
            return it->second;
        }
        int id = (int)declIds_.size() + 1;
        declIds_[d] = id;
        return id;
    }

    std::string typeStr(QualType t) const {
        if (t.isNull()) {
            return "";
        }
        return t.getCanonicalType().getAsString(pol_);
    }

    std::string typeStrSugar(QualType t) const {
        if (t.isNull()) {
            return "";
        }
        return t.getAsString(pol_);
    }

    void typeFacts(json::Object& o, QualType t) const {
        if (t.isNull()) {
            return;
        }
        o["t"] = typeStr(t);
        QualType c = t.getCanonicalType().getNonReferenceType();
        const char* tc = "other";
        if (c->isBooleanType()) {
            tc = "bool";
        } else if (c->isIntegerType() && !c->isEnumeralType()) {
            tc = "int";
            o["w"] = (int64_t)ctx_.getIntWidth(c);
            o["u"] = c->isUnsignedIntegerType();
        } else if (c->isEnumeralType()) {
            tc = "enum";
        } else if (c->isRealFloatingType()) {
            tc = "float";
        } else if (c->isPointerType()) {
            tc = "ptr";
        } else if (c->isRecordType()) {
            tc = "rec";
        } else if (c->isVoidType()) {
            tc = "void";
        }
        o["tc"] = tc;
        if (t.getCanonicalType().getNonReferenceType().isConstQualified()) {
            o["cq"] = true;
        }
    }

    std::string funcName(const FunctionDecl* fd) const {
        std::string s;
        llvm::raw_string_ostream os(s);
        fd->getNameForDiagnostic(os, pol_, true);
        os.flush();
        return s;
    }

    //--------------------------------------------------------------------------------------------
    // function selection
    bool VisitFunctionDecl(FunctionDecl* fd) {
        if (!fd->doesThisDeclarationHaveABody()) {
            return true;
        }
        if (fd->isDependentContext()) {
            return true;
        }
        if (fd->isInvalidDecl()) {
            // still record its existence (coverage unit tolerance)
            if (inRepo(fd->getLocation())) {
                json::Object o;
                o["name"] = funcName(fd);
                o["file"] = fileOf(fd->getLocation());
                o["line"] = lineOf(fd->getLocation());
                invalid_.push_back(std::move(o));
            }
            return true;
        }
        const Stmt* body = fd->getBody();
        if (!body) {
            return true;
        }
        if (!seenFuncs_.insert(fd->getCanonicalDecl()).second) {
            return true;
        }
        SourceLocation loc = fd->getLocation();
        // an implicit member (defaulted copy ctor ...) is located at its class
        bool repo = inRepo(loc);
        if (repo) {
            dumpFunction(fd);
        } else {
            collectEdgesOnly(fd);
        }
        return true;
    }

    bool VisitCXXRecordDecl(CXXRecordDecl* rd) {
        if (!rd->isThisDeclarationADefinition() || !rd->isCompleteDefinition()) {
            return true;
        }
        if (rd->isDependentContext() || rd->isLambda()) {
            return true;
        }
        if (!inRepo(rd->getLocation())) {
            return true;
        }
        if (!seenRecs_.insert(rd->getCanonicalDecl()).second) {
            return true;
        }
        dumpClass(rd);
        return true;
    }

    bool VisitVarDecl(VarDecl* vd) {
        if (!vd->hasGlobalStorage() || isa<ParmVarDecl>(vd)) {
            return true;
        }
        if (!vd->isThisDeclarationADefinition() && !vd->isStaticDataMember()) {
            return true;
        }
        if (vd->getDeclContext()->isDependentContext()) {
            return true;
        }
        if (!inRepo(vd->getLocation())) {
            return true;
        }
        if (!seenVars_.insert(vd->getCanonicalDecl()).second) {
            return true;
        }
        json::Object o;
        o["name"] = vd->getQualifiedNameAsString();
        o["usr"] = usrOf(vd);
        o["file"] = fileOf(vd->getLocation());
        o["line"] = lineOf(vd->getLocation());
        o["type"] = typeStrSugar(vd->getType());
        o["ctype"] = typeStr(vd->getType());
        o["const"] = vd->getType().isConstQualified();
        o["constexpr"] = vd->isConstexpr();
        o["tls"] = vd->getTLSKind() != VarDecl::TLS_None;
        o["static_local"] = vd->isStaticLocal();
        // a namespace-scope / static member object whose initialiser is not a constant expression is initialised at program start,
        // in an order that is unspecified relative to the other translation units
        if (vd->hasGlobalStorage() && !vd->isStaticLocal() && vd->getTLSKind() == VarDecl::TLS_None && vd->hasInit() && !vd->isConstexpr() &&
            !vd->getType()->isDependentType() && !vd->getInit()->isValueDependent()) {
            o["dynamic_init"] = !vd->hasConstantInitialization();
        }
        o["static_member"] = vd->isStaticDataMember();
        o["id"] = declId(vd);
        if (auto* fn = dyn_cast_or_null<FunctionDecl>(vd->getParentFunctionOrMethod())) {
            o["func"] = funcName(fn);
            o["func_usr"] = usrOf(fn);
        }
        QualType ct = vd->getType().getCanonicalType();
        if (ct->isPointerType() || ct->isReferenceType()) {
            o["pointee_const"] = ct->getPointeeType().isConstQualified();
            o["indirect"] = true;
        }
        if (vd->hasInit()) {
            o["init_text"] = textOf(vd->getInit());
            // a table of integer literals ( constexpr std::array<uint8_t, N> T = {2, 3, 5, ...} ): the values, for rules that
            // need the last entry of a sorted table
            {
                struct IntCollector : RecursiveASTVisitor<IntCollector>
                {
                    json::Array vals;
                    bool other = false;
                    bool VisitIntegerLiteral(IntegerLiteral* il) {
                        if (vals.size() < 4096) {
                            vals.push_back(static_cast<int64_t>(il->getValue().getLimitedValue()));
                        }
                        return true;
                    }
                    bool VisitDeclRefExpr(DeclRefExpr*) {
                        other = true;
                        return true;
                    }
                    bool VisitCallExpr(CallExpr*) {
                        other = true;
                        return true;
                    }
                    bool VisitFloatingLiteral(FloatingLiteral*) {
                        other = true;
                        return true;
                    }
                    bool VisitBinaryOperator(BinaryOperator*) {
                        other = true;
                        return true;
                    }
                    bool VisitUnaryOperator(UnaryOperator*) {
                        other = true;
                        return true;
                    }
                } ic;
                const Expr* i0 = vd->getInit()->IgnoreImplicit();
                if (auto* ewc0 = dyn_cast<ExprWithCleanups>(i0)) {
                    i0 = ewc0->getSubExpr()->IgnoreImplicit();
                }
                if (isa<InitListExpr>(i0)) {
                    ic.TraverseStmt(const_cast<Expr*>(i0));
                    if (!ic.other && ic.vals.size() >= 2) {
                        o["init_ints"] = std::move(ic.vals);
                    }
                }
            }
            // does the initialiser mention a parameter, `this`, or another non-constant variable?
            struct RefFinder : RecursiveASTVisitor<RefFinder>
            {
                bool parm = false, thisRef = false, mutableGlobal = false;
                const DeclContext* owner = nullptr;   // the function the static lives in
                bool VisitDeclRefExpr(DeclRefExpr* e) {
                    // parameters and locals of a lambda written inside the initialiser belong to that lambda, not to the call
                    // that happens to run the initialisation
                    if (auto* pv = dyn_cast<ParmVarDecl>(e->getDecl())) {
                        if (!owner || pv->getDeclContext() == owner) {
                            parm = true;
                        }
                    } else if (auto* v = dyn_cast<VarDecl>(e->getDecl())) {
                        if (v->hasGlobalStorage() && !v->isConstexpr() && !v->getType().isConstQualified()) {
                            mutableGlobal = true;
                        }
                        if (v->isLocalVarDecl() && !v->isStaticLocal() && !v->isConstexpr() && (!owner || v->getDeclContext() == owner)) {
                            parm = true;   // a local of the enclosing call: value of this particular call
                        }
                    }
                    return true;
                }
                bool VisitCXXThisExpr(CXXThisExpr*) {
                    thisRef = true;
                    return true;
                }
            } rf;
            rf.owner = vd->getDeclContext();
            rf.TraverseStmt(const_cast<Expr*>(vd->getInit()));
            o["init_uses_param"] = rf.parm;
            o["init_uses_this"] = rf.thisRef;
            o["init_uses_mutable_global"] = rf.mutableGlobal;
            // constructor arguments that fold to integers (cache capacities ...)
            const Expr* ie = vd->getInit()->IgnoreImplicit();
            if (auto* ewc = dyn_cast<ExprWithCleanups>(ie)) {
                ie = ewc->getSubExpr()->IgnoreImplicit();
            }
            if (auto* ce = dyn_cast<CXXConstructExpr>(ie)) {
                json::Array vals;
                for (auto* a : ce->arguments()) {
                    Expr::EvalResult ev;
                    if (!a->isValueDependent() && a->EvaluateAsInt(ev, ctx_)) {
                        vals.push_back(ev.Val.getInt().getExtValue());
                    } else {
                        vals.push_back(nullptr);
                    }
                }
                o["init_args_int"] = std::move(vals);
            }
        }
        statics_.push_back(std::move(o));
        return true;
    }

    //--------------------------------------------------------------------------------------------
    void dumpClass(const CXXRecordDecl* rd) {
        json::Object o;
        std::string nm;
        {
            llvm::raw_string_ostream os(nm);
            rd->getNameForDiagnostic(os, pol_, true);
        }
        o["name"] = nm;
        o["usr"] = usrOf(rd);
        SourceLocation cloc = rd->getLocation();
        if (auto* pat = rd->getTemplateInstantiationPattern()) {
            cloc = pat->getLocation();   // an explicit instantiation is located where the template is written
        }
        o["file"] = fileOf(cloc);
        o["line"] = lineOf(cloc);
        o["abstract"] = rd->isAbstract();
        o["inst"] = isa<ClassTemplateSpecializationDecl>(rd);
        {
            // what does copying an object of this class do?  user = user-provided copy constructor,
            // memberwise = implicit / defaulted member-wise copy, deleted = not copyable
            std::string ck = "memberwise";
            bool declared = false;
            for (auto* c : rd->ctors()) {
                if (c->isCopyConstructor() && !c->isImplicit()) {
                    declared = true;
                    ck = c->isDeleted() ? "deleted" : (c->isUserProvided() ? "user" : "memberwise");
                }
            }
            if (!declared) {
                if (rd->defaultedCopyConstructorIsDeleted() || rd->hasUserDeclaredMoveConstructor() || rd->hasUserDeclaredMoveAssignment()) {
                    ck = "deleted";
                }
                for (auto* c : rd->ctors()) {
                    if (c->isCopyConstructor() && c->isImplicit() && c->isDeleted()) {
                        ck = "deleted";
                    }
                }
            }
            o["copy"] = ck;
            std::string ak = "memberwise";
            bool adeclared = false;
            for (auto* m : rd->methods()) {
                if (m->isCopyAssignmentOperator() && !m->isImplicit()) {
                    adeclared = true;
                    ak = m->isDeleted() ? "deleted" : (m->isUserProvided() ? "user" : "memberwise");
                }
            }
            if (!adeclared) {
                if (rd->hasUserDeclaredMoveConstructor() || rd->hasUserDeclaredMoveAssignment()) {
                    ak = "deleted";
                }
                for (auto* m : rd->methods()) {
                    if (m->isCopyAssignmentOperator() && m->isImplicit() && m->isDeleted()) {
                        ak = "deleted";
                    }
                }
                for (auto* f : rd->fields()) {
                    if (f->getType().isConstQualified() || f->getType()->isReferenceType()) {
                        ak = "deleted";
                    }
                }
            }
            o["copy_assign"] = ak;
        }
        json::Array bases;
        for (auto& b : rd->bases()) {
            json::Object bo;
            bo["type"] = typeStr(b.getType());
            if (auto* brd = b.getType()->getAsCXXRecordDecl()) {
                bo["usr"] = usrOf(brd);
            }
            bases.push_back(std::move(bo));
        }
        o["bases"] = std::move(bases);
        json::Array fields;
        for (auto* f : rd->fields()) {
            json::Object fo;
            fo["name"] = f->getNameAsString();
            fo["id"] = declId(f);
            fo["type"] = typeStrSugar(f->getType());
            fo["ctype"] = typeStr(f->getType());
            fo["mutable"] = f->isMutable();
            fo["line"] = lineOf(f->getLocation());
            fo["access"] = accessStr(f->getAccess());
            fo["ref"] = f->getType()->isReferenceType();
            fo["ptr"] = f->getType()->isPointerType();
            fo["const"] = f->getType().isConstQualified();
            if (f->hasInClassInitializer() && f->getInClassInitializer()) {
                fo["init_text"] = textOf(f->getInClassInitializer());
                Expr::EvalResult ev;
                const Expr* ie = f->getInClassInitializer();
                if (!ie->isValueDependent() && ie->EvaluateAsInt(ev, ctx_)) {
                    fo["init_int"] = ev.Val.getInt().getExtValue();
                }
            }
            fields.push_back(std::move(fo));
        }
        o["fields"] = std::move(fields);
        json::Array methods;
        for (auto* d : rd->decls()) {
            const CXXMethodDecl* m = dyn_cast<CXXMethodDecl>(d);
            if (auto* ft = dyn_cast<FunctionTemplateDecl>(d)) {
                // member template: list its specializations
                for (auto* spec : ft->specializations()) {
                    if (auto* sm = dyn_cast<CXXMethodDecl>(spec)) {
                        methods.push_back(methodObj(sm));
                    }
                }
                continue;
            }
            if (!m) {
                continue;
            }
            methods.push_back(methodObj(m));
        }
        o["methods"] = std::move(methods);
        classes_.push_back(std::move(o));
    }

    static const char* accessStr(AccessSpecifier a) {
        switch (a) {
        case AS_public:
            return "public";
        case AS_protected:
            return "protected";
        case AS_private:
            return "private";
        default:
            return "none";
        }
    }

    json::Object methodObj(const CXXMethodDecl* m) {
        json::Object mo;
        mo["name"] = m->getNameAsString();
        mo["usr"] = usrOf(m);
        mo["const"] = m->isConst();
        mo["static"] = m->isStatic();
        mo["virtual"] = m->isVirtual();
        mo["pure"] = m->isPure();
        mo["access"] = accessStr(m->getAccess());
        mo["implicit"] = m->isImplicit();
        mo["defaulted"] = m->isDefaulted();
        mo["deleted"] = m->isDeleted();
        mo["user_provided"] = m->isUserProvided();
        mo["line"] = lineOf(m->getLocation());
        mo["sig"] = typeStr(m->getType());
        const char* kind = "method";
        if (auto* c = dyn_cast<CXXConstructorDecl>(m)) {
            kind = c->isCopyConstructor() ? "copy_ctor" : (c->isMoveConstructor() ? "move_ctor" : "ctor");
            if (c->isDefaultConstructor()) {
                mo["default_ctor"] = true;
            }
        } else if (isa<CXXDestructorDecl>(m)) {
            kind = "dtor";
        } else if (isa<CXXConversionDecl>(m)) {
            kind = "conv";
        } else if (m->isCopyAssignmentOperator()) {
            kind = "copy_assign";
        } else if (m->isMoveAssignmentOperator()) {
            kind = "move_assign";
        }
        mo["kind"] = kind;
        json::Array ov;
        for (auto* o : m->overridden_methods()) {
            ov.push_back(usrOf(o));
        }
        mo["overrides"] = std::move(ov);
        return mo;
    }

    //--------------------------------------------------------------------------------------------
    // callee facts
    const FunctionDecl* calleeOf(const Stmt* s, bool& isVirtual) {
        isVirtual = false;
        if (auto* mc = dyn_cast<CXXMemberCallExpr>(s)) {
            const CXXMethodDecl* md = mc->getMethodDecl();
            if (md && md->isVirtual()) {
                // qualified call (Base::f()) is not dispatched
                auto* me = dyn_cast<MemberExpr>(mc->getCallee()->IgnoreParenImpCasts());
                if (!(me && me->hasQualifier())) {
                    isVirtual = true;
                }
            }
            return md;
        }
        if (auto* oc = dyn_cast<CXXOperatorCallExpr>(s)) {
            auto* fd = oc->getDirectCallee();
            if (auto* md = dyn_cast_or_null<CXXMethodDecl>(fd)) {
                isVirtual = md->isVirtual();
            }
            return fd;
        }
        if (auto* ce = dyn_cast<CallExpr>(s)) {
            return ce->getDirectCallee();
        }
        if (auto* ce = dyn_cast<CXXConstructExpr>(s)) {
            return ce->getConstructor();
        }
        if (auto* ie = dyn_cast<CXXInheritedCtorInitExpr>(s)) {
            return ie->getConstructor();
        }
        if (auto* ne = dyn_cast<CXXNewExpr>(s)) {
            return ne->getOperatorNew();
        }
        return nullptr;
    }

    static bool nonThrowingSpec(const FunctionDecl* fd) {
        auto* fpt = fd->getType()->getAs<FunctionProtoType>();
        if (!fpt) {
            return false;
        }
        switch (fpt->getExceptionSpecType()) {
        case EST_BasicNoexcept:
        case EST_NoexceptTrue:
        case EST_DynamicNone:
        case EST_NoThrow:
            return true;
        default:
            return false;
        }
    }

    static bool explicitNoexcept(const FunctionDecl* fd) {
        if (!nonThrowingSpec(fd)) {
            return false;
        }
        // implicit special members get an implicit spec; only spelled ones count
        if (fd->isImplicit() || fd->isDefaulted()) {
            return false;
        }
        if (auto* dd = dyn_cast<CXXDestructorDecl>(fd)) {
            auto* fpt = dd->getType()->getAs<FunctionProtoType>();
            (void)fpt;
            // destructors are noexcept by default; treat as not explicit
            return false;
        }
        return true;
    }

    void collectCallees(const Stmt* s, std::vector<std::pair<const FunctionDecl*, bool>>& out) {
        if (!s) {
            return;
        }
        bool virt = false;
        if (auto* fd = calleeOf(s, virt)) {
            out.emplace_back(fd, virt);
        }
        if (auto* da = dyn_cast<CXXDefaultArgExpr>(s)) {
            collectCallees(da->getExpr(), out);
        }
        if (auto* di = dyn_cast<CXXDefaultInitExpr>(s)) {
            collectCallees(di->getExpr(), out);
        }
        if (auto* le = dyn_cast<LambdaExpr>(s)) {
            if (auto* op = le->getCallOperator()) {
                out.emplace_back(op, false);
            }
        }
        for (auto* c : s->children()) {
            collectCallees(c, out);
        }
    }

    void collectEdgesOnly(const FunctionDecl* fd) {
        std::vector<std::pair<const FunctionDecl*, bool>> cs;
        if (auto* cd = dyn_cast<CXXConstructorDecl>(fd)) {
            for (auto* init : cd->inits()) {
                collectCallees(init->getInit(), cs);
            }
        }
        collectCallees(fd->getBody(), cs);
        std::string u = usrOf(fd);
        if (u.empty()) {
            return;
        }
        auto& dst = extEdges_[u];
        for (auto& c : cs) {
            std::string cu = usrOf(c.first);
            if (!cu.empty()) {
                dst.insert(cu);
            }
        }
        extNoexcept_[u] = nonThrowingSpec(fd);
    }

    //--------------------------------------------------------------------------------------------
    // AST serialisation of one function
    struct FnCtx
    {
        llvm::DenseMap<const Stmt*, int> ids;
        llvm::DenseMap<const CXXCtorInitializer*, int> initIds;
        int next = 0;
        std::set<std::string> callees;
        json::Array calls;
    };

    static const Stmt* skipWrappers(const Stmt* s) {
        while (s) {
            if (auto* e = dyn_cast<ExprWithCleanups>(s)) {
                s = e->getSubExpr();
            } else if (auto* e = dyn_cast<MaterializeTemporaryExpr>(s)) {
                s = e->getSubExpr();
            } else if (auto* e = dyn_cast<CXXBindTemporaryExpr>(s)) {
                s = e->getSubExpr();
            } else if (auto* e = dyn_cast<ParenExpr>(s)) {
                s = e->getSubExpr();
            } else if (auto* e = dyn_cast<ConstantExpr>(s)) {
                s = e->getSubExpr();
            } else if (auto* e = dyn_cast<SubstNonTypeTemplateParmExpr>(s)) {
                s = e->getReplacement();
            } else {
                break;
            }
        }
        return s;
    }

    json::Object declRef(const ValueDecl* d) {
        json::Object o;
        o["n"] = d->getNameAsString();
        o["id"] = declId(d);
        const char* k = "other";
        if (auto* p = dyn_cast<ParmVarDecl>(d)) {
            k = "parm";
            o["pi"] = (int64_t)p->getFunctionScopeIndex();
        } else if (auto* v = dyn_cast<VarDecl>(d)) {
            k = v->hasGlobalStorage() ? "global" : "local";
            if (v->isStaticLocal()) {
                o["sl"] = true;   // function-local static / thread_local: a named object of this function
            }
            if (v->hasGlobalStorage()) {
                o["qn"] = v->getQualifiedNameAsString();
                o["tls"] = v->getTLSKind() != VarDecl::TLS_None;
                o["constq"] = v->getType().isConstQualified() || v->isConstexpr();
                o["repo"] = inRepo(v->getLocation());
            }
        } else if (auto* f = dyn_cast<FieldDecl>(d)) {
            k = "field";
            o["mutable"] = f->isMutable();
            if (auto* rd = dyn_cast<CXXRecordDecl>(f->getParent())) {
                std::string nm;
                llvm::raw_string_ostream os(nm);
                rd->getNameForDiagnostic(os, pol_, true);
                os.flush();
                o["cls"] = nm;
            }
        } else if (isa<FunctionDecl>(d)) {
            k = "func";
            o["qn"] = d->getQualifiedNameAsString();
        } else if (isa<EnumConstantDecl>(d)) {
            k = "enumc";
        } else if (isa<BindingDecl>(d)) {
            k = "binding";
        }
        o["k"] = k;
        o["dt"] = typeStr(d->getType());
        return o;
    }

    json::Value node(const Stmt* s0, FnCtx& fc) {
        const Stmt* s = skipWrappers(s0);
        if (!s) {
            return nullptr;
        }
        json::Object o;
        int id = fc.next++;
        // all wrappers share the id of the wrapped node
        for (const Stmt* w = s0; w && w != s;) {
            fc.ids[w] = id;
            const Stmt* nx = nullptr;
            if (auto* e = dyn_cast<ExprWithCleanups>(w)) {
                nx = e->getSubExpr();
            } else if (auto* e = dyn_cast<MaterializeTemporaryExpr>(w)) {
                nx = e->getSubExpr();
            } else if (auto* e = dyn_cast<CXXBindTemporaryExpr>(w)) {
                nx = e->getSubExpr();
            } else if (auto* e = dyn_cast<ParenExpr>(w)) {
                nx = e->getSubExpr();
            } else if (auto* e = dyn_cast<ConstantExpr>(w)) {
                nx = e->getSubExpr();
            } else if (auto* e = dyn_cast<SubstNonTypeTemplateParmExpr>(w)) {
                nx = e->getReplacement();
            }
            w = nx;
        }
        fc.ids[s] = id;
        o["id"] = id;
        o["k"] = std::string(s->getStmtClassName());
        SourceLocation bl = s->getBeginLoc();
        o["l"] = lineOf(bl);
        if (bl.isMacroID()) {
            auto ms = macroStack(bl);
            if (!ms.empty()) {
                o["m"] = std::move(ms);
            }
        }
        json::Array kids;
        json::Object roles;
        auto addKid = [&](const Stmt* c, const char* role = nullptr) {
            if (!c) {
                return;
            }
            json::Value v = node(c, fc);
            if (auto* vo = v.getAsObject()) {
                if (role) {
                    roles[role] = *vo->getInteger("id");
                }
                kids.push_back(std::move(v));
            }
        };

        bool handledKids = false;
        if (auto* e = dyn_cast<Expr>(s)) {
            typeFacts(o, e->getType());
            if (e->isGLValue()) {
                o["lv"] = true;
            }
        }

        if (auto* dre = dyn_cast<DeclRefExpr>(s)) {
            o["d"] = declRef(dre->getDecl());
            if (auto* fd = dyn_cast<FunctionDecl>(dre->getDecl())) {
                o["usr"] = usrOf(fd);
            }
            // a named integral constant ( constexpr int N = 256; static const int K ) : its folded value
            if (auto* cvd = dyn_cast<VarDecl>(dre->getDecl())) {
                if (cvd->getType().isConstQualified() && cvd->getType()->isIntegralOrEnumerationType() && !dre->isValueDependent() &&
                    !isa<ParmVarDecl>(cvd) && cvd->hasGlobalStorage()) {
                    Expr::EvalResult ev;
                    if (dre->EvaluateAsInt(ev, ctx_)) {
                        o["cv"] = static_cast<int64_t>(ev.Val.getInt().getExtValue());
                    }
                }
            }
        } else if (auto* me = dyn_cast<MemberExpr>(s)) {
            o["d"] = declRef(me->getMemberDecl());
            o["arrow"] = me->isArrow();
            if (auto* md = dyn_cast<CXXMethodDecl>(me->getMemberDecl())) {
                o["usr"] = usrOf(md);
            }
        } else if (auto* bo = dyn_cast<BinaryOperator>(s)) {
            o["op"] = bo->getOpcodeStr().str();
            if (auto* cao = dyn_cast<CompoundAssignOperator>(s)) {
                o["comp_t"] = typeStr(cao->getComputationResultType());
            }
        } else if (auto* uo = dyn_cast<UnaryOperator>(s)) {
            o["op"] = UnaryOperator::getOpcodeStr(uo->getOpcode()).str();
            o["postfix"] = uo->isPostfix();
        } else if (auto* ce = dyn_cast<CastExpr>(s)) {
            o["ck"] = std::string(ce->getCastKindName());
            if (isa<ExplicitCastExpr>(s)) {
                o["explicit"] = true;
            }
        } else if (auto* il = dyn_cast<IntegerLiteral>(s)) {
            llvm::SmallString<32> str;
            il->getValue().toString(str, 10, il->getType()->isSignedIntegerType());
            o["v"] = str.str().str();
        } else if (auto* fl = dyn_cast<FloatingLiteral>(s)) {
            o["v"] = fl->getValueAsApproximateDouble();
        } else if (auto* bl2 = dyn_cast<CXXBoolLiteralExpr>(s)) {
            o["v"] = bl2->getValue();
        } else if (auto* sl = dyn_cast<StringLiteral>(s)) {
            if (sl->isAscii()) {
                o["v"] = sl->getString().str();
            }
        } else if (auto* ds = dyn_cast<DeclStmt>(s)) {
            handledKids = true;
            for (auto* d : ds->decls()) {
                if (auto* vd = dyn_cast<VarDecl>(d)) {
                    json::Object vo;
                    int vid = fc.next++;
                    vo["id"] = vid;
                    vo["k"] = "VarDecl";
                    vo["l"] = lineOf(vd->getLocation());
                    vo["d"] = declRef(vd);
                    typeFacts(vo, vd->getType());
                    vo["ts"] = typeStrSugar(vd->getType());
                    json::Array vk;
                    if (vd->hasInit()) {
                        json::Value iv = node(vd->getInit(), fc);
                        if (iv.getAsObject()) {
                            vk.push_back(std::move(iv));
                        }
                    }
                    if (auto* dd = dyn_cast<DecompositionDecl>(vd)) {
                        json::Array bs;
                        for (auto* b : dd->bindings()) {
                            bs.push_back(declRef(b));
                        }
                        vo["bindings"] = std::move(bs);
                    }
                    vo["c"] = std::move(vk);
                    kids.push_back(std::move(vo));
                }
            }
        } else if (auto* is = dyn_cast<IfStmt>(s)) {
            handledKids = true;
            addKid(is->getInit(), "init");
            if (is->getConditionVariableDeclStmt()) {
                addKid(is->getConditionVariableDeclStmt(), "condvar");
            }
            addKid(is->getCond(), "cond");
            addKid(is->getThen(), "then");
            addKid(is->getElse(), "else");
            if (is->isConstexpr()) {
                o["constexpr"] = true;
            }
        } else if (auto* fs = dyn_cast<ForStmt>(s)) {
            handledKids = true;
            addKid(fs->getInit(), "init");
            addKid(fs->getCond(), "cond");
            addKid(fs->getInc(), "inc");
            addKid(fs->getBody(), "body");
        } else if (auto* ws = dyn_cast<WhileStmt>(s)) {
            handledKids = true;
            addKid(ws->getCond(), "cond");
            addKid(ws->getBody(), "body");
        } else if (auto* dos = dyn_cast<DoStmt>(s)) {
            handledKids = true;
            addKid(dos->getBody(), "body");
            addKid(dos->getCond(), "cond");
        } else if (auto* rs = dyn_cast<CXXForRangeStmt>(s)) {
            handledKids = true;
            addKid(rs->getInit(), "init");
            addKid(rs->getRangeStmt(), "range");
            addKid(rs->getBeginStmt(), "begin");
            addKid(rs->getEndStmt(), "end");
            addKid(rs->getCond(), "cond");
            addKid(rs->getInc(), "inc");
            addKid(rs->getLoopVarStmt(), "var");
            addKid(rs->getBody(), "body");
        } else if (auto* ss = dyn_cast<SwitchStmt>(s)) {
            handledKids = true;
            addKid(ss->getInit(), "init");
            addKid(ss->getCond(), "cond");
            addKid(ss->getBody(), "body");
        } else if (auto* co = dyn_cast<ConditionalOperator>(s)) {
            handledKids = true;
            addKid(co->getCond(), "cond");
            addKid(co->getTrueExpr(), "then");
            addKid(co->getFalseExpr(), "else");
        } else if (auto* le = dyn_cast<LambdaExpr>(s)) {
            handledKids = true;
            for (auto* ci : le->capture_inits()) {
                addKid(ci);
            }
            // the body is analysed as its own function; it is also inlined here for dependence rules
            addKid(le->getBody(), "body");
            if (auto* op = le->getCallOperator()) {
                o["usr"] = usrOf(op);
            }
        } else if (auto* da = dyn_cast<CXXDefaultArgExpr>(s)) {
            handledKids = true;
            addKid(da->getExpr());
        } else if (auto* di = dyn_cast<CXXDefaultInitExpr>(s)) {
            handledKids = true;
            addKid(di->getExpr());
        } else if (auto* ue = dyn_cast<UnaryExprOrTypeTraitExpr>(s)) {
            handledKids = true;   // sizeof(...) operand is unevaluated
            (void)ue;
        }

        // call-like
        bool virt = false;
        if (const FunctionDecl* callee = calleeOf(s, virt)) {
            json::Object co;
            co["usr"] = usrOf(callee);
            co["qn"] = callee->getQualifiedNameAsString();
            co["name"] = funcName(callee);
            co["virt"] = virt;
            co["noreturn"] = callee->isNoReturn();
            co["repo"] = inRepo(callee->getLocation());
            if (auto* md = dyn_cast<CXXMethodDecl>(callee)) {
                co["const"] = md->isConst();
                co["static"] = md->isStatic();
                std::string nm;
                llvm::raw_string_ostream os(nm);
                md->getParent()->getNameForDiagnostic(os, pol_, true);
                os.flush();
                co["cls"] = nm;
            }
            // parameter passing modes
            json::Array pm;
            for (auto* p : callee->parameters()) {
                QualType pt = p->getType();
                if (pt->isReferenceType()) {
                    pm.push_back(pt->getPointeeType().isConstQualified() ? "cref" : "ref");
                } else if (pt->isPointerType()) {
                    pm.push_back(pt->getPointeeType().isConstQualified() ? "cptr" : "ptr");
                } else {
                    pm.push_back("val");
                }
            }
            co["pm"] = std::move(pm);
            o["callee"] = std::move(co);
            json::Object call;
            call["usr"] = usrOf(callee);
            call["virt"] = virt;
            call["l"] = lineOf(bl);
            call["node"] = id;
            fc.calls.push_back(std::move(call));
        }
        if (auto* ce = dyn_cast<CallExpr>(s)) {
            if (!ce->getDirectCallee()) {
                o["indirect"] = true;
            }
            if (auto* oc = dyn_cast<CXXOperatorCallExpr>(s)) {
                o["op"] = std::string(getOperatorSpelling(oc->getOperator()));
            }
        }
        if (auto* cx = dyn_cast<CXXConstructExpr>(s)) {
            o["list_init"] = cx->isListInitialization();
            o["elidable"] = cx->isElidable();
        }

        if (!handledKids) {
            for (auto* c : s->children()) {
                addKid(c);
            }
        }
        if (!kids.empty()) {
            o["c"] = std::move(kids);
        }
        if (!roles.empty()) {
            o["r"] = std::move(roles);
        }
        return o;
    }

    void dumpFunction(const FunctionDecl* fd) {
        FnCtx fc;
        json::Object f;
        f["usr"] = usrOf(fd);
        f["name"] = funcName(fd);
        f["qn"] = fd->getQualifiedNameAsString();
        f["file"] = fileOf(fd->getLocation());
        f["line"] = lineOf(fd->getLocation());
        f["end_line"] = lineOf(fd->getEndLoc());
        f["noexcept"] = explicitNoexcept(fd);
        f["nothrow_spec"] = nonThrowingSpec(fd);
        f["implicit"] = fd->isImplicit();
        f["defaulted"] = fd->isDefaulted();
        f["inst"] = fd->isTemplateInstantiation();
        f["ret"] = typeStr(fd->getReturnType());
        f["anon_ns"] = fd->isInAnonymousNamespace();
        f["static_fn"] = fd->getStorageClass() == SC_Static;
        f["extern_linkage"] = fd->isExternallyVisible();
        f["variadic"] = fd->isVariadic();
        if (auto* pat = fd->getTemplateInstantiationPattern()) {
            f["pattern_line"] = lineOf(pat->getLocation());
        }
        // where is it declared first (header under include/ => public API)
        if (auto* first = fd->getFirstDecl()) {
            f["decl_file"] = fileOf(first->getLocation());
        }
        const char* kind = "function";
        if (auto* md = dyn_cast<CXXMethodDecl>(fd)) {
            kind = "method";
            std::string nm;
            llvm::raw_string_ostream os(nm);
            md->getParent()->getNameForDiagnostic(os, pol_, true);
            os.flush();
            f["cls"] = nm;
            f["cls_usr"] = usrOf(md->getParent());
            f["const"] = md->isConst();
            f["static"] = md->isStatic();
            f["virtual"] = md->isVirtual();
            f["access"] = accessStr(md->getAccess());
            f["lambda"] = md->getParent()->isLambda();
            json::Array ov;
            for (auto* o : md->overridden_methods()) {
                ov.push_back(usrOf(o));
            }
            f["overrides"] = std::move(ov);
            if (auto* c = dyn_cast<CXXConstructorDecl>(fd)) {
                kind = c->isCopyConstructor() ? "copy_ctor" : (c->isMoveConstructor() ? "move_ctor" : "ctor");
            } else if (isa<CXXDestructorDecl>(fd)) {
                kind = "dtor";
            } else if (isa<CXXConversionDecl>(fd)) {
                kind = "conv";
            }
        }
        f["kind"] = kind;
        json::Array params;
        for (auto* p : fd->parameters()) {
            json::Object po;
            po["n"] = p->getNameAsString();
            po["id"] = declId(p);
            typeFacts(po, p->getType());
            po["ts"] = typeStrSugar(p->getType());
            QualType pt = p->getType();
            po["ref"] = pt->isReferenceType();
            po["ptr"] = pt->isPointerType();
            if (pt->isReferenceType() || pt->isPointerType()) {
                po["pointee_const"] = pt->getPointeeType().isConstQualified();
            }
            params.push_back(std::move(po));
        }
        f["params"] = std::move(params);

        // AST
        json::Array rootKids;
        if (auto* cd = dyn_cast<CXXConstructorDecl>(fd)) {
            for (auto* init : cd->inits()) {
                json::Object io;
                int iid = fc.next++;
                fc.initIds[init] = iid;
                io["id"] = iid;
                io["k"] = "CtorInit";
                io["l"] = lineOf(init->getSourceLocation());
                io["written"] = init->isWritten();
                if (init->isAnyMemberInitializer()) {
                    io["member"] = init->getAnyMember()->getNameAsString();
                    io["member_id"] = declId(init->getAnyMember());
                    io["in_class"] = init->isInClassMemberInitializer();
                } else if (init->isBaseInitializer()) {
                    io["base"] = typeStr(QualType(init->getBaseClass(), 0));
                } else if (init->isDelegatingInitializer()) {
                    io["delegating"] = true;
                }
                json::Array ik;
                json::Value iv = node(init->getInit(), fc);
                if (iv.getAsObject()) {
                    ik.push_back(std::move(iv));
                }
                io["c"] = std::move(ik);
                rootKids.push_back(std::move(io));
            }
        }
        {
            json::Value bv = node(fd->getBody(), fc);
            if (bv.getAsObject()) {
                rootKids.push_back(std::move(bv));
            }
        }
        f["ast"] = std::move(rootKids);
        f["calls"] = std::move(fc.calls);

        // CFG
        CFG::BuildOptions bo;
        bo.setAllAlwaysAdd();
        bo.PruneTriviallyFalseEdges = false;
        bo.AddEHEdges = false;
        bo.AddInitializers = true;
        bo.AddImplicitDtors = false;
        bo.AddTemporaryDtors = false;
        std::unique_ptr<CFG> cfg = CFG::buildCFG(fd, fd->getBody(), &ctx_, bo);
        if (cfg) {
            json::Object co;
            co["entry"] = (int64_t)cfg->getEntry().getBlockID();
            co["exit"] = (int64_t)cfg->getExit().getBlockID();
            json::Array blocks;
            for (const CFGBlock* b : *cfg) {
                json::Object bj;
                bj["id"] = (int64_t)b->getBlockID();
                json::Array el;
                for (const CFGElement& e : *b) {
                    if (auto cs = e.getAs<CFGStmt>()) {
                        auto it = fc.ids.find(cs->getStmt());
                        if (it != fc.ids.end()) {
                            el.push_back(it->second);
                        }
                    } else if (auto ci = e.getAs<CFGInitializer>()) {
                        auto it = fc.initIds.find(ci->getInitializer());
                        if (it != fc.initIds.end()) {
                            el.push_back(it->second);
                        }
                    }
                }
                bj["e"] = std::move(el);
                if (const Stmt* t = b->getTerminatorStmt()) {
                    auto it = fc.ids.find(t);
                    if (it != fc.ids.end()) {
                        bj["t"] = it->second;
                    }
                    bj["tk"] = std::string(t->getStmtClassName());
                }
                if (const Stmt* tc = b->getTerminatorCondition()) {
                    auto it = fc.ids.find(tc);
                    if (it != fc.ids.end()) {
                        bj["cond"] = it->second;
                    }
                }
                if (b->hasNoReturnElement()) {
                    bj["noreturn"] = true;
                }
                json::Array succ;
                for (auto si = b->succ_begin(); si != b->succ_end(); ++si) {
                    const CFGBlock* sb = si->getReachableBlock();
                    if (!sb) {
                        sb = si->getPossiblyUnreachableBlock();
                    }
                    if (sb) {
                        succ.push_back((int64_t)sb->getBlockID());
                    } else {
                        succ.push_back(nullptr);
                    }
                }
                bj["s"] = std::move(succ);
                blocks.push_back(std::move(bj));
            }
            co["blocks"] = std::move(blocks);
            f["cfg"] = std::move(co);
        }
        f["nodes"] = fc.next;
        funcs_.push_back(std::move(f));
    }

    //--------------------------------------------------------------------------------------------
    json::Object finish(json::Array diags, const std::string& tu) {
        // keep only the external edges reachable from repo functions
        std::set<std::string> reach;
        std::vector<std::string> work;
        for (auto& fv : funcs_) {
            auto* fo = fv.getAsObject();
            if (auto* calls = fo->getArray("calls")) {
                for (auto& c : *calls) {
                    auto u = c.getAsObject()->getString("usr");
                    if (u && extEdges_.count(u->str()) && reach.insert(u->str()).second) {
                        work.push_back(u->str());
                    }
                }
            }
        }
        while (!work.empty()) {
            std::string u = work.back();
            work.pop_back();
            for (auto& c : extEdges_[u]) {
                if (extEdges_.count(c) && reach.insert(c).second) {
                    work.push_back(c);
                }
            }
        }
        json::Object edges;
        for (auto& u : reach) {
            json::Array a;
            for (auto& c : extEdges_[u]) {
                a.push_back(c);
            }
            json::Object eo;
            eo["c"] = std::move(a);
            eo["nothrow"] = extNoexcept_[u];
            edges[u] = std::move(eo);
        }
        json::Object root;
        root["tu"] = tu;
        root["root"] = std::string(OptRoot);
        root["functions"] = std::move(funcs_);
        root["classes"] = std::move(classes_);
        root["statics"] = std::move(statics_);
        root["edges"] = std::move(edges);
        root["invalid"] = std::move(invalid_);
        root["diags"] = std::move(diags);
        return root;
    }

private:
    ASTContext& ctx_;
    SourceManager& sm_;
    PrintingPolicy pol_;
    std::map<const Decl*, std::string> usrCache_;
    std::map<const Decl*, int> declIds_;
    llvm::DenseSet<const Decl*> seenFuncs_, seenRecs_, seenVars_;
    json::Array funcs_, classes_, statics_, invalid_;
    std::map<std::string, std::set<std::string>> extEdges_;
    std::map<std::string, bool> extNoexcept_;
};

class Consumer : public ASTConsumer
{
public:
    Consumer(DiagCollector* dc, std::string tu)
      : dc_(dc)
      , tu_(std::move(tu)) {
    }
    void HandleTranslationUnit(ASTContext& ctx) override {
        Extractor ex(ctx);
        ex.TraverseDecl(ctx.getTranslationUnitDecl());
        json::Object root = ex.finish(std::move(dc_->diags), tu_);
        std::error_code ec;
        if (OptOut == "-") {
            llvm::outs() << json::Value(std::move(root)) << "\n";
        } else {
            llvm::raw_fd_ostream os(OptOut, ec);
            if (ec) {
                llvm::errs() << "dsplint: cannot write " << OptOut << ": " << ec.message() << "\n";
                return;
            }
            os << json::Value(std::move(root)) << "\n";
        }
    }

private:
    DiagCollector* dc_;
    std::string tu_;
};

class Action : public ASTFrontendAction
{
public:
    std::unique_ptr<ASTConsumer> CreateASTConsumer(CompilerInstance& ci, StringRef file) override {
        auto* dc = new DiagCollector();
        ci.getDiagnostics().setClient(dc, /*ShouldOwnClient=*/true);
        return std::make_unique<Consumer>(dc, file.str());
    }
};

}   // namespace

int main(int argc, const char** argv) {
    auto expected = tooling::CommonOptionsParser::create(argc, argv, Cat, llvm::cl::OneOrMore);
    if (!expected) {
        llvm::errs() << llvm::toString(expected.takeError());
        return 2;
    }
    tooling::CommonOptionsParser& op = expected.get();
    tooling::ClangTool tool(op.getCompilations(), op.getSourcePathList());
    // errors are reported through the json (diags); the exit status only says whether the AST was produced
    int rc = tool.run(tooling::newFrontendActionFactory<Action>().get());
    return rc == 0 ? 0 : 3;
}
