#include <dsplib.h>
#include <cstdio>
#include <thread>
using namespace dsplib;
int main() {
    int bad = 0;
    {   // Agc: a copy and its original are distinct objects
        Agc ref(1.0, 60.0, 50), a(1.0, 60.0, 50);
        Agc b = a;
        arr_real x = 0.1 * randn(4000);
        arr_real y = 3.0 * randn(4000);
        auto r0 = ref.process(x).out;           // what a alone produces for x
        b.process(y);                           // using the copy first ...
        auto r1 = a.process(x).out;             // ... changes what the original produces
        double d = max(abs(r0 - r1));
        std::printf("Agc: original after use of its copy differs by %g\n", d);
        bad += d > 1e-9;
    }
    {   // FIRResampler
        FIRResampler ref(3, 2), a(3, 2);
        FIRResampler b = a;
        arr_real x = randn(600), y = randn(600);
        auto r0 = ref.process(x);
        b.process(y);
        auto r1 = a.process(x);
        double d = max(abs(r0 - r1));
        std::printf("FIRResampler: original after use of its copy differs by %g\n", d);
        bad += d > 1e-9;
    }
    return bad ? 1 : 0;
}
