#include <dsplib.h>
#include <cstdio>
using namespace dsplib;
int main() {
    arr_cmplx h = complex(randn(32), randn(32));
    arr_cmplx h2 = complex(randn(32), randn(32));
    PreambleDetector a(h), b(h2), ref(h);
    b = a;                                  // accepted although the copy constructor is deleted
    const int fl = a.frame_len();
    arr_cmplx big = 0.001 * complex(randn(3 * fl), randn(3 * fl));
    for (int i = 0; i < 32; ++i) big[7 + i] = big[7 + i] + h[i];      // straddles frames 0 and 1
    arr_cmplx f0 = *big.slice(0, fl), f1 = *big.slice(fl, 2 * fl), f2 = *big.slice(2 * fl, 3 * fl);
    b.process(f0);                          // first part goes to b only
    auto ra = a.process(f1), rr = ref.process(f1);
    auto ra2 = a.process(f2), rr2 = ref.process(f2);
    std::printf("a detects: %d %d, independent detector detects: %d %d\n", (int)ra.has_value(), (int)ra2.has_value(), (int)rr.has_value(), (int)rr2.has_value());
    return (ra.has_value() != rr.has_value() || ra2.has_value() != rr2.has_value()) ? 1 : 0;
}
