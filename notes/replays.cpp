#include <dsplib.h>
#include <iostream>
#include <thread>
using namespace dsplib;
#define T(k) if (only==k || only==-1)
int main(int argc,char**argv){ setvbuf(stdout,nullptr,_IONBF,0); int only = argc>1? atoi(argv[1]):-1;
  T(1) { FftPlan p(64); try { auto y = p(arr_cmplx(16)); std::cout<<"F1 no throw\n"; } catch(std::exception&e){ std::cout<<"F1 throws\n"; } }
  T(2) { FftPlan p(7); try { auto y = p(arr_cmplx(11)); std::cout<<"F2 no throw\n"; } catch(std::exception&e){ std::cout<<"F2 throws\n"; } }
  T(3) { arr_real a = {1,2,3,4,5,6,7,8}; arr_real b={1}; try { auto r = (a==b); std::cout<<"F3 no throw\n"; } catch(std::exception&e){ std::cout<<"F3 throws\n"; } }
  T(4) { arr_real x = {1,2,3}; try { auto y = x[std::vector<int>{-1,2}]; std::cout<<"F4 no throw\n"; } catch(std::exception&e){ std::cout<<"F4 throws\n"; }
         try { auto y = x[std::vector<int>{}]; std::cout<<"F4 empty -> size "<<y.size()<<"\n"; } catch(std::exception&e){ std::cout<<"F4 empty throws\n"; } }
  T(5) { arr_real x = zeros(4); try { x.slice(0,2) = {1,2,3,4}; std::cout<<"F5 no throw\n"; } catch(std::exception&e){ std::cout<<"F5 throws\n"; } x.slice(0,2) = {1,2}; std::cout<<"F5 equal ok "<<x<<"\n"; }
  T(6) { try { const arr_real x = arange(10); auto s = x.slice(5,8); const_slice_t<real_t> s2(s); std::cout<<"F6 copy ok "<<arr_real(s2)<<"\n"; } catch(std::exception&e){ std::cout<<"F6 copy throws\n"; } }
  T(7) { arr_real x = arange(5); try { auto y = *x.slice(2,2); std::cout<<"F7 ok\n"; } catch(std::exception&e){ std::cout<<"F7 throws (no terminate)\n"; } }
  T(8) { FftPlan p(500); arr_cmplx x = complex(randn(500)); auto ref = p(x); bool bad=false;
      auto w=[&]{ for(int i=0;i<2000;++i){ auto y=p(x); for(int k=0;k<500;++k) if(!(y[k]==ref[k])) bad=true; } };
      std::thread a(w), b(w); a.join(); b.join(); std::cout<<"F8 mismatch="<<bad<<"\n"; }
  T(9) { std::cout<<"F9 isprime(4294967291)="<<isprime(4294967291u)<<" isprime(4294967295)="<<isprime(4294967295u)<<" factor(4294967291*1) size="<<factor(4294967291u).size()<<"\n"; }
  T(10){ Compressor c(44100,-10,5,10,0,0); arr_real in = {db2mag(-5.0001), db2mag(-4.9999)}; auto r=c(in); std::cout<<"F10 out dB: "<<mag2db(r.out[0])<<" "<<mag2db(r.out[1])<<"\n"; }
  T(11){ try { Tuner t(9, 4.3); std::cout<<"F11 ok\n"; } catch(std::exception&e){ std::cout<<"F11 throws\n"; } }
  T(12){ arr_real x={1,2,3,4,5}; arr_real y={2,1,4,3,5}; arr_real x2={5,1,4,2,3};
    std::cout<<"F12 k(x,y)="<<corr(x,y,Correlation::Kendall)<<" k(x2,y)="<<corr(x2,y,Correlation::Kendall)<<" k(y,x)="<<corr(y,x,Correlation::Kendall)<<"\n"; }
  T(13){ arr_real x = {1,2,3,4,5,7}; std::cout<<"F13 n=6: "<<irfft(rfft(x))<<"\n"; arr_real x2={3,-1}; std::cout<<"F13 n=2: "<<irfft(rfft(x2))<<"\n"; try { irfft(arr_cmplx(5), 5); std::cout<<"odd no throw\n"; } catch(std::exception&e){ std::cout<<"F13 odd throws\n"; } try { irfft(arr_cmplx(1), 1); } catch(std::exception&e){ std::cout<<"F13 n=1 throws\n"; } }
  T(14){ try { FftFilter f; auto y = f.process(arr_real(10)); std::cout<<"F14 returned\n"; } catch(std::exception&e){ std::cout<<"F14 throws\n"; } }
  T(15){ arr_cmplx x = {cmplx_t{1,2}}; arr_cmplx y = -x; arr_real r={1,2}; auto z = r + std::complex<double>(0,1); auto z2 = std::complex<double>(0,1) / r; std::cout<<"F15/16 "<<y<<" | "<<z<<" | "<<z2<<"\n"; }
}
