#include <dsplib.h>
#include <cstdio>
#include <cstdlib>
using namespace dsplib;
// replay of G7:RlsFilter::process:_u - a filter of length 0: `_u[0] = x[idx]` writes element 0 of an empty array and the memmove
// in front of it is asked to move (size_t)(-1) * sizeof(T) bytes
int main(int argc, char** argv) {
    int w = atoi(argv[1]);
    try {
        if (w == 0) { RlsFilter<real_t> f(0); auto r = f.process(arr_real{1.0}, arr_real{1.0}); std::printf("RlsFilter(0): y = %d samples\n", r.y.size()); }
        if (w == 1) { RlsFilter<real_t> f(-1); auto r = f.process(arr_real{1.0}, arr_real{1.0}); std::printf("RlsFilter(-1): y = %d samples\n", r.y.size()); }
    } catch (const std::exception& e) { std::printf("exception: %s\n", e.what()); }
    return 0;
}
