#include <dsplib.h>
#include <cstdio>
using namespace dsplib;
int main(int argc, char** argv) {
    int w = atoi(argv[1]);
    arr_real win = window::hann(64), x = randn(1024);
    try {
        if (w == 0) { bool b = iscola(win, 64, OverlapMethod::Ola); std::printf("iscola(win, nwin) = %d\n", (int)b); }
        if (w == 1) { auto y = stft(x, win, 64, 64, StftRange::Onesided); std::printf("stft overlap=nwin -> %d frames\n", (int)y.size()); }
    } catch (const std::exception& e) { std::printf("exception: %s\n", e.what()); }
    return 0;
}
