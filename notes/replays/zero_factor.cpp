#include <dsplib.h>
#include <cstdio>
using namespace dsplib;
int main(int argc, char** argv) {
    int w = atoi(argv[1]);
    arr_real h = ones(12), x = randn(24);
    try {
        if (w == 0) { FIRDecimator d(0, h); auto y = d.process(x); std::printf("FIRDecimator(0,h).process -> %d\n", y.size()); }
        if (w == 1) { FIRRateConverter c(3, 0, h); auto y = c.process(x); std::printf("FIRRateConverter(3,0,h).process -> %d\n", y.size()); }
        if (w == 2) { auto t = IResampler::polyphase(h, 0, 1.0, false); std::printf("polyphase(h,0) -> %d\n", (int)t.size()); }
        if (w == 3) { FIRDecimator d(0); std::printf("FIRDecimator(0) constructed\n"); }
        if (w == 4) { FIRInterpolator d(0, h); auto y = d.process(x); std::printf("FIRInterpolator(0,h).process -> %d\n", y.size()); }
    } catch (const std::exception& e) { std::printf("exception: %s\n", e.what()); }
    return 0;
}
