#include <dsplib.h>
#include <cstdio>
using namespace dsplib;
int main(int argc, char** argv) {
    int w = atoi(argv[1]);
    try {
        if (w == 0) { auto pq = IResampler::simplify(0, 0); std::printf("simplify(0,0) = %d/%d\n", pq.first, pq.second); }
        if (w == 1) { FIRResampler r(0, 0); std::printf("FIRResampler(0,0) constructed\n"); }
        if (w == 2) { auto y = resample(randn(100), 0, 0); std::printf("resample(x,0,0) -> %d\n", y.size()); }
    } catch (const std::exception& e) { std::printf("exception: %s\n", e.what()); }
    return 0;
}
