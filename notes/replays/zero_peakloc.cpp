#include <dsplib.h>
#include <cstdio>
#include <cstdlib>
using namespace dsplib;
// replay of Z2:peakloc - an empty spectrum: `(idx - 1 + n) % n` with n == 0 is an integer division by zero (SIGFPE), not an exception
int main(int argc, char** argv) {
    int w = atoi(argv[1]);
    try {
        if (w == 0) { real_t p = peakloc(arr_real{}, 0); std::printf("peakloc(real{}, 0) = %g\n", p); }
        if (w == 1) { real_t p = peakloc(arr_cmplx{}, 0); std::printf("peakloc(cmplx{}, 0) = %g\n", p); }
        if (w == 2) { arr_real x = {1, 3, 2}; real_t p = peakloc(x, 7, true); std::printf("peakloc(x[3], 7) = %g\n", p); }
    } catch (const std::exception& e) { std::printf("exception: %s\n", e.what()); }
    return 0;
}
