// EXPECT: violated P2b:static-distribution
#include "mini.h"
#include <random>
namespace dsplib {
namespace {
thread_local std::mt19937 g_engine{0};
thread_local std::normal_distribution<real_t> g_normal{0, 1};     // keeps the second deviate of each pair across rng()
}
void rng(int seed) {
    g_engine.seed(seed);
}
arr_real randn(int n) {
    arr_real r(n);
    for (int i = 0; i < n; ++i) {
        r[i] = g_normal(g_engine);
    }
    return r;
}
}   // namespace dsplib
