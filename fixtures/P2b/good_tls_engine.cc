// EXPECT: clean P2b:draw
#include "mini.h"
#include <random>
namespace dsplib {
namespace {
thread_local std::mt19937 g_engine{0};
}
void rng(int seed) {
    g_engine.seed(seed);
}
real_t randn1() {
    std::normal_distribution<real_t> dist{0, 1};
    return dist(g_engine);
}
arr_real awgn(const arr_real& x) {
    arr_real r(x.size());
    for (int i = 0; i < x.size(); ++i) {
        r[i] = x[i] + randn1();
    }
    return r;
}
}   // namespace dsplib
