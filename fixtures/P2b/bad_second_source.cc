// EXPECT: violated P2b:entropy
// EXPECT: violated P2b:local-engine
#include "mini.h"
#include <random>
namespace dsplib {
thread_local std::mt19937 g_engine{0};
void rng(int seed) {
    g_engine.seed(seed);
}
real_t noise() {
    std::random_device rd;
    std::mt19937 local(rd());
    std::normal_distribution<real_t> dist{0, 1};
    return dist(local);
}
}   // namespace dsplib
