// EXPECT: violated P2b:engine:dsplib::g_engine
#include "mini.h"
#include <random>
namespace dsplib {
std::mt19937 g_engine{0};
real_t rand1() {
    std::uniform_real_distribution<real_t> dist{0, 1};
    return dist(g_engine);
}
}   // namespace dsplib
