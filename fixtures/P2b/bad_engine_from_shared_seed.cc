// EXPECT: violated P2b:engine:dsplib::g_engine
#include "mini.h"
#include <atomic>
#include <random>
namespace dsplib {
std::atomic<uint32_t> g_seed{0};
thread_local std::mt19937 g_engine{g_seed.load()};      // a thread that starts drawing later inherits another thread's seed
void rng(int seed) {
    g_seed.store(seed);
    g_engine.seed(seed);
}
real_t rand1() {
    std::uniform_real_distribution<real_t> dist{0, 1};
    return dist(g_engine);
}
}   // namespace dsplib
