// EXPECT: violated N1:dsplib::Tun::Tun
#include "mini.h"
namespace dsplib {
class Tun
{
public:
    Tun(int fs, real_t f)
      : _fs{fs} {
        DSPLIB_ASSERT(std::abs(f) <= (_fs / 2), "range");
    }
    int _fs;
};
}   // namespace dsplib
