// EXPECT: violated N1:dsplib::Comp::gain
#include "mini.h"
namespace dsplib {
class Comp
{
public:
    real_t gain(real_t xdb) const {
        return xdb + (1 / R_ - 1) * (xdb - T_);   // slope computed as an integer quotient
    }
    const int R_{4};
    real_t T_{-10};
};
}   // namespace dsplib
