// EXPECT: clean N1:dsplib::ok
#include "mini.h"
namespace dsplib {
real_t ok(int nwin, int hop, real_t w, int fs) {
    const int half = nwin / 2;                         // stored in an integer variable
    const real_t a = std::floor(nwin / hop);           // explicit rounding idiom
    const real_t b = w / 2;                            // real division
    const real_t c = fs / real_t(2);                   // real division
    const int k = int(nwin / hop) + half;              // explicit integer cast
    real_t acc = 0;
    for (int i = 0; i < nwin / hop; ++i) {             // integer context
        acc += a * b + c + k;
    }
    return acc;
}
}   // namespace dsplib
