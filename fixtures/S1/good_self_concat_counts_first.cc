// EXPECT: clean S1:dsplib::base_array<double>::concat_in_place
// both lengths are taken before the storage grows; afterwards only a fresh begin() of the operand is used
#define DSPLINT_NO_BASE_ARRAY
#include <vector>
#include <algorithm>
namespace dsplib {
template<typename T>
class base_array
{
public:
    auto begin() const {
        return _vec.begin();
    }
    auto end() const {
        return _vec.end();
    }
    int size() const {
        return _vec.size();
    }
    base_array& concat_in_place(const base_array<T>& rhs) {
        const auto n = _vec.size();
        const auto n_add = size_t(rhs.size());
        _vec.resize(n + n_add);
        std::copy_n(rhs.begin(), n_add, _vec.begin() + n);
        return *this;
    }

private:
    std::vector<T> _vec;
};
template class base_array<double>;
}   // namespace dsplib
