// EXPECT: clean S1:dsplib::base_array<double>::concat_in_place
#define DSPLINT_NO_BASE_ARRAY
#include <vector>
#include <algorithm>
namespace dsplib {
template<typename T>
class base_array
{
public:
    auto begin() const {
        return _vec.begin();
    }
    auto end() const {
        return _vec.end();
    }
    int size() const {
        return _vec.size();
    }
    base_array& concat_in_place(const base_array<T>& rhs) {
        _vec.insert(_vec.end(), rhs.begin(), rhs.end());
        return *this;
    }

private:
    std::vector<T> _vec;
};
template class base_array<double>;
}   // namespace dsplib
