// EXPECT: violated S1:dsplib::base_array<double>::operator/=
// EXPECT: violated S1:dsplib::cmplx_t::operator*=(constdouble&)
#include <cstddef>
#include <vector>
namespace dsplib {
using real_t = double;
struct cmplx_t
{
    real_t re{0}, im{0};
    cmplx_t& operator*=(const real_t& rhs) noexcept {
        re *= rhs;          // z *= z.re: the second statement sees the new re
        im *= rhs;
        return *this;
    }
};
template<typename T>
class base_array
{
public:
    template<class T2>
    base_array& operator/=(const T2& rhs) noexcept {
        for (std::size_t i = 0; i < _vec.size(); ++i) {
            _vec[i] /= rhs;     // x /= x[0]: after i == 0 the divisor is 1
        }
        return *this;
    }
    T& operator[](int i) {
        return _vec[i];
    }
    std::vector<T> _vec;
};
void use(base_array<double>& x, cmplx_t& z) {
    x /= x[0];
    z *= z.re;
}
}   // namespace dsplib
