// EXPECT: violated S1:dsplib::base_array<double>::concat_in_place
#define DSPLINT_NO_BASE_ARRAY
#include <vector>
#include <algorithm>
namespace dsplib {
template<typename T>
class base_array
{
public:
    auto begin() const {
        return _vec.begin();
    }
    auto end() const {
        return _vec.end();
    }
    int size() const {
        return _vec.size();
    }
    base_array& concat_in_place(const base_array<T>& rhs) {
        const auto n = _vec.size();
        _vec.resize(n + rhs.size());
        std::copy(rhs.begin(), rhs.end(), _vec.begin() + n);
        return *this;
    }

private:
    std::vector<T> _vec;
};
template class base_array<double>;
}   // namespace dsplib
