// EXPECT: clean S1:dsplib::base_array<double>::operator/=
// EXPECT: clean S1:dsplib::cmplx_t::operator/=(constdsplib::cmplx_t&)
#include <cstddef>
#include <vector>
namespace dsplib {
using real_t = double;
struct cmplx_t
{
    real_t re{0}, im{0};
    cmplx_t operator/(const cmplx_t& rhs) const {
        const real_t d = rhs.re * rhs.re + rhs.im * rhs.im;
        return {(re * rhs.re + im * rhs.im) / d, (im * rhs.re - re * rhs.im) / d};
    }
    cmplx_t& operator/=(const cmplx_t& rhs) noexcept {
        *this = *this / rhs;            // fully evaluated before the assignment
        return *this;
    }
    cmplx_t& operator+=(const real_t& rhs) noexcept {
        re += rhs;                       // single statement
        return *this;
    }
};
template<typename T>
class base_array
{
public:
    template<class T2>
    base_array& operator/=(const T2& rhs) noexcept {
        const T2 val = rhs;              // copy before the first write
        for (std::size_t i = 0; i < _vec.size(); ++i) {
            _vec[i] /= val;
        }
        return *this;
    }
    base_array& operator+=(const base_array& rhs) {
        for (std::size_t i = 0; i < _vec.size(); ++i) {
            _vec[i] += rhs._vec[i];      // element-wise array form: a += a is well defined
        }
        return *this;
    }
    T& operator[](int i) {
        return _vec[i];
    }
    std::vector<T> _vec;
};
void use(base_array<double>& x, cmplx_t& z) {
    x /= x[0];
    x += x;
    z /= z;
    z += z.re;
}
}   // namespace dsplib
