// EXPECT: violated N8:dsplib::rotate
#include "mini.h"
namespace dsplib {
// (i + k) & (n - 1) is (i + k) % n only when n is a power of two; nothing here says it is
arr_cmplx rotate(const arr_cmplx& x, int k) {
    const int n = x.size();
    arr_cmplx y(n);
    for (int i = 0; i < n; ++i) {
        y[i] = x[(i + k) & (n - 1)];
    }
    return y;
}
}   // namespace dsplib
