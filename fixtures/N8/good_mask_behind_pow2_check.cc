// EXPECT: clean
#include "mini.h"
namespace dsplib {
bool ispow2(int n);
int nextpow2(int n);
arr_cmplx rotate(const arr_cmplx& x, int k) {
    const int n = x.size();
    DSPLIB_ASSERT(ispow2(n), "length must be a power of two");
    arr_cmplx y(n);
    for (int i = 0; i < n; ++i) {
        y[i] = x[(i + k) & (n - 1)];
    }
    return y;
}
arr_cmplx rotate2(const arr_cmplx& x, int k) {
    const int n = x.size();
    if ((n & (n - 1)) != 0) {
        throw std::runtime_error("length must be a power of two");
    }
    arr_cmplx y(n);
    for (int i = 0; i < n; ++i) {
        y[i] = x[(i + k) & (n - 1)];
    }
    return y;
}
int wrap(int i, int bits) {
    const int n = 1 << bits;
    return i & (n - 1);
}
int low_byte(int v) {
    return v & (256 - 1);
}
}   // namespace dsplib
namespace dsplib {
namespace {
// internal helper: every caller has checked the length
arr_cmplx rotate_pow2(const arr_cmplx& x, int k) {
    const int n = x.size();
    arr_cmplx y(n);
    for (int i = 0; i < n; ++i) {
        y[i] = x[(i + k) & (n - 1)];
    }
    return y;
}
}   // namespace
arr_cmplx half_turn(const arr_cmplx& x) {
    DSPLIB_ASSERT(ispow2(x.size()), "length must be a power of two");
    return rotate_pow2(x, x.size() / 2);
}
}   // namespace dsplib
namespace dsplib {
constexpr int TABLE_SIZE = 256;
int table_slot(int i) {
    return i & (TABLE_SIZE - 1);
}
}   // namespace dsplib
