// EXPECT: violated N2s:dsplib::nextpow2
namespace dsplib {
int nextpow2(int m) {
    int p = 0;
    while ((int(1) << p) < m) {       // never reaches m for m > 2^30
        ++p;
    }
    return p;
}
}   // namespace dsplib
