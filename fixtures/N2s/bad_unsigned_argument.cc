// EXPECT: violated N2s:dsplib::factor_count
#include "mini.h"
namespace dsplib {
int nextpow2(int m) {
    if ((m == 0) || (m == 1)) {
        return 0;
    }
    int p = 0;
    while ((m >> p) != 0) {
        ++p;
    }
    return p;
}
int factor_count(uint32_t n) {
    std::vector<int> res;
    res.reserve(nextpow2(n));
    return res.capacity();
}
}   // namespace dsplib
