// EXPECT: clean N2s:dsplib::nextpow2
// EXPECT: clean N2s:dsplib::ispow2
namespace dsplib {
int nextpow2(int m) {
    int p = 0;
    while ((1LL << p) < m) {          // 64-bit shift
        ++p;
    }
    return p;
}
bool ispow2(int m) {
    int p = 0;
    while (p < 31 && (1 << p) < m) {  // count bounded in the condition
        ++p;
    }
    return (1 << p) == m;             // outside a loop condition
}
}   // namespace dsplib
