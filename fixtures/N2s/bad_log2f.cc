// EXPECT: violated N2s:dsplib::nextpow2(int):int-to-float
#include <cmath>
namespace dsplib {
int nextpow2(int m) {
    if (m <= 1) {
        return 0;
    }
    return static_cast<int>(std::ceil(std::log2f(m)));     // m is rounded to 24 bits first
}
}   // namespace dsplib
