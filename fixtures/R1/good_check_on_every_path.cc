// EXPECT: clean R1:C11:dsplib::fir1
// EXPECT: clean R1:C08:dsplib::FIRDecimator::process
#include "mini.h"
namespace dsplib {
enum class FilterType { Low, High };
static arr_real _lowpass_fir(int n, real_t wn, const arr_real& win) {
    DSPLIB_ASSERT(win.size() == n + 1, "Window must be n+1 elements");
    return arr_real(n + 1);
}
static arr_real _highpass_fir(int n, real_t wn, const arr_real& win) {
    if (n % 2 == 1) {
        n += 1;
    }
    auto h = _lowpass_fir(n, 1 - wn, win);
    return h;
}
arr_real fir1(int n, real_t wn, FilterType ftype, const arr_real& win) {
    if (ftype == FilterType::Low) {
        return _lowpass_fir(n, wn, win);
    }
    if (ftype == FilterType::High) {
        return _highpass_fir(n, wn, win);
    }
    DSPLIB_THROW("Not supported for current filter type");
}
class FIRDecimator
{
public:
    arr_real process(const arr_real& in) {
        const int nx = in.size();
        if (nx % decim_ != 0) {
            throw std::runtime_error("frame length must be a multiple of decim");
        }
        return arr_real(nx / decim_);
    }
    int decim_{2};
};
}   // namespace dsplib
