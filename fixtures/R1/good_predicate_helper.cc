// EXPECT: clean R1:C11:dsplib::fir1
// the length test lives in a predicate that a checking helper asserts
#include "mini.h"
namespace dsplib {
enum class FilterType { Low, High };
static bool _window_fits(int n, const arr_real& win) {
    return (win.size() == (n + 1));
}
static void _check_window(int n, const arr_real& win) {
    DSPLIB_ASSERT(_window_fits(n, win), "Window must be n+1 elements");
}
static arr_real _lowpass_fir(int n, real_t wn, const arr_real& win) {
    _check_window(n, win);
    return arr_real(n + 1);
}
arr_real fir1(int n, real_t wn, FilterType ftype, const arr_real& win) {
    if (ftype == FilterType::Low) {
        return _lowpass_fir(n, wn, win);
    }
    DSPLIB_THROW("Not supported for current filter type");
}
}   // namespace dsplib
