// EXPECT: violated R1:C11:dsplib::fir1
// EXPECT: violated R1:C08:dsplib::FIRDecimator::process
#include "mini.h"
namespace dsplib {
enum class FilterType { Low, High };
static arr_real _lowpass_fir(int n, real_t wn, const arr_real& win) {
    if (win.size() != (n + 1)) {
        DSPLIB_THROW("Window must be n+1 elements");
    }
    return arr_real(n + 1);
}
static arr_real _highpass_fast(int n, real_t wn, const arr_real& win) {
    arr_real h(n + 1);                       // a second design path that forgot the window check
    for (int i = 0; i <= n; ++i) {
        h[i] = win[i] * wn;
    }
    return h;
}
arr_real fir1(int n, real_t wn, FilterType ftype, const arr_real& win) {
    if (ftype == FilterType::Low) {
        return _lowpass_fir(n, wn, win);
    }
    return _highpass_fast(n, wn, win);
}
class FIRDecimator
{
public:
    arr_real process(const arr_real& in) {
        const int nx = in.size();
        assert(nx % decim_ == 0);             // debug-only
        return arr_real(nx / decim_);
    }
    int decim_{2};
};
}   // namespace dsplib
