// EXPECT: clean R1:C08:before-state:dsplib::FIRRateConverter::process
// EXPECT: clean R1:C08:dsplib::FIRRateConverter::process
// the divisibility test written with the quotient, before anything is stored
#include "mini.h"
namespace dsplib {
class FIRRateConverter
{
public:
    arr_real process(const arr_real& x) {
        const int nx = x.size();
        const int np = nx / decim_;
        DSPLIB_ASSERT(np * decim_ == nx, "Input size must be a multiple of the decim rate");
        const int nd = d_.size();
        _store(x, nx, nd);
        return arr_real(np * interp_);
    }

private:
    void _store(const arr_real& x, int nx, int nd) {
        std::memcpy(d_.data(), x.data() + nx - nd, nd * sizeof(real_t));
    }
    int interp_{3};
    int decim_{2};
    arr_real d_{arr_real(8)};
};
}   // namespace dsplib
