// EXPECT: clean R1:C08:dsplib::FIRDecimator::process
// the frame-length check lives in a free helper and is spelled with std::div
#include "mini.h"
#include <cstdlib>
namespace dsplib {
namespace {
int _block_count(int nx, int decim) {
    const auto blocks = std::div(nx, decim);
    DSPLIB_ASSERT(blocks.rem == 0, "Input frame length must be a multiple of the 'decim'");
    return blocks.quot;
}
}   // namespace
class FIRDecimator
{
public:
    arr_real process(const arr_real& in) {
        const int nx = in.size();
        const int np = _block_count(nx, decim_);
        return arr_real(np);
    }
    int decim_{2};
};
}   // namespace dsplib
