// EXPECT: violated R1:C08:before-state:dsplib::FIRRateConverter::process
// every bad length is still rejected - but only after the frame has been shifted into the delay line
#include "mini.h"
namespace dsplib {
class FIRRateConverter
{
public:
    arr_real process(const arr_real& x) {
        const int nx = x.size();
        const int nd = d_.size();
        std::memcpy(d_.data(), x.data() + nx - nd, nd * sizeof(real_t));
        const int np = nx / decim_;
        DSPLIB_ASSERT(np * decim_ == nx, "Input size must be a multiple of the decim rate");
        return arr_real(np * interp_);
    }

private:
    int interp_{3};
    int decim_{2};
    arr_real d_{arr_real(8)};
};
}   // namespace dsplib
