// EXPECT: clean M2:dsplib::Adaptive:_h
#include "mini.h"
namespace dsplib {
arr_real flip(const arr_real& w);
class Adaptive
{
public:
    explicit Adaptive(int n)
      : _w(n)
      , _h(n) {
    }
    // update and mark sit under the same test, spelled twice
    void process(const arr_real& x) {
        const bool adapt = !_locked;
        if (adapt) {
            for (int i = 0; i < _w.size(); ++i) {
                _w[i] += x[0];
            }
        }
        _count += 1;
        if (adapt) {
            _h_stale = true;
        }
    }
    const arr_real& coeffs() const {
        if (_h_stale) {
            _h = flip(_w);
            _h_stale = false;
        }
        return _h;
    }

private:
    arr_real _w;
    mutable arr_real _h;
    mutable bool _h_stale{true};
    bool _locked{false};
    int _count{0};
};
}   // namespace dsplib
