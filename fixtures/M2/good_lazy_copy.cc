// EXPECT: clean M2:dsplib::Adaptive:_h
#include "mini.h"
namespace dsplib {
arr_real flip(const arr_real& w);
class Adaptive
{
public:
    explicit Adaptive(int n)
      : _w(n)
      , _h(n) {
    }
    void process(const arr_real& x) {
        if (!_locked) {
            for (int i = 0; i < _w.size(); ++i) {
                _w[i] += x[0];
            }
            _h_stale = true;
        }
    }
    void process2(const arr_real& x) {
        if (!_locked) {
            _w[0] += x[0];
        }
        _h_stale = _h_stale || !_locked;
    }
    void set_coeffs(const arr_real& w) {
        _w = w;
        _h = flip(_w);
        _h_stale = false;
    }
    void lock(bool v) {
        _locked = v;
    }
    const arr_real& coeffs() const {
        if (_h_stale) {
            _h = flip(_w);
            _h_stale = false;
        }
        return _h;
    }

private:
    arr_real _w;
    mutable arr_real _h;
    mutable bool _h_stale{true};
    bool _locked{false};
};

// a validity flag with the opposite polarity
class Table
{
public:
    void set_n(int n) {
        _n = n;
        _valid = false;
    }
    const arr_real& get() const {
        if (!_valid) {
            _t = arr_real(_n);
            _valid = true;
        }
        return _t;
    }

private:
    int _n{1};
    mutable arr_real _t;
    mutable bool _valid{false};
};
}   // namespace dsplib
