// EXPECT: violated M2:dsplib::Adaptive:_h:clear
#include "mini.h"
namespace dsplib {
arr_real flip(const arr_real& w);
class Adaptive
{
public:
    explicit Adaptive(int n)
      : _w(n)
      , _h(n) {
    }
    void process(const arr_real& x) {
        if (!_locked) {
            for (int i = 0; i < _w.size(); ++i) {
                _w[i] += x[0];
            }
        }
        // a locked call clears what an earlier adapting call had marked
        _h_stale = !_locked;
    }
    void lock(bool v) {
        _locked = v;
    }
    const arr_real& coeffs() const {
        if (_h_stale) {
            _h = flip(_w);
            _h_stale = false;
        }
        return _h;
    }

private:
    arr_real _w;
    mutable arr_real _h;
    mutable bool _h_stale{true};
    bool _locked{false};
};
}   // namespace dsplib
