// EXPECT: clean
#include "mini.h"
namespace dsplib {
// the state starts from the first sample: a one-shot initialisation, not a derived value
class Smoother
{
public:
    explicit Smoother(double a)
      : _alpha(a) {
    }
    double process(double x) {
        if (!_started) {
            _state = _alpha * x;
            _started = true;
        }
        _state = _state + _alpha * (x - _state);
        return _state;
    }
    void set_alpha(double a) {
        _alpha = a;
    }

private:
    double _alpha;
    double _state{0};
    bool _started{false};
};
}   // namespace dsplib
