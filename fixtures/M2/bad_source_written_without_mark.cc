// EXPECT: violated M2:dsplib::Adaptive:_h:mark
#include "mini.h"
namespace dsplib {
arr_real flip(const arr_real& w);
class Adaptive
{
public:
    explicit Adaptive(int n)
      : _w(n)
      , _h(n) {
    }
    void process(const arr_real& x) {
        for (int i = 0; i < _w.size(); ++i) {
            _w[i] += x[0];
        }
        _h_stale = true;
    }
    // the coefficients are replaced, the derived copy is not marked
    void set_coeffs(const arr_real& w) {
        _w = w;
    }
    const arr_real& coeffs() const {
        if (_h_stale) {
            _h = flip(_w);
            _h_stale = false;
        }
        return _h;
    }

private:
    arr_real _w;
    mutable arr_real _h;
    mutable bool _h_stale{true};
};
}   // namespace dsplib
