// EXPECT: clean T1c:dsplib::base_array<double>:storage
// EXPECT: clean T1c:dsplib::base_array<double>:copy-ctor
#include <cstddef>
#include <vector>
using std::size_t;
namespace dsplib {
template<typename T>
class base_array
{
public:
    base_array() = default;
    base_array(const base_array& v)
      : _vec(v._vec) {
    }
    base_array operator+(const base_array& rhs) const {
        base_array r(*this);
        for (size_t i = 0; i < _vec.size(); ++i) {
            r._vec[i] += rhs._vec[i];
        }
        return r;
    }
    base_array& operator+=(const base_array& rhs) {
        for (size_t i = 0; i < _vec.size(); ++i) {
            _vec[i] += rhs._vec[i];
        }
        return *this;
    }
    T& operator[](int i) {
        return _vec[i];
    }
    const T& operator[](int i) const {
        return _vec[i];
    }
    std::vector<T> _vec;
};
base_array<double> operator*(double k, const base_array<double>& a) {
    base_array<double> r(a);
    return r;
}
void use(base_array<double>& a, const base_array<double>& b) {
    auto c = a + b;
    a += c;
    a[0] = b[0];
}
}   // namespace dsplib
