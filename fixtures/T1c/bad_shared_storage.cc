// EXPECT: violated T1c:dsplib::base_array<double>:storage
// EXPECT: violated T1c:dsplib::base_array<double>::operator+
#include <memory>
#include <cstddef>
#include <vector>
using std::size_t;
namespace dsplib {
template<typename T>
class base_array
{
public:
    base_array() = default;
    base_array(const base_array& v)
      : _vec(v._vec)
      , _shared(v._shared) {
    }
    // a "copy-on-write" array: copies share storage, and operator+ accumulates in place
    base_array operator+(const base_array& rhs) {
        for (size_t i = 0; i < _vec.size(); ++i) {
            _vec[i] += rhs._vec[i];
        }
        return *this;
    }
    std::vector<T> _vec;
    std::shared_ptr<std::vector<T>> _shared;
};
void use(base_array<double>& a, const base_array<double>& b) {
    auto c = a + b;
}
}   // namespace dsplib
