// EXPECT: violated Z1:dsplib::BlockFilter::process
#include "mini.h"
namespace dsplib {
class BlockFilter
{
public:
    BlockFilter() = default;
    explicit BlockFilter(int n)
      : _n{n} {
    }
    int process(int len) {
        return (len + _nx) / _n * _n;
    }

private:
    int _nx{0};
    int _n{0};
};
}   // namespace dsplib
