// EXPECT: clean Z1:dsplib::BlockFilter::process
#include "mini.h"
namespace dsplib {
class BlockFilter
{
public:
    BlockFilter() = default;
    explicit BlockFilter(int n)
      : _n{n} {
    }
    int process(int len) {
        DSPLIB_ASSERT(_n > 0, "filter is not initialized");
        return (len + _nx) / _n * _n;
    }

private:
    int _nx{0};
    int _n{0};
};
class Always
{
public:
    explicit Always(int n)
      : _n{n} {
    }
    int rem(int len) const {
        return len % _n;        // every constructor sets _n
    }

private:
    int _n{0};
};
}   // namespace dsplib
