// EXPECT: clean K2:dsplib::LRUCache<int, int>::put
#include "lru.h"
namespace dsplib {
template<typename Key, typename Value>
class LRUCache
{
public:
    using KeyValue_t = std::pair<Key, Value>;
    using ListIterator_t = typename std::list<KeyValue_t>::iterator;
    explicit LRUCache(size_t max_size)
      : max_size_(max_size) {
    }
    void put(const Key& key, const Value& value) {
        auto it = items_map_.find(key);
        if (it != items_map_.end()) {
            it->second->second = value;
            items_list_.splice(items_list_.begin(), items_list_, it->second);   // neutral
            return;
        }
        if (items_map_.size() >= max_size_) {
            items_map_.erase(items_list_.back().first);
            items_list_.pop_back();
        }
        items_list_.emplace_front(key, value);
        items_map_.emplace(key, items_list_.begin());
    }

private:
    std::list<KeyValue_t> items_list_;
    std::unordered_map<Key, ListIterator_t> items_map_;
    size_t max_size_;
};
template class LRUCache<int, int>;
}   // namespace dsplib
