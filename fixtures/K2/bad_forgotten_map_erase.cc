// EXPECT: violated K2:dsplib::LRUCache<int, int>::put
// the eviction pops the list node but leaves its iterator in the map: it is dereferenced after the fifth distinct key
#include "lru.h"
namespace dsplib {
template<typename Key, typename Value>
class LRUCache
{
public:
    using KeyValue_t = std::pair<Key, Value>;
    using ListIterator_t = typename std::list<KeyValue_t>::iterator;
    explicit LRUCache(size_t max_size)
      : max_size_(max_size) {
    }
    void put(const Key& key, const Value& value) {
        auto it = items_map_.find(key);
        items_list_.push_front(KeyValue_t(key, value));
        if (it != items_map_.end()) {
            items_list_.erase(it->second);
            items_map_.erase(it);
        }
        items_map_[key] = items_list_.begin();
        if (items_map_.size() > max_size_) {
            items_list_.pop_back();
        }
    }
    bool exists(const Key& key) const {
        return items_map_.find(key) != items_map_.end();
    }

private:
    std::list<KeyValue_t> items_list_;
    std::unordered_map<Key, ListIterator_t> items_map_;
    size_t max_size_;
};
template class LRUCache<int, int>;
}   // namespace dsplib
