// EXPECT: clean K2:dsplib::LRUCache<int, int>::touch
// list and map updates sit in different branches but balance on every path
#include "lru.h"
namespace dsplib {
template<typename Key, typename Value>
class LRUCache
{
public:
    using KeyValue_t = std::pair<Key, Value>;
    using ListIterator_t = typename std::list<KeyValue_t>::iterator;
    explicit LRUCache(size_t max_size)
      : max_size_(max_size) {
    }
    const Value& touch(const Key& key) {
        auto it = items_map_.find(key);
        if (it != items_map_.end()) {
            items_list_.splice(items_list_.begin(), items_list_, it->second);
            return it->second->second;
        }
        if (items_map_.size() < max_size_) {
            items_list_.emplace_front(key, Value{});
        } else {
            auto last = std::prev(items_list_.end());
            items_map_.erase(last->first);
            *last = KeyValue_t(key, Value{});
            items_list_.splice(items_list_.begin(), items_list_, last);
        }
        items_map_[key] = items_list_.begin();
        return items_list_.front().second;
    }

private:
    std::list<KeyValue_t> items_list_;
    std::unordered_map<Key, ListIterator_t> items_map_;
    size_t max_size_;
};
template class LRUCache<int, int>;
}   // namespace dsplib
