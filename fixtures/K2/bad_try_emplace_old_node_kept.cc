// EXPECT: violated K2:dsplib::LRUCache<int, int>::put
#include "lru.h"
namespace dsplib {
template<typename Key, typename Value>
class LRUCache
{
public:
    using KeyValue_t = std::pair<Key, Value>;
    using ListIterator_t = typename std::list<KeyValue_t>::iterator;
    explicit LRUCache(size_t max_size)
      : max_size_(max_size) {
    }
    // the key was there: the slot is re-pointed, the old list node stays behind
    void put(const Key& key, const Value& value) {
        items_list_.emplace_front(key, value);
        const auto res = items_map_.try_emplace(key, items_list_.begin());
        if (!res.second) {
            res.first->second = items_list_.begin();
        }
    }

private:
    std::list<KeyValue_t> items_list_;
    std::unordered_map<Key, ListIterator_t> items_map_;
    size_t max_size_;
};
template class LRUCache<int, int>;
}   // namespace dsplib
