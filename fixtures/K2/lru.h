#pragma once
#include "mini.h"
#include <list>
#include <unordered_map>
