// EXPECT: violated G3c:dsplib::slice_t<double>::operator=(constdsplib::const_slice_t<double>&):return1
// "self-assignment" shortcut that compares start and stop but not the step
#include "slices.h"
namespace dsplib {
template<typename T>
class slice_t : public base_slice_t
{
public:
    slice_t(base_array<T>& arr, int i1, int i2, int m)
      : base_slice_t(arr.size(), i1, i2, m)
      , _base{arr} {
    }
    int size() const noexcept {
        return _nc;
    }
    T* begin() noexcept {
        return _base.data() + _i1;
    }
    slice_t& operator=(const const_slice_t<T>& rhs) {
        DSPLIB_ASSERT(this->size() == rhs.size(), "size");
        const bool is_same_vec = (_base.data() == rhs._base.data());
        if (is_same_vec && (_i1 == rhs._i1) && (_i2 == rhs._i2)) {
            return *this;
        }
        std::memmove(begin(), rhs.begin(), _nc * sizeof(T));
        return *this;
    }

private:
    base_array<T>& _base;
};
void use(base_array<double>& a) {
    slice_t<double> s(a, 0, 2, 1);
    s = const_slice_t<double>(a, 1, 3, 1);
}
}   // namespace dsplib
