// EXPECT: clean G3c:dsplib::slice_t<double>::operator=(constdsplib::const_slice_t<double>&):return1
// one return at the end of an if/else-if chain; the two "nothing to copy" cases are an empty slice and - through predicates - the
// very same elements
#include "slices.h"
namespace dsplib {
template<typename T>
class slice_t : public base_slice_t
{
public:
    slice_t(base_array<T>& arr, int i1, int i2, int m)
      : base_slice_t(arr.size(), i1, i2, m)
      , _base{arr} {
    }
    int size() const noexcept {
        return _nc;
    }
    T* begin() noexcept {
        return _base.data() + _i1;
    }
    slice_t& operator=(const const_slice_t<T>& rhs) {
        if (this->size() != rhs.size()) {
            DSPLIB_THROW("Slices size must be equal");
        }
        const int count = this->size();
        const bool is_same_vec = _shares_storage(rhs);
        if (count == 0) {
            //nothing to copy
        } else if (is_same_vec && _same_elements(rhs)) {
            //nothing to copy
        } else {
            std::memmove(begin(), rhs.begin(), count * sizeof(T));
        }
        return *this;
    }

private:
    bool _shares_storage(const const_slice_t<T>& rhs) const noexcept {
        const T* const own = _base.data();
        const T* const other = rhs._base.data();
        return !(own != other);
    }
    bool _same_elements(const const_slice_t<T>& rhs) const noexcept {
        return (rhs._i1 == _i1) && (rhs._m == _m);
    }
    base_array<T>& _base;
};
void use(base_array<double>& a) {
    slice_t<double> s(a, 0, 2, 1);
    s = const_slice_t<double>(a, 1, 3, 1);
}
}   // namespace dsplib
