// EXPECT: clean G3c:dsplib::slice_t<double>::operator=(constdsplib::const_slice_t<double>&):return1
// one return for both cases: the copying helper runs unless the slice is empty
#include "slices.h"
namespace dsplib {
template<typename T>
class slice_t : public base_slice_t
{
public:
    slice_t(base_array<T>& arr, int i1, int i2, int m)
      : base_slice_t(arr.size(), i1, i2, m)
      , _base{arr} {
    }
    int size() const noexcept {
        return _nc;
    }
    T* begin() noexcept {
        return _base.data() + _i1;
    }
    slice_t& operator=(const const_slice_t<T>& rhs) {
        const int count = _nc;
        if (rhs._nc != count) {
            DSPLIB_THROW("Slices size must be equal");
        }
        if (count != 0) {
            _assign_nonempty(rhs, count);
        }
        return *this;
    }

private:
    void _assign_nonempty(const const_slice_t<T>& rhs, int count) {
        std::memmove(_base.data() + _i1, rhs.begin(), count * sizeof(T));
    }
    base_array<T>& _base;
};
void use(base_array<double>& a) {
    slice_t<double> s(a, 0, 2, 1);
    s = const_slice_t<double>(a, 1, 3, 1);
}
}   // namespace dsplib
