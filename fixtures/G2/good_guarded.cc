// EXPECT: clean G2:dsplib::dot
// EXPECT: clean G2:dsplib::gather
#include "mini.h"
namespace dsplib {
real_t dot(const arr_real& a, const arr_real& b) {
    if (a.size() != b.size()) {
        DSPLIB_THROW("sizes");
    }
    real_t acc = 0;
    for (int i = 0; i < a.size(); ++i) {
        acc += a[i] * b[i];
    }
    return acc;
}
arr_real gather(const arr_real& x, const std::vector<int>& idxs) {
    const int n = x.size();
    arr_real res(int(idxs.size()));
    for (size_t i = 0; i < idxs.size(); ++i) {
        const int k = idxs[i];
        DSPLIB_ASSERT((k >= 0) && (k < n), "index out of range");
        res[i] = x[k];
    }
    return res;
}
// own bound on own storage; the local result is sized from the operand
arr_real scale(const arr_real& a, real_t k) {
    arr_real r(a.size());
    for (int i = 0; i < a.size(); ++i) {
        r[i] = a[i] * k;
    }
    return r;
}
}   // namespace dsplib
