// EXPECT: violated G2:dsplib::weighted
// the loop runs over x and reads w[i]: a check that lets w be *shorter* than x is no guard for that read
#include "mini.h"
namespace dsplib {
real_t weighted(const arr_real& x, const arr_real& w) {
    DSPLIB_ASSERT(x.size() >= w.size(), "arrays sizes must be equal");
    real_t acc = 0;
    for (int i = 0; i < x.size(); ++i) {
        acc += x[i] * w[i];
    }
    return acc;
}
}   // namespace dsplib
