// EXPECT: clean G2:dsplib::weighted_ok
// the loop runs over x and reads w[i]: a check that makes w at least as long as x is a guard for that read
#include "mini.h"
namespace dsplib {
real_t weighted_ok(const arr_real& x, const arr_real& w) {
    DSPLIB_ASSERT(x.size() <= w.size(), "the weights must cover the signal");
    real_t acc = 0;
    for (int i = 0; i < x.size(); ++i) {
        acc += x[i] * w[i];
    }
    return acc;
}
}   // namespace dsplib
