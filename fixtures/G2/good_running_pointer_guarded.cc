// EXPECT: clean G2:dsplib::accumulate_into
#include "mini.h"
namespace dsplib {
static void _require_same_size(int n, int m) {
    if (n != m) {
        DSPLIB_THROW("arrays sizes must be equal");
    }
}
void accumulate_into(std::vector<real_t>& acc, const arr_real& rhs) {
    _require_same_size(rhs.size(), int(acc.size()));
    const real_t* src = rhs.data();
    for (real_t& dst : acc) {
        dst += *src;
        ++src;
    }
}
}   // namespace dsplib
