// EXPECT: clean G2:dsplib::(anonymousnamespace)::_kernel
// same chain, the check sits in the dispatcher between the public function and the kernel
#include "mini.h"
namespace dsplib {
namespace {
real_t _kernel(const arr_real& x, const arr_real& y) {
    const int n = x.size();
    real_t acc = 0;
    for (int i = 0; i < n; ++i) {
        acc += x[i] * y[i];
    }
    return acc;
}
real_t _dispatch(const arr_real& a, const arr_real& b, int kind) {
    DSPLIB_ASSERT(a.size() == b.size(), "Array size must be equal");
    if (kind == 0) {
        return _kernel(a, b);
    }
    return 0;
}
}   // namespace
real_t stat(const arr_real& x, const arr_real& y, int kind) {
    return _dispatch(x, y, kind);
}
}   // namespace dsplib
