// EXPECT: violated G2:dsplib::accumulate_into
// the source is read through a running pointer for as many elements as the destination has; nothing relates the two lengths
#include "mini.h"
namespace dsplib {
void accumulate_into(std::vector<real_t>& acc, const arr_real& rhs) {
    const real_t* src = rhs.data();
    for (real_t& dst : acc) {
        dst += *src;
        ++src;
    }
}
}   // namespace dsplib
