// EXPECT: violated G2:dsplib::first_greater
// EXPECT: violated G2:dsplib::gather
#include "mini.h"
namespace dsplib {
// the loop runs over a, the subscript reads b: nothing relates the two lengths
std::vector<bool> first_greater(const arr_real& a, const arr_real& b) {
    std::vector<bool> res(a.size());
    for (int i = 0; i < a.size(); ++i) {
        res[i] = a[i] > b[i];
    }
    return res;
}
// the index comes out of a caller-supplied list; only the maximum is checked, and as an unsigned value
arr_real gather(const arr_real& x, const std::vector<int>& idxs) {
    const size_t max_i = *std::max_element(idxs.begin(), idxs.end());
    DSPLIB_ASSERT(max_i < x._vec.size(), "index must not exceed the size of the vector");
    arr_real res(int(idxs.size()));
    for (size_t i = 0; i < idxs.size(); ++i) {
        res[i] = x[idxs[i]];
    }
    return res;
}
}   // namespace dsplib
