// EXPECT: violated G2:dsplib::add_into
#include "mini.h"
namespace dsplib {
// b is read as far as a is long; nothing relates the two lengths
void add_into(std::vector<double>& a, const std::vector<double>& b) {
    std::transform(a.begin(), a.end(), b.begin(), a.begin(), [](double x, double y) {
        return x + y;
    });
}
}   // namespace dsplib
