// EXPECT: clean
#include "mini.h"
namespace dsplib {
class Picker
{
public:
    // the index handed to the subscript is the value of a validating helper
    std::vector<double> pick(const std::vector<int>& idxs) const {
        std::vector<double> r(idxs.size());
        auto out = r.begin();
        for (auto it = idxs.begin(); it != idxs.end(); ++it, ++out) {
            *out = _vec[_checked_pos(*it)];
        }
        return r;
    }

private:
    size_t _checked_pos(int k) const {
        const int n = int(_vec.size());
        if ((k < 0) || (n <= k)) {
            DSPLIB_THROW("index must not exceed the size of the vector");
        }
        return size_t(k);
    }
    std::vector<double> _vec;
};
}   // namespace dsplib
