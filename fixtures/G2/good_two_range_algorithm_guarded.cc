// EXPECT: clean
#include "mini.h"
namespace dsplib {
void add_into(std::vector<double>& a, const std::vector<double>& b) {
    if (a.size() != b.size()) {
        DSPLIB_THROW("arrays sizes must be equal");
    }
    std::transform(a.begin(), a.end(), b.begin(), a.begin(), [](double x, double y) {
        return x + y;
    });
}
}   // namespace dsplib
