// EXPECT: violated G2:dsplib::Picker::pick
#include "mini.h"
namespace dsplib {
class Picker
{
public:
    std::vector<double> pick(const std::vector<int>& idxs) const {
        std::vector<double> r(idxs.size());
        auto out = r.begin();
        for (auto it = idxs.begin(); it != idxs.end(); ++it, ++out) {
            *out = _vec[_checked_pos(*it)];
        }
        return r;
    }

private:
    // only the upper side is checked: a negative entry indexes before the storage
    size_t _checked_pos(int k) const {
        const int n = int(_vec.size());
        if (n <= k) {
            DSPLIB_THROW("index must not exceed the size of the vector");
        }
        return size_t(k);
    }
    std::vector<double> _vec;
};
}   // namespace dsplib
