// EXPECT: clean
#include "mini.h"
#include <array>
namespace dsplib {
namespace {
constexpr std::array<uint8_t, 6> TABLE = {2, 3, 5, 7, 11, 13};
}
unsigned next_tabulated(unsigned n) {
    if (n <= TABLE[TABLE.size() - 1]) {
        return *std::lower_bound(TABLE.begin(), TABLE.end(), n);
    }
    return 0;
}
unsigned next_tabulated2(unsigned n) {
    if (n <= 13) {
        return *std::lower_bound(TABLE.begin(), TABLE.end(), n);
    }
    return 0;
}
unsigned next_tabulated3(unsigned n) {
    if (n > TABLE.back()) {
        return 0;
    }
    const auto it = std::lower_bound(TABLE.begin(), TABLE.end(), n);
    return *it;
}
int position_of(const std::vector<int>& v, int x) {
    auto it = std::find(v.begin(), v.end(), x);
    if (it == v.end()) {
        return -1;
    }
    return *it;
}
bool contains(const std::vector<int>& v, int x) {
    return std::find(v.begin(), v.end(), x) != v.end();
}
int first_negative(const std::vector<int>& v) {
    const auto it = std::find_if(v.begin(), v.end(), [](int a) { return a < 0; });
    return (it != v.end()) ? *it : 0;
}
int sum_from(const std::vector<int>& v, int x) {
    auto it = std::lower_bound(v.begin(), v.end(), x);
    int s = 0;
    for (; it != v.end(); ++it) {
        s += *it;
    }
    return s;
}
bool next_is(const std::vector<int>& v, int x, int y) {
    const auto it = std::upper_bound(v.begin(), v.end(), x);
    return (it != v.end()) && (*it == y);
}
int index_of(const std::vector<int>& v, int x) {
    const auto it = std::find(v.begin(), v.end(), x);
    if (v.end() == it) {
        throw std::runtime_error("absent");
    }
    return int(it - v.begin()) + *it;
}
}   // namespace dsplib
namespace dsplib {
// a search over the first n-1 slots: "not found" is the last slot, a valid element
double* slot_of(double* x, int n, double v) {
    double* const last = x + (n - 1);
    double* const p = std::find(x, last, v);
    *p = v;
    return p;
}
}   // namespace dsplib
