// EXPECT: violated Q2:dsplib::next_tabulated
#include "mini.h"
#include <array>
namespace dsplib {
namespace {
constexpr std::array<uint8_t, 6> TABLE = {2, 3, 5, 7, 11, 13};
}
// the table ends at 13, the guard admits 14 and 15: lower_bound returns end() and is dereferenced
unsigned next_tabulated(unsigned n) {
    if (n < 16) {
        return *std::lower_bound(TABLE.begin(), TABLE.end(), n);
    }
    return 0;
}
}   // namespace dsplib
