// EXPECT: violated Q2:dsplib::position_of
#include "mini.h"
namespace dsplib {
int position_of(const std::vector<int>& v, int x) {
    auto it = std::find(v.begin(), v.end(), x);
    return *it;
}
}   // namespace dsplib
