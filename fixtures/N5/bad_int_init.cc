// EXPECT: violated N5:dsplib::window_power
#include "mini.h"
#include <numeric>
namespace dsplib {
real_t window_power(const arr_real& p2, int k, int len) {
    const real_t* win = p2.data() + k;
    return std::accumulate(win, win + len, 0);
}
}   // namespace dsplib
