// EXPECT: clean G6:dsplib::Interp::process
// EXPECT: clean G6:dsplib::Interp::shift
#include "mini.h"
namespace dsplib {
class Interp
{
public:
    arr_real process(const arr_real& in) {
        const int nx = in.size();
        const int nd = d_.size();
        arr_real y(nx);
        if (nx >= nd) {
            std::memcpy(d_.data(), in.data() + (nx - nd), nd * sizeof(real_t));
        }
        return y;
    }
    void shift(int k) {
        const int nd = d_.size();
        const int half = nd / 2;
        std::memmove(d_.data(), d_.data() + (nd - half), half * sizeof(real_t));   // both operands from the same object
        std::memset(d_.data(), 0, (nd - 1) * sizeof(real_t));                      // constant operand
    }
    arr_real d_;
};
}   // namespace dsplib
