// EXPECT: violated G6:dsplib::Line::_shift_front
#include "mini.h"
#include <cstring>
namespace dsplib {
class Line
{
public:
    explicit Line(int n)
      : _buffer(n) {
    }
    arr_real process(const arr_real& x) {
        const int nx = x.size();
        arr_real out(nx);
        _shift_front(nx);                    // a frame longer than the line makes the length negative
        return out;
    }

private:
    void _shift_front(int k) noexcept {
        real_t* p = _buffer.data();
        std::memmove(p, p + k, (_buffer.size() - k) * sizeof(real_t));
    }
    arr_real _buffer;
};
}   // namespace dsplib
