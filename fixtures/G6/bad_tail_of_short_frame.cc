// EXPECT: violated G6:dsplib::Interp::process
#include "mini.h"
namespace dsplib {
class Interp
{
public:
    arr_real process(const arr_real& in) {
        const int nx = in.size();
        const int nd = d_.size();
        arr_real y(nx);
        // history <- the last nd input samples: fine for long frames, reads before `in` when nx < nd
        std::memcpy(d_.data(), in.data() + (nx - nd), nd * sizeof(real_t));
        return y;
    }
    arr_real d_;
};
}   // namespace dsplib
