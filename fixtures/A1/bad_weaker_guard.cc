// EXPECT: violated A1:dsplib::(anonymousnamespace)::_irfft_table
#include "mini.h"
namespace dsplib {
namespace {
std::vector<cmplx_t> _irfft_table(int n) noexcept {
    assert(n % 4 == 0);                 // compiled out in release builds
    std::vector<cmplx_t> res(n / 2);
    res[n / 4] = {0, 1};
    return res;
}
}   // namespace
class InvPlan
{
public:
    explicit InvPlan(int n)
      : _n{n} {
        DSPLIB_ASSERT(n % 2 == 0, "size must be even");      // weaker than what the helper believes
        _w = _irfft_table(n);
    }
    int _n;
    std::vector<cmplx_t> _w;
};
}   // namespace dsplib
