// EXPECT: clean A1:dsplib::(anonymousnamespace)::_table
// EXPECT: clean A1:dsplib::(anonymousnamespace)::Plan::_run
// as good_chain.cc, but the size check of solve() is hoisted into a helper that throws: its normal-exit facts count
#include "mini.h"
namespace dsplib {
bool ispow2(int n);
bool isprime(int n);
namespace {
std::vector<int> _table(int n) noexcept {
    DSPLIB_ASSUME(n % 4 == 0);
    std::vector<int> res(n / 2);
    res[n / 4] = 1;
    return res;
}
void _check_solve_args(const cmplx_t* x, const cmplx_t* y, int n, int plan_size) {
    if (x == y) {
        DSPLIB_THROW("Pointers must be restricted");
    }
    if (n != plan_size) {
        DSPLIB_THROW("Input size must be equal FFT size");
    }
}
class Plan
{
public:
    explicit Plan(int n)
      : n_{n} {
        DSPLIB_ASSERT(ispow2(n), "size must be a power of two");
        t_ = _table(n);
    }
    void solve(const cmplx_t* x, cmplx_t* y, int n) const {
        _check_solve_args(x, y, n, n_);
        _run(x, y, n);
    }

private:
    void _run(const cmplx_t* x, cmplx_t* y, int n) const noexcept {
        DSPLIB_ASSUME(n % 2 == 0);
        for (int i = 0; i < n / 2; ++i) {
            y[i] = x[t_[i]];
        }
    }
    const int n_;
    std::vector<int> t_;
};
std::shared_ptr<Plan> _select(int n) {
    if (isprime(n)) {
        return nullptr;
    }
    if (ispow2(n)) {
        return std::make_shared<Plan>(n);
    }
    return nullptr;
}
}   // namespace
bool create_plan(int n) {
    if ((n == 1) || (n == 2)) {
        return false;
    }
    return _select(n) != nullptr;
}
}   // namespace dsplib
