// EXPECT: clean A1:dsplib::(anonymousnamespace)::_irfft_table
// EXPECT: clean A1:dsplib::(anonymousnamespace)::_small
#include "mini.h"
namespace dsplib {
namespace {
std::vector<cmplx_t> _irfft_table(int n) noexcept {
    DSPLIB_ASSUME(n % 2 == 0);
    std::vector<cmplx_t> res(n / 2);
    return res;
}
int _small(int n) noexcept {
    DSPLIB_ASSUME(n <= 41);
    return n * n;
}
}   // namespace
class InvPlan
{
public:
    explicit InvPlan(int n)
      : _n{n} {
        DSPLIB_ASSERT(n % 4 == 0, "size must be a multiple of four");    // stronger: 2 | 4
        _w = _irfft_table(n);
        if (n <= 16) {                                                     // branch condition entails the bound
            _n = _small(n);
        }
    }
    int _n;
    std::vector<cmplx_t> _w;
};
}   // namespace dsplib
