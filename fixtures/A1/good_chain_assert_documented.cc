// EXPECT: count 0
// the public entry point documents the helper's precondition with an assert of its own: not an obligation of the library
#include "mini.h"
namespace dsplib {
namespace {
int _quarter(int n) noexcept {
    DSPLIB_ASSUME(n % 4 == 0);
    return n / 4;
}
int _mid(int n) {
    return _quarter(n) + 1;
}
}   // namespace
int quarter_plus_one(int n) {
    assert(n % 4 == 0);
    return _mid(n);
}
}   // namespace dsplib
