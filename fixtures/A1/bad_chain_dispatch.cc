// EXPECT: violated A1:dsplib::(anonymousnamespace)::_table
// EXPECT: violated A1:dsplib::(anonymousnamespace)::Plan::_run
// n == 1 is a power of two, is not prime, and is no longer diverted: it reaches both beliefs
#include "mini.h"
namespace dsplib {
bool ispow2(int n);
bool isprime(int n);
namespace {
std::vector<int> _table(int n) noexcept {
    DSPLIB_ASSUME(n % 4 == 0);
    std::vector<int> res(n / 2);
    res[n / 4] = 1;
    return res;
}
class Plan
{
public:
    explicit Plan(int n)
      : n_{n} {
        DSPLIB_ASSERT(ispow2(n), "size must be a power of two");
        t_ = _table(n);
    }
    void solve(const cmplx_t* x, cmplx_t* y, int n) const {
        DSPLIB_ASSERT(n == n_, "size mismatch");
        _run(x, y, n);
    }

private:
    void _run(const cmplx_t* x, cmplx_t* y, int n) const noexcept {
        DSPLIB_ASSUME(n % 2 == 0);
        for (int i = 0; i < n / 2; ++i) {
            y[i] = x[t_[i]];
        }
    }
    const int n_;
    std::vector<int> t_;
};
std::shared_ptr<Plan> _select(int n) {
    if (isprime(n)) {
        return nullptr;
    }
    if (ispow2(n)) {
        return std::make_shared<Plan>(n);
    }
    return nullptr;
}
}   // namespace
bool create_plan(int n) {
    if (n == 2) {
        return false;
    }
    return _select(n) != nullptr;
}
}   // namespace dsplib
