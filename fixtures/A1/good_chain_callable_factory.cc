// EXPECT: count 0
// the factory is passed around as a callable, so the constructor's callers are unknown (unmodelled, not refuted); and the
// public run() must not be blamed: solve() ties n to the object's n_, a constraint the frame of run() cannot see
#include "mini.h"
namespace dsplib {
bool ispow2(int n);
bool isprime(int n);
namespace {
std::vector<int> _table(int n) noexcept {
    DSPLIB_ASSUME(n % 4 == 0);
    std::vector<int> res(n / 2);
    res[n / 4] = 1;
    return res;
}
class Plan
{
public:
    explicit Plan(int n)
      : n_{n} {
        DSPLIB_ASSERT(ispow2(n), "size must be a power of two");
        t_ = _table(n);
    }
    void solve(const cmplx_t* x, cmplx_t* y, int n) const {
        DSPLIB_ASSERT(n == n_, "size mismatch");
        _run(x, y, n);
    }

private:
    void _run(const cmplx_t* x, cmplx_t* y, int n) const noexcept {
        DSPLIB_ASSUME(n % 2 == 0);
        for (int i = 0; i < n / 2; ++i) {
            y[i] = x[t_[i]];
        }
    }
    const int n_;
    std::vector<int> t_;
};
std::shared_ptr<Plan> _select(int n) {
    if (isprime(n)) {
        return nullptr;
    }
    if (ispow2(n)) {
        return std::make_shared<Plan>(n);
    }
    return nullptr;
}
}   // namespace
template<class F>
std::shared_ptr<Plan> _cached(int n, F make) {
    return make(n);
}
std::shared_ptr<Plan> g_plan;
bool create_plan(int n) {
    if ((n == 1) || (n == 2)) {
        return false;
    }
    g_plan = _cached(n, _select);
    return g_plan != nullptr;
}
void run(const base_array<cmplx_t>& x, base_array<cmplx_t>& y) {
    g_plan->solve(x.data(), y.data(), x.size());
}
}   // namespace dsplib
