// EXPECT: clean G3d:dsplib::slice_t<double>::operator=
// element by element only where the arrays differ; the shared case goes through one overlap-safe primitive
#include "slices.h"
namespace dsplib {
template<typename T>
class slice_t : public base_slice_t
{
public:
    slice_t(base_array<T>& arr, int i1, int i2, int m)
      : base_slice_t(arr.size(), i1, i2, m)
      , _base{arr} {
    }
    int size() const noexcept {
        return _nc;
    }
    T* begin() noexcept {
        return _base.data() + _i1;
    }
    slice_t& operator=(const const_slice_t<T>& rhs) {
        DSPLIB_ASSERT(this->size() == rhs.size(), "size");
        const int count = this->size();
        if (_base.data() != rhs._base.data()) {
            const T* src = rhs.begin();
            T* dst = begin();
            for (int i = 0; i < count; ++i, src += rhs._m, dst += _m) {
                *dst = *src;
            }
            return *this;
        }
        std::memmove(begin(), rhs.begin(), count * sizeof(T));
        return *this;
    }

private:
    base_array<T>& _base;
};
void use(base_array<double>& a) {
    slice_t<double> s(a, 0, 2, 1);
    s = const_slice_t<double>(a, 1, 3, 1);
}
}   // namespace dsplib
