#pragma once
#include "minislice.h"
namespace dsplib {
template<typename T>
class slice_t;
template<typename T>
class const_slice_t : public base_slice_t
{
public:
    friend class slice_t<T>;
    const_slice_t(const base_array<T>& arr, int i1, int i2, int m)
      : base_slice_t(arr.size(), i1, i2, m)
      , _base{arr} {
    }
    int size() const noexcept {
        return _nc;
    }
    int stride() const noexcept {
        return _m;
    }
    const T* begin() const noexcept {
        return _base.data() + _i1;
    }
    const T* end() const noexcept {
        return _base.data() + _i2;
    }

private:
    const base_array<T>& _base;
};
}   // namespace dsplib
