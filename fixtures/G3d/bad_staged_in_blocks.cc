// EXPECT: violated G3d:dsplib::slice_t<double>::operator=
// the same-array case is staged through a fixed buffer block by block: a later block reads what an earlier block overwrote
#include "slices.h"
#include <array>
namespace dsplib {
template<typename T>
class slice_t : public base_slice_t
{
public:
    slice_t(base_array<T>& arr, int i1, int i2, int m)
      : base_slice_t(arr.size(), i1, i2, m)
      , _base{arr} {
    }
    int size() const noexcept {
        return _nc;
    }
    T* begin() noexcept {
        return _base.data() + _i1;
    }
    slice_t& operator=(const const_slice_t<T>& rhs) {
        DSPLIB_ASSERT(this->size() == rhs.size(), "size");
        const int count = this->size();
        std::array<T, 4> stage;
        const T* src = rhs.begin();
        T* dst = begin();
        for (int left = count; left > 0;) {
            const int len = (left < 4) ? left : 4;
            for (int i = 0; i < len; ++i, src += rhs._m) {
                stage[i] = *src;
            }
            for (int i = 0; i < len; ++i, dst += _m) {
                *dst = stage[i];
            }
            left -= len;
        }
        return *this;
    }

private:
    base_array<T>& _base;
};
void use(base_array<double>& a) {
    slice_t<double> s(a, 0, 2, 1);
    s = const_slice_t<double>(a, 1, 3, 1);
}
}   // namespace dsplib
