// EXPECT: clean D2:dsplib::slice_t<double>::end
// two correct sentinels: begin() advanced by the count, and start + count * step spelled out
#include "minislice.h"
namespace dsplib {
template<typename T>
class StrideIt
{
public:
    StrideIt(T* p, int step)
      : _p{p}
      , _step{step} {
    }
    StrideIt& operator++() {
        _p += _step;
        return *this;
    }
    bool operator!=(const StrideIt& rhs) const {
        return _p != rhs._p;
    }
    T& operator*() {
        return *_p;
    }

private:
    T* _p;
    int _step;
};
template<typename T>
class slice_t : public base_slice_t
{
public:
    slice_t(base_array<T>& b, int i1, int i2, int m)
      : base_slice_t(b.size(), i1, i2, m)
      , _base{b} {
    }
    StrideIt<T> begin() {
        return StrideIt<T>(_base.data() + _i1, _m);
    }
    StrideIt<T> end() {
        auto cur = begin();
        for (int k = 0; k < _nc; ++k) {
            ++cur;
        }
        return cur;
    }
    StrideIt<const T> begin() const {
        return StrideIt<const T>(_base.data() + _i1, _m);
    }
    StrideIt<const T> end() const {
        return StrideIt<const T>(_base.data() + _i1 + _nc * _m, _m);
    }

private:
    base_array<T>& _base;
};
double use(base_array<double>& x) {
    slice_t<double> s(x, 0, 4, 2);
    const slice_t<double>& cs = s;
    double acc = 0;
    for (auto it = cs.begin(); it != cs.end(); ++it) {
        acc += *it;
    }
    for (auto it = s.begin(); it != s.end(); ++it) {
        *it = acc;
    }
    return acc;
}
}   // namespace dsplib
