// EXPECT: violated P3b:dsplib::(anonymousnamespace)::_default_filter
// the first caller receives the very object that stays in the per-thread cache and keeps advancing it
#include "mini.h"
#include <map>
namespace dsplib {
class Smoother
{
public:
    explicit Smoother(int n)
      : _n{n} {
    }
    real_t process(real_t x) {
        _acc += (x - _acc) / _n;
        return _acc;
    }

private:
    int _n;
    real_t _acc{0};
};
namespace {
std::shared_ptr<Smoother> _default_filter(int n) {
    thread_local std::map<int, std::shared_ptr<Smoother>> cache;
    auto it = cache.find(n);
    if (it == cache.end()) {
        auto flt = std::make_shared<Smoother>(n);
        cache.emplace(n, flt);
        return flt;
    }
    return std::make_shared<Smoother>(*it->second);
}
}   // namespace
class Meter
{
public:
    explicit Meter(int n)
      : _f{_default_filter(n)} {
    }
    Meter(const Meter& rhs)
      : _f{std::make_shared<Smoother>(*rhs._f)} {
    }
    Meter& operator=(const Meter& rhs) {
        _f = std::make_shared<Smoother>(*rhs._f);
        return *this;
    }
    real_t process(real_t x) {
        return _f->process(x);
    }

private:
    std::shared_ptr<Smoother> _f;
};
}   // namespace dsplib
