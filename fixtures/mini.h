// Minimal stand-in for the dsplib vocabulary, so that rule fixtures are independent of /repo.
#pragma once
#include <algorithm>
#include <cassert>
#include <cmath>
#include <cstdint>
#include <cstring>
#include <initializer_list>
#include <memory>
#include <stdexcept>
#include <string>
#include <vector>

#define DSPLIB_THROW(MSG) throw std::runtime_error(std::string("dsplib: ") + MSG);
#define DSPLIB_ASSERT(condition, message)                                                                              \
    if (!(condition)) {                                                                                                \
        DSPLIB_THROW(message);                                                                                         \
    }
#define DSPLIB_ASSUME(cond)                                                                                            \
    assert(cond);                                                                                                      \
    __builtin_assume(cond)

namespace dsplib {

using real_t = double;

struct cmplx_t
{
    real_t re{0};
    real_t im{0};
};

template<typename T>
class base_array
{
public:
    base_array() = default;
    explicit base_array(int n)
      : _vec(n) {
    }
    base_array(const std::vector<T>& v)
      : _vec(v) {
    }
    base_array(const T* x, size_t n)
      : _vec(x, x + n) {
    }
    int size() const noexcept {
        return int(_vec.size());
    }
    T* data() noexcept {
        return _vec.data();
    }
    const T* data() const noexcept {
        return _vec.data();
    }
    T& operator[](int i) noexcept {
        return _vec[i];
    }
    const T& operator[](int i) const noexcept {
        return _vec[i];
    }
    std::vector<T> _vec;
};

using arr_real = base_array<real_t>;
using arr_cmplx = base_array<cmplx_t>;

class BaseFftPlanC
{
public:
    virtual ~BaseFftPlanC() = default;
    [[nodiscard]] virtual arr_cmplx solve(const arr_cmplx& x) const = 0;
    virtual void solve(const cmplx_t* x, cmplx_t* y, int n) const {
        const auto r = this->solve(arr_cmplx(x, n));
        std::memcpy(y, r.data(), n * sizeof(cmplx_t));
    }
    [[nodiscard]] virtual int size() const noexcept = 0;
};

class BaseFftPlanR
{
public:
    virtual ~BaseFftPlanR() = default;
    [[nodiscard]] virtual arr_cmplx solve(const arr_real& x) const = 0;
    [[nodiscard]] virtual int size() const noexcept = 0;
};

}   // namespace dsplib
