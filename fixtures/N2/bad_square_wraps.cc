// EXPECT: violated N2:dsplib::isprime
#include "mini.h"
namespace dsplib {
bool isprime(uint32_t n) noexcept {
    uint32_t d = 2;
    while (d * d <= n) {
        if (n % d == 0) {
            return false;
        }
        ++d;
    }
    return n >= 2;
}
}   // namespace dsplib
