// EXPECT: violated N2:dsplib::primes
#include "mini.h"
namespace dsplib {
std::vector<int> primes(uint32_t n) {
    std::vector<bool> composite(size_t(n) + 1, false);
    for (uint64_t p = 3; p * p < n; p += 2) {          // must be <=: for n = 9, 25, 49 ... n itself is never struck out
        if (!composite[p]) {
            for (uint64_t q = p * p; q <= n; q += 2 * p) {
                composite[q] = true;
            }
        }
    }
    std::vector<int> res;
    for (uint32_t i = 2; i <= n; ++i) {
        if ((i == 2 || (i & 1)) && !composite[i]) {
            res.push_back(int(i));
        }
    }
    return res;
}
}   // namespace dsplib
