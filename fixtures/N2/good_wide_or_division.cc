// EXPECT: clean N2:dsplib::isprime
// EXPECT: clean N2:dsplib::factor
#include "mini.h"
namespace dsplib {
bool isprime(uint32_t n) noexcept {
    uint32_t d = 2;
    while (uint64_t(d) * d <= n) {
        if (n % d == 0) {
            return false;
        }
        ++d;
    }
    return n >= 2;
}
int factor(uint32_t n) {
    int cnt = 0;
    for (uint32_t d = 2; d <= n / d; ++d) {     // division form cannot wrap
        while (n % d == 0) {
            n /= d;
            ++cnt;
        }
    }
    if (2 * cnt > 10) {                          // constant factor
        return cnt;
    }
    return cnt + 1;
}
}   // namespace dsplib
