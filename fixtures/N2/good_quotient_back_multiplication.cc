// EXPECT: clean N2:dsplib::isprime
// d <= n / d as the bound and (n / d) * d == n as the divisibility test: the product cannot exceed n
#include "mini.h"
#include <cstdint>
namespace dsplib {
bool isprime(uint32_t n) {
    if (n < 2) {
        return false;
    }
    for (uint32_t d = 2;; ++d) {
        const uint32_t q = n / d;
        if (q < d) {
            break;
        }
        if (q * d == n) {
            return false;
        }
    }
    return true;
}
}   // namespace dsplib
