// EXPECT: clean
#include "mini.h"
namespace dsplib {
arr_cmplx transform(const arr_cmplx& x);
class Chirp
{
public:
    // the padding is cleared in every call
    arr_cmplx solve(const cmplx_t* x) const {
        const int nfft = _nfft;
        arr_cmplx& work = _thread_work();
        if (work.size() != nfft) {
            work = arr_cmplx(nfft);
        }
        for (int i = 0; i < _n; ++i) {
            work[i] = x[i];
        }
        for (int i = _n; i < nfft; ++i) {
            work[i] = cmplx_t{};
        }
        return transform(work);
    }
    // the whole buffer is refilled
    arr_cmplx solve2(const cmplx_t* x) const {
        arr_cmplx& work = _thread_work();
        if (work.size() != _nfft) {
            work = arr_cmplx(_nfft);
        }
        const int n = work.size();
        for (int i = 0; i < n; ++i) {
            work[i] = x[i];
        }
        return transform(work);
    }
    // only the filled part is read
    cmplx_t solve3(const cmplx_t* x) const {
        arr_cmplx& work = _thread_work();
        if (work.size() < _n) {
            work = arr_cmplx(_n);
        }
        for (int i = 0; i < _n; ++i) {
            work[i] = x[i];
        }
        cmplx_t s;
        for (int i = 0; i < _n; ++i) {
            s.re += work[i].re;
        }
        return s;
    }

private:
    static arr_cmplx& _thread_work() {
        thread_local arr_cmplx buf;
        return buf;
    }
    int _n{3};
    int _nfft{8};
};
}   // namespace dsplib
