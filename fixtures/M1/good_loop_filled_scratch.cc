// EXPECT: clean
#include "mini.h"
namespace dsplib {
double weigh(const arr_real& x, const arr_real& w) {
    // per-thread work buffer, refilled element by element in every call
    thread_local arr_real tmp;
    const int n = x.size();
    if (tmp.size() < n) {
        tmp = arr_real(n);
    }
    for (int i = 0; i < n; ++i) {
        tmp[i] = x[i] * w[i];
    }
    double s = 0;
    for (int i = 0; i < n; ++i) {
        s += tmp[i];
    }
    return s;
}

double weigh2(const arr_real& x, const arr_real& w) {
    thread_local std::vector<double> tmp;
    tmp.clear();
    for (int i = 0; i < x.size(); ++i) {
        if (w[i] != 0) {
            tmp.push_back(x[i] * w[i]);
        }
    }
    double s = 0;
    for (double v : tmp) {
        s += v;
    }
    return s;
}
}   // namespace dsplib
