// EXPECT: clean
#include "mini.h"
namespace dsplib {
const std::vector<double>& coeffs_for(int n) {
    thread_local std::vector<double> res;
    thread_local int res_size{0};
    if (res_size == n) {
        return res;
    }
    res = std::vector<double>(n / 2);
    res_size = n;
    return res;
}

class Plan
{
public:
    // each plan owns a copy
    explicit Plan(int n)
      : _n{n}
      , _w{coeffs_for(n)} {
    }
    double first() const {
        const std::vector<double>& now = coeffs_for(_n);      // used at once, not kept
        return _w[0] + now[0];
    }

private:
    int _n;
    const std::vector<double> _w;
};
}   // namespace dsplib
