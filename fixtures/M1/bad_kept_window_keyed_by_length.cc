// EXPECT: violated M1:dsplib::analysis_window:win
#include "mini.h"
namespace dsplib {
arr_real make_window(int nw, int nfft);
// the kept window was computed from nw and nfft, only nfft decides whether it is computed again
const arr_real& analysis_window(int nw, int nfft) {
    thread_local arr_real win;
    if (win.size() != nfft) {
        win = make_window(nw, nfft);
    }
    return win;
}
}   // namespace dsplib
