// EXPECT: violated M1:dsplib::ref_ranks:ref_rank
#include "mini.h"
namespace dsplib {
std::vector<int> ranks_of(const arr_real& x);
// the same storage refilled with other values is answered with the ranks of the old values
const std::vector<int>& ref_ranks(const arr_real& x) {
    thread_local const double* ref_data = nullptr;
    thread_local int ref_size = 0;
    thread_local std::vector<int> ref_rank;
    if ((ref_data != x.data()) || (ref_size != x.size())) {
        ref_rank = ranks_of(x);
        ref_data = x.data();
        ref_size = x.size();
    }
    return ref_rank;
}
}   // namespace dsplib
