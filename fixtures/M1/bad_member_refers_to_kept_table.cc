// EXPECT: violated M1:dsplib::Plan:_w:escape
#include "mini.h"
namespace dsplib {
// the table of the most recently requested size, rebuilt in place when the size changes
const std::vector<double>& coeffs_for(int n) {
    thread_local std::vector<double> res;
    thread_local int res_size{0};
    if (res_size == n) {
        return res;
    }
    res = std::vector<double>(n / 2);
    res_size = n;
    return res;
}

class Plan
{
public:
    // the plan refers to the per-thread table: a second plan of another size replaces it under this one
    explicit Plan(int n)
      : _n{n}
      , _w{coeffs_for(n)} {
    }
    double first() const {
        return _w[0];
    }

private:
    int _n;
    const std::vector<double>& _w;
};
}   // namespace dsplib
