// EXPECT: clean
#include "mini.h"
#include <map>
namespace dsplib {
arr_real make_table(int n);
template<class Cache, class Make>
const arr_real& lookup_or_create(Cache& cache, int n, Make make) {
    auto it = cache.find(n);
    if (it == cache.end()) {
        it = cache.emplace(n, make(n)).first;
    }
    return it->second;
}
bool is_small(int n) {
    return n < 4;
}
// the kept map is handed to a helper that does the keyed look-up; the small-size test in front of it is not a key
arr_real table_for(int n) {
    if (is_small(n)) {
        return make_table(n);
    }
    thread_local std::map<int, arr_real> cache;
    return lookup_or_create(cache, n, make_table);
}
}   // namespace dsplib
