// EXPECT: clean
#include "mini.h"
namespace dsplib {
void kernel(const double* in, double* tmp, int n);
// the buffer grows under a condition on the length, its contents are rewritten by every call
arr_real transform(const arr_real& x, int n) {
    thread_local arr_real tmp;
    if (tmp.size() < n) {
        tmp = arr_real(n);
    }
    arr_real r(x);
    kernel(x.data(), tmp.data(), n);
    std::copy(tmp.data(), tmp.data() + n, r.data());
    return r;
}
}   // namespace dsplib
