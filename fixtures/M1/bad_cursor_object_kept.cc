// EXPECT: violated M1:dsplib::next_above:gen:carried-state
#include "mini.h"
namespace dsplib {
class Generator
{
public:
    Generator() {
        _table.push_back(2);
        _table.push_back(3);
    }
    unsigned next() {
        if (_pos + 1 == _table.size()) {
            _table.push_back(_table.back() + 2);
        }
        ++_pos;
        return current();
    }
    unsigned advance_to(unsigned n) {
        while (current() < n) {
            next();
        }
        return current();
    }
    unsigned current() const {
        return _table[_pos];
    }

private:
    unsigned _pos{0};
    std::vector<unsigned> _table;
};

// the generator keeps its cursor: a later call with a smaller argument starts from where the earlier one stopped
unsigned next_above(unsigned n) {
    thread_local Generator gen;
    return gen.advance_to(n);
}
}   // namespace dsplib
