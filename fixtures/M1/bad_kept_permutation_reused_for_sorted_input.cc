// EXPECT: violated M1:dsplib::sort_index:index
#include "mini.h"
#include <numeric>
namespace dsplib {
bool is_sorted_up(const arr_real& x);
// the index buffer is kept per length; the slow path leaves the previous permutation in it, the fast path hands it out as
// if it were still the identity: whether it is recomputed is decided by looking at the argument alone
const std::vector<int>& sort_index(const arr_real& x) {
    const int n = x.size();
    static thread_local std::vector<int> index;
    if (int(index.size()) != n) {
        index = std::vector<int>(n);
        std::iota(index.begin(), index.end(), 0);
    }
    if (is_sorted_up(x)) {
        return index;
    }
    std::sort(index.begin(), index.end(), [&x](int i, int j) {
        return x[i] < x[j];
    });
    return index;
}
}   // namespace dsplib
