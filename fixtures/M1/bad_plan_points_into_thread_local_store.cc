// EXPECT: violated M1:dsplib::Plan:w_:escape
#include "mini.h"
#include <unordered_map>
namespace dsplib {
std::vector<double> make_table(int n);
// one table per length for all plans of the calling thread
const std::vector<double>& twiddle_table(int n) {
    thread_local std::unordered_map<int, std::vector<double>> tables;
    auto it = tables.find(n);
    if (it == tables.end()) {
        it = tables.emplace(n, make_table(n)).first;
    }
    return it->second;
}
// a plan can be handed to another thread; the table it points to dies with the thread that built the plan
class Plan
{
public:
    explicit Plan(int n)
      : w_{twiddle_table(n).data()} {
    }
    double first() const {
        return w_[0];
    }

private:
    const double* const w_;
};
}   // namespace dsplib
