// EXPECT: violated M1:dsplib::Chirp::solve:buf:partial-refill
#include "mini.h"
namespace dsplib {
arr_cmplx transform(const arr_cmplx& x);
class Chirp
{
public:
    // the zero-padded work array is kept per thread; only the first _n entries are rewritten, the padding keeps what an
    // earlier, longer input left there
    arr_cmplx solve(const cmplx_t* x) const {
        const int nfft = _nfft;
        arr_cmplx& work = _thread_work();
        if (work.size() != nfft) {
            work = arr_cmplx(nfft);
        }
        for (int i = 0; i < _n; ++i) {
            work[i] = x[i];
        }
        return transform(work);
    }

private:
    static arr_cmplx& _thread_work() {
        thread_local arr_cmplx buf;
        return buf;
    }
    int _n{3};
    int _nfft{8};
};
}   // namespace dsplib
