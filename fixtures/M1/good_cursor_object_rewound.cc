// EXPECT: clean
#include "mini.h"
namespace dsplib {
class Generator
{
public:
    Generator() {
        _table.push_back(2);
        _table.push_back(3);
    }
    void rewind() {
        _pos = 0;
    }
    unsigned next() {
        if (_pos + 1 == _table.size()) {
            _table.push_back(_table.back() + 2);
        }
        ++_pos;
        return current();
    }
    unsigned advance_to(unsigned n) {
        while (current() < n) {
            next();
        }
        return current();
    }
    unsigned current() const {
        return _table[_pos];
    }

private:
    unsigned _pos{0};
    std::vector<unsigned> _table;
};

// the table is kept, the cursor starts from the beginning in every call
unsigned next_above(unsigned n) {
    thread_local Generator gen;
    gen.rewind();
    return gen.advance_to(n);
}

// a fresh object per call
unsigned next_above2(unsigned n) {
    Generator gen;
    return gen.advance_to(n);
}

// the kept object is replaced before it is used
unsigned next_above3(unsigned n) {
    thread_local Generator gen;
    gen = Generator();
    return gen.advance_to(n);
}
}   // namespace dsplib
