// EXPECT: clean
#include "mini.h"
namespace dsplib {
arr_real make_window(int nw, int nfft);
arr_real accumulate(const arr_real& w, int hop, int nseg);
bool same_contents(const arr_real& a, const arr_real& b);

// both arguments are part of the key
const arr_real& analysis_window(int nw, int nfft) {
    thread_local arr_real win;
    thread_local int last_nw = -1;
    if (win.size() != nfft || last_nw != nw) {
        win = make_window(nw, nfft);
        last_nw = nw;
    }
    return win;
}

// the contents of the window are compared
const arr_real& ola_weight(const arr_real& win, int hop, int nseg) {
    struct Weight
    {
        arr_real win;
        int hop{0};
        int nseg{0};
        arr_real val;
    };
    thread_local Weight last;
    if (same_contents(last.win, win) && last.hop == hop && last.nseg == nseg) {
        return last.val;
    }
    last = Weight{win, hop, nseg, accumulate(win, hop, nseg)};
    return last.val;
}

// scratch storage rewritten by every call: nothing is kept
const arr_real& scratch(const arr_real& x, int hop) {
    thread_local arr_real buf;
    buf = accumulate(x, hop, 1);
    return buf;
}

// only the capacity is kept: the value depends on the length alone
const arr_real& zero_line(int n) {
    thread_local arr_real z;
    if (z.size() != n) {
        z = arr_real(n);
    }
    return z;
}
}   // namespace dsplib
