// EXPECT: violated M1:dsplib::ola_weight:last
#include "mini.h"
namespace dsplib {
arr_real accumulate(const arr_real& w, int hop, int nseg);
// the kept weight was computed from the contents of win, the key holds its length only
const arr_real& ola_weight(const arr_real& win, int hop, int nseg) {
    struct Weight
    {
        int nwin{0};
        int hop{0};
        int nseg{0};
        arr_real val;
    };
    thread_local Weight last;
    const int nwin = win.size();
    const bool same = (last.nwin == nwin) && (last.hop == hop) && (last.nseg == nseg);
    if (same && last.val.size() != 0) {
        return last.val;
    }
    auto val = accumulate(win, hop, nseg);
    last = Weight{nwin, hop, nseg, val};
    return last.val;
}
}   // namespace dsplib
