// EXPECT: violated T2:dsplib::operator-
// copied from the commutative helper: scalar - array delegates to array - scalar
#include "mini.h"
#include <complex>
namespace dsplib {
inline base_array<cmplx_t> operator-(const base_array<cmplx_t>& lhs, const cmplx_t& rhs) {
    base_array<cmplx_t> r(lhs.size());
    for (int i = 0; i < lhs.size(); ++i) {
        r[i].re = lhs[i].re - rhs.re;
        r[i].im = lhs[i].im - rhs.im;
    }
    return r;
}
inline base_array<cmplx_t> operator-(const std::complex<double>& lhs, const base_array<cmplx_t>& rhs) {
    return rhs - cmplx_t{lhs.real(), lhs.imag()};
}
}   // namespace dsplib
