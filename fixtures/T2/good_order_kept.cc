// EXPECT: clean T2:dsplib::operator-
#include "mini.h"
#include <complex>
namespace dsplib {
inline base_array<cmplx_t> operator-(const std::complex<double>& lhs, const base_array<cmplx_t>& rhs) {
    base_array<cmplx_t> r(rhs.size());
    for (int i = 0; i < rhs.size(); ++i) {
        r[i].re = lhs.real() - rhs[i].re;
        r[i].im = lhs.imag() - rhs[i].im;
    }
    return r;
}
}   // namespace dsplib
