// EXPECT: violated H1:dsplib::Ring::process(constdsplib::base_array<double>&):_i
#include "mini.h"
namespace dsplib {
class Ring
{
public:
    arr_real process(const arr_real& x) {
        const int nx = x.size();
        const int n = _d.size();
        arr_real y(nx);
        for (int i = 0; i < nx; ++i) {
            const int k = (_i + 1 + i) % n;
            y[i] = _d[k];
            _d[k] = x[i];
        }
        _i = nx % n;              // should be (_i + nx) % n: right only while _i was 0
        return y;
    }
    arr_real _d;
    int _i{0};
};
}   // namespace dsplib
