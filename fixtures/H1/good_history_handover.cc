// EXPECT: clean H1:dsplib::Interp::process(constdsplib::base_array<double>&):d_
// EXPECT: clean H1:dsplib::Ring::process(constdsplib::base_array<double>&):output
#include "mini.h"
namespace dsplib {
class Interp
{
public:
    arr_real process(const arr_real& in) {
        const int nx = in.size();
        const int nd = d_.size();
        arr_real px(nd + nx);
        std::memcpy(px.data(), d_.data(), nd * sizeof(real_t));
        std::memcpy(px.data() + nd, in.data(), nx * sizeof(real_t));
        std::memcpy(d_.data(), px.data() + nx, nd * sizeof(real_t));            // tail of history|frame
        arr_real y(nx);
        const real_t* p = px.data();
        for (int i = 0; i < nx; ++i, ++p) {
            y[i] = p[0] + p[nd];
        }
        return y;
    }
    arr_real d_;
};
class Ring
{
public:
    arr_real process(const arr_real& x) {
        arr_real y(x.size());
        for (int i = 0; i < x.size(); ++i) {
            _i = (_i + 1) % _d.size();
            _d[_i] = x[i];                                   // element write into a ring buffer
            y[i] = _d[_i] - _d[(_i + 1) % _d.size()];        // flows through the member
        }
        return y;
    }
    arr_real _d;
    int _i{0};
};
}   // namespace dsplib
