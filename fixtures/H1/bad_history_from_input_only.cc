// EXPECT: violated H1:dsplib::Interp::process(constdsplib::base_array<double>&):d_
// EXPECT: violated H1:dsplib::Stateless::process(constdsplib::base_array<double>&):output
#include "mini.h"
namespace dsplib {
class Interp
{
public:
    arr_real process(const arr_real& in) {
        const int nx = in.size();
        const int nd = d_.size();
        arr_real px(nd + nx);
        std::memcpy(px.data(), d_.data(), nd * sizeof(real_t));
        std::memcpy(px.data() + nd, in.data(), nx * sizeof(real_t));
        std::memcpy(d_.data(), in.data() + (nx - nd), nd * sizeof(real_t));     // history rebuilt from the frame alone
        arr_real y(nx);
        for (int i = 0; i < nx; ++i) {
            y[i] = px[i] + px[i + nd];
        }
        return y;
    }
    arr_real d_;
};
class Stateless
{
public:
    arr_real process(const arr_real& in) {
        const int nx = in.size();
        arr_real y(nx);
        for (int i = 0; i < nx; ++i) {
            y[i] = in[i] * 0.5;                    // the carried history is maintained but never used
        }
        for (int i = 0; i < d_.size() && i < nx; ++i) {
            d_[i] = in[nx - 1 - i];
        }
        return y;
    }
    arr_real d_;
};
}   // namespace dsplib
