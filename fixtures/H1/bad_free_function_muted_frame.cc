// EXPECT: violated H1:dsplib::_process
// a frame of zeros returns before the power window and the gain integrator have seen it
#include "mini.h"
namespace dsplib {
struct AgcImpl
{
    real_t gain{1.0};
    real_t level{0};
};
arr_real _process(AgcImpl& agc, const arr_real& x) {
    const int nx = x.size();
    arr_real out(nx);
    bool muted = true;
    for (int i = 0; i < nx; ++i) {
        muted = muted && !(x[i] * x[i] > 0);
    }
    if (muted) {
        return out;
    }
    for (int i = 0; i < nx; ++i) {
        agc.level = 0.9 * agc.level + 0.1 * x[i] * x[i];
        agc.gain += 0.01 * (1 - agc.level);
        out[i] = x[i] * agc.gain;
    }
    return out;
}
}   // namespace dsplib
