// EXPECT: violated H1:dsplib::Line::process
// short frames use the line as a ring; the bulk path refills it in time order and leaves the ring position where it was
#include "mini.h"
#include <algorithm>
namespace dsplib {
class Line
{
public:
    explicit Line(int n)
      : _buffer(n) {
    }
    std::vector<real_t> process(const std::vector<real_t>& x) {
        const int nd = _buffer.size();
        const int nx = x.size();
        std::vector<real_t> r(nx);
        if (nx < nd) {
            for (int i = 0; i < nx; ++i) {
                r[i] = _buffer[_pos];
                _buffer[_pos] = x[i];
                _pos = (_pos + 1 < nd) ? (_pos + 1) : 0;
            }
            return r;
        }
        std::copy(_buffer.begin(), _buffer.end(), r.begin());
        std::copy(x.begin(), x.begin() + (nx - nd), r.begin() + nd);
        std::copy(x.begin() + (nx - nd), x.end(), _buffer.begin());
        return r;
    }

private:
    std::vector<real_t> _buffer;
    int _pos{0};
};
}   // namespace dsplib
