// EXPECT: clean
// an empty frame carries no samples: returning early skips nothing
#include "mini.h"
namespace dsplib {
struct AgcImpl
{
    real_t gain{1.0};
    real_t level{0};
};
arr_real _process(AgcImpl& agc, const arr_real& x) {
    const int nx = x.size();
    arr_real out(nx);
    if (nx == 0) {
        return out;
    }
    for (int i = 0; i < nx; ++i) {
        agc.level = 0.9 * agc.level + 0.1 * x[i] * x[i];
        agc.gain += 0.01 * (1 - agc.level);
        out[i] = x[i] * agc.gain;
        if (x[i] > 100) {
            return out;          // gives up on an overload, but only after the state has seen the sample
        }
    }
    return out;
}
}   // namespace dsplib
