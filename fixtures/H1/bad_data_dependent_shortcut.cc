// EXPECT: violated H1:dsplib::Limiter::process(constdsplib::base_array<double>&):shortcut
#include "mini.h"
namespace dsplib {
class Limiter
{
public:
    arr_real process(const arr_real& x) {
        const int n = x.size();
        arr_real out(n);
        real_t peak = 0;
        for (int i = 0; i < n; ++i) {
            peak = std::max(peak, std::abs(x[i]));
        }
        if ((n > 0) && (peak < xmin_)) {
            return x;                       // quiet frame passed through: gs_ keeps its old value, release is cut short
        }
        for (int i = 0; i < n; ++i) {
            const real_t gc = (std::abs(x[i]) > xmin_) ? xmin_ / std::abs(x[i]) : 1;
            gs_ = 0.9 * gs_ + 0.1 * gc;
            out[i] = x[i] * gs_;
        }
        return out;
    }
    real_t xmin_{0.5};
    real_t gs_{1};
};
}   // namespace dsplib
