// EXPECT: clean H1:dsplib::Limiter::process(constdsplib::base_array<double>&):output
#include "mini.h"
namespace dsplib {
class Limiter
{
public:
    arr_real process(const arr_real& x) {
        const int n = x.size();
        if (n == 0) {
            return x;                       // nothing to process: a shape condition, not a data condition
        }
        arr_real out(n);
        for (int i = 0; i < n; ++i) {
            const real_t gc = (std::abs(x[i]) > xmin_) ? xmin_ / std::abs(x[i]) : 1;
            if (gc <= gs_) {
                gs_ = 0.5 * gs_ + 0.5 * gc;
            } else {
                gs_ = 0.9 * gs_ + 0.1 * gc;
            }
            out[i] = x[i] * gs_;
        }
        return out;
    }
    real_t xmin_{0.5};
    real_t gs_{1};
};
}   // namespace dsplib
