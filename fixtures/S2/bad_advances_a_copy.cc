// EXPECT: violated S2:dsplib::_process
// `auto` where `auto&` was needed: the averaging filter is advanced on a copy that dies with the call
#include "mini.h"
namespace dsplib {
class MAFilter
{
public:
    real_t operator()(real_t x) {
        _acc += x - _last;
        _last = x;
        return _acc;
    }

private:
    real_t _acc{0};
    real_t _last{0};
};
struct AgcImpl
{
    real_t gain{1.0};
    MAFilter maflt;
};
arr_real _process(AgcImpl& agc, const arr_real& x) {
    const int nx = x.size();
    arr_real out(nx);
    auto maflt = agc.maflt;
    for (int i = 0; i < nx; ++i) {
        out[i] = maflt(x[i] * x[i]) * agc.gain;
    }
    return out;
}
}   // namespace dsplib
