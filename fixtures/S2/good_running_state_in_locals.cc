// EXPECT: clean
#include "mini.h"
namespace dsplib {
class Gate
{
public:
    explicit Gate(int limit)
      : limit_{limit} {
    }
    arr_real process(const arr_real& x) {
        arr_real r(x.size());
        double lg = lg_;
        int hold = cnt_;
        int budget = limit_;          // a working copy of a setting, used up locally
        for (int i = 0; i < x.size(); ++i) {
            lg = smooth(x[i], lg, hold);
            r[i] = lg;
            if (budget > 0) {
                --budget;
            }
        }
        lg_ = lg;
        cnt_ = hold;
        return r;
    }

private:
    double smooth(double v, double lg, int& hold) const {
        if (v < lg) {
            hold += 1;
            return lg;
        }
        hold = 0;
        return v;
    }
    int limit_;
    int cnt_{0};
    double lg_{0};
};
}   // namespace dsplib
