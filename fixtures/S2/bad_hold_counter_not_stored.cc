// EXPECT: violated S2c:dsplib::Gate::process
#include "mini.h"
namespace dsplib {
class Gate
{
public:
    arr_real process(const arr_real& x) {
        arr_real r(x.size());
        // running state in locals; only one of the two is stored back
        double lg = lg_;
        int hold = cnt_;
        for (int i = 0; i < x.size(); ++i) {
            lg = smooth(x[i], lg, hold);
            r[i] = lg;
        }
        lg_ = lg;
        return r;
    }

private:
    double smooth(double v, double lg, int& hold) const {
        if (v < lg) {
            if (hold < limit_) {
                hold += 1;
                return lg;
            }
            return 0.5 * (lg + v);
        }
        hold = 0;
        return v;
    }
    const int limit_{4};
    int cnt_{0};
    double lg_{0};
};
}   // namespace dsplib
