// EXPECT: violated K1:extra-plan-cache
// EXPECT: violated K1:recency:dsplib::LRUCache<int, std::shared_ptr<dsplib::BaseFftPlanC>>::find
#include "mini.h"
#include <list>
#include <unordered_map>
namespace dsplib {
class FftPlan : public BaseFftPlanC
{
public:
    explicit FftPlan(int n);
    arr_cmplx solve(const arr_cmplx& x) const final;
    int size() const noexcept final;
};
template<typename Key, typename Value>
class LRUCache
{
public:
    using KeyValue_t = std::pair<Key, Value>;
    explicit LRUCache(size_t max_size)
      : max_size_(max_size) {
    }
    void put(const Key& key, const Value& value);
    const Value& get(const Key& key) {
        auto it = items_map_.find(key);
        items_list_.splice(items_list_.begin(), items_list_, it->second);
        return it->second->second;
    }
    const Value* find(const Key& key) const {                  // no recency refresh: the LRU degrades to FIFO
        auto it = items_map_.find(key);
        return it == items_map_.end() ? nullptr : &it->second->second;
    }

private:
    std::list<KeyValue_t> items_list_;
    std::unordered_map<Key, typename std::list<KeyValue_t>::iterator> items_map_;
    size_t max_size_;
};
template class LRUCache<int, std::shared_ptr<BaseFftPlanC>>;
std::shared_ptr<BaseFftPlanC> cached_plan(LRUCache<int, std::shared_ptr<BaseFftPlanC>>& cache, int n) {
    const auto* hit = cache.find(n);                           // the factory looks plans up through it
    return (hit != nullptr) ? *hit : nullptr;
}
std::shared_ptr<FftPlan> forward_plan(int n) {
    thread_local int last_n = 0;
    thread_local std::shared_ptr<FftPlan> last_plan;            // a private one-entry plan cache
    if (n != last_n) {
        last_n = n;
        last_plan = std::make_shared<FftPlan>(n);
    }
    return last_plan;
}
}   // namespace dsplib
