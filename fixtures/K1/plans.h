#pragma once
#include "mini.h"
#include <list>
#include <unordered_map>
namespace dsplib {
template<typename Key, typename Value>
class LRUCache
{
public:
    explicit LRUCache(size_t max_size)
      : max_size_(max_size) {
    }
    void put(const Key& key, const Value& value);
    const Value& get(const Key& key);
    bool exists(const Key& key) const;

private:
    std::list<std::pair<Key, Value>> items_list_;
    std::unordered_map<Key, typename std::list<std::pair<Key, Value>>::iterator> items_map_;
    size_t max_size_;
};
class SmallPlan : public BaseFftPlanC
{
public:
    explicit SmallPlan(int n);
    arr_cmplx solve(const arr_cmplx& x) const final;
    int size() const noexcept final;
};
std::shared_ptr<BaseFftPlanC> _get_fft_plan(int n);
}   // namespace dsplib
