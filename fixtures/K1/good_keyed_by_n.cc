// EXPECT: clean K1:dsplib::create_fft_plan:cache-key
// EXPECT: clean K1:dsplib::create_fft_plan:put-value
#include "plans.h"
namespace dsplib {
std::shared_ptr<BaseFftPlanC> create_fft_plan(int n) {
    if (n <= 8) {
        return std::make_shared<SmallPlan>(n);
    }
    thread_local LRUCache<int, std::shared_ptr<BaseFftPlanC>> cache{4};
    if (cache.exists(n)) {
        return cache.get(n);
    }
    const auto plan = _get_fft_plan(n);
    cache.put(n, plan);
    return plan;
}
class Holder
{
public:
    explicit Holder(int n)
      : _d{create_fft_plan(n)} {
    }
    std::shared_ptr<BaseFftPlanC> _d;
};
}   // namespace dsplib
