// EXPECT: violated K1:dsplib::create_fft_plan:cache-key
// EXPECT: violated K1:holder:dsplib::Holder::_raw
#include "plans.h"
namespace dsplib {
std::shared_ptr<BaseFftPlanC> create_fft_plan(int n) {
    thread_local LRUCache<int, std::shared_ptr<BaseFftPlanC>> cache{4};
    const int bucket = n & ~1;                 // "share" plans between neighbouring lengths
    if (!cache.exists(bucket)) {
        auto plan = _get_fft_plan(n);
        cache.put(bucket, plan);
        return plan;
    }
    return cache.get(bucket);                  // a plan built for another length
}
class Holder
{
public:
    explicit Holder(int n)
      : _raw{create_fft_plan(n).get()} {       // the cache may evict and destroy it
    }
    const BaseFftPlanC* _raw;
};
}   // namespace dsplib
