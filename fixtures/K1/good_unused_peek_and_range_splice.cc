// EXPECT: clean K1:recency:dsplib::LRUCache<int, std::shared_ptr<dsplib::BaseFftPlanC>>::get
// an accessor nobody calls and a diagnostic tag do not change which plans are kept; the hit is moved with the range form of
// splice over exactly one node
#include "mini.h"
#include <iterator>
#include <list>
#include <unordered_map>
namespace dsplib {
template<typename Key, typename Value>
class LRUCache
{
public:
    using KeyValue_t = std::pair<Key, Value>;
    using ListIterator_t = typename std::list<KeyValue_t>::iterator;
    explicit LRUCache(size_t max_size, const char* tag = nullptr)
      : max_size_(max_size)
      , tag_(tag) {
    }
    void put(const Key& key, const Value& value);
    const Value& get(const Key& key) {
        const auto it = items_map_.find(key);
        const ListIterator_t hit = it->second;
        if (hit != items_list_.begin()) {
            items_list_.splice(items_list_.begin(), items_list_, hit, std::next(hit));
        }
        return hit->second;
    }
    Value peek(const Key& key) const {
        const auto it = items_map_.find(key);
        return it->second->second;
    }
    const char* tag() const noexcept {
        return tag_;
    }

private:
    std::list<KeyValue_t> items_list_;
    std::unordered_map<Key, ListIterator_t> items_map_;
    size_t max_size_;
    const char* tag_;
};
template class LRUCache<int, std::shared_ptr<BaseFftPlanC>>;
std::shared_ptr<BaseFftPlanC> cached_plan(LRUCache<int, std::shared_ptr<BaseFftPlanC>>& cache, int n) {
    return cache.get(n);
}
}   // namespace dsplib
