// EXPECT: violated K1:recency
// a hit splices [pos, end) to the front: every entry older than the one found jumps ahead of more recent ones
#include "../K2/lru.h"
namespace dsplib {
template<typename Key, typename Value>
class LRUCache
{
public:
    using KeyValue_t = std::pair<Key, Value>;
    using ListIterator_t = typename std::list<KeyValue_t>::iterator;
    explicit LRUCache(size_t max_size)
      : max_size_(max_size) {
    }
    void put(const Key& key, const Value& value) {
        items_list_.push_front(KeyValue_t(key, value));
        items_map_[key] = items_list_.begin();
        if (items_map_.size() > max_size_) {
            items_map_.erase(items_list_.back().first);
            items_list_.pop_back();
        }
    }
    const Value& get(const Key& key) {
        auto it = items_map_.find(key);
        if (it == items_map_.end()) {
            throw std::range_error("There is no such key in cache");
        }
        auto pos = it->second;
        items_list_.splice(items_list_.begin(), items_list_, pos, items_list_.end());
        return pos->second;
    }

private:
    std::list<KeyValue_t> items_list_;
    std::unordered_map<Key, ListIterator_t> items_map_;
    size_t max_size_;
};
int use() {
    thread_local LRUCache<int, int> cache{4};
    cache.put(1, 2);
    return cache.get(1);
}
}   // namespace dsplib
