// EXPECT: violated K1:cache-ref-escape:dsplib::coeffs_for
// EXPECT: violated K1:cache-api:dsplib::LRUCache<int, std::vector<double>>::slot
#include "mini.h"
#include <list>
#include <unordered_map>
namespace dsplib {
template<typename Key, typename Value>
class LRUCache
{
public:
    explicit LRUCache(size_t max_size)
      : max_size_(max_size) {
    }
    void put(const Key& key, const Value& value);
    const Value& get(const Key& key);
    Value& slot(const Key& key);              // mutable access to a slot
    bool exists(const Key& key) const;

private:
    std::list<std::pair<Key, Value>> items_list_;
    std::unordered_map<Key, typename std::list<std::pair<Key, Value>>::iterator> items_map_;
    size_t max_size_;
};
std::vector<double> make_table(int n);
const std::vector<double>& coeffs_for(int n) {
    thread_local LRUCache<int, std::vector<double>> cache{4};
    if (!cache.exists(n)) {
        cache.put(n, make_table(n));
    }
    return cache.get(n);                       // dangles once four other lengths have been used
}
}   // namespace dsplib
