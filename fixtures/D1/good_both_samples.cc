// EXPECT: clean D1:dsplib::_kendall_corr
// EXPECT: clean D1:dsplib::corr
#include "mini.h"
namespace dsplib {
arr_real reorder(const arr_real& v, const std::vector<int>& idx);
std::vector<int> argsort(const arr_real& v);
real_t _kendall_corr(const arr_real& x, const arr_real& y) noexcept {
    const int n = x.size();
    const auto x_idx = argsort(x);
    const auto ybyx = reorder(y, x_idx);
    int n_c = 0;
    int n_d = 0;
    for (int i = 0; i < (n - 1); ++i) {
        for (int k = (i + 1); k < n; ++k) {
            (ybyx[i] < ybyx[k]) ? ++n_c : ++n_d;     // dependence through control flow of a conditional expression
        }
    }
    return real_t(n_c - n_d) / (n_c + n_d);
}
real_t corr(const arr_real& x, const arr_real& y, int type) {
    DSPLIB_ASSERT(x.size() == y.size(), "size");
    switch (type) {
    case 2:
        return _kendall_corr(x, y);
    default:
        return 0;
    }
}
}   // namespace dsplib
