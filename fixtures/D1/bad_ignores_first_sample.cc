// EXPECT: violated D1:dsplib::_kendall_corr
#include "mini.h"
namespace dsplib {
arr_real reorder(const arr_real& v, const std::vector<int>& idx);
std::vector<int> argsort(const arr_real& v);
real_t _kendall_corr(const arr_real& x, const arr_real& y) noexcept {
    const int n = x.size();
    const auto x_idx = argsort(x);
    const auto ybyx = reorder(y, x_idx);      // computed, never read
    int n_c = 0;
    int n_d = 0;
    for (int i = 0; i < (n - 1); ++i) {
        for (int k = (i + 1); k < n; ++k) {
            if (y[i] < y[k]) {
                ++n_c;
            } else {
                ++n_d;
            }
        }
    }
    return real_t(n_c - n_d) / (n_c + n_d);
}
}   // namespace dsplib
