// EXPECT: clean D1:dsplib::_kendall_corr
#include "mini.h"
#include <cstdint>
namespace dsplib {
std::vector<int> argsort(const arr_real& v);
std::int64_t count_ascending(const std::vector<real_t>& v);
// the second sample is gathered through std::transform: the destination is the argument in front of the callable
real_t _kendall_corr(const arr_real& x, const arr_real& y) noexcept {
    const int n = x.size();
    const auto x_idx = argsort(x);
    std::vector<real_t> ybyx(n);
    std::transform(x_idx.begin(), x_idx.end(), ybyx.begin(), [&y](int k) {
        return y[k];
    });
    const std::int64_t n_pairs = (std::int64_t(n) * (n - 1)) / 2;
    const std::int64_t n_c = count_ascending(ybyx);
    const std::int64_t n_d = n_pairs - n_c;
    return real_t(n_c - n_d) / real_t(n_c + n_d);
}
}   // namespace dsplib
