// EXPECT: clean E2:all
#include "mini.h"
namespace dsplib {
void check_len(const arr_real& win, int n) {
    if (win.size() != (n + 1)) {
        DSPLIB_THROW("Window must be n+1 elements");
    }
    DSPLIB_ASSERT(n > 0, "order must be positive");
    for (int i = 0; i < n; ++i) {
        if (win[i] < 0) {
            DSPLIB_THROW("negative weight");
        }
    }
}
}   // namespace dsplib
