// EXPECT: violated E2:dsplib::check_len
#include "mini.h"
namespace dsplib {
void check_len(const arr_real& win, int n) {
    if (win.size() != (n + 1)) DSPLIB_THROW("Window must be n+1 elements")
}
}   // namespace dsplib
