// EXPECT: violated G5b:dsplib::base_array<double>::slice
#include <vector>
namespace dsplib {
template<typename T>
class base_array;
template<typename T>
class slice_t
{
public:
    slice_t(base_array<T>& arr, int i1, int i2, int m)
      : _i1(i1)
      , _i2(i2)
      , _m(m)
      , _base(arr) {
    }
    int _i1, _i2, _m;
    base_array<T>& _base;
};
template<typename T>
class base_array
{
public:
    int size() const {
        return int(_vec.size());
    }
    slice_t<T> slice(int i1, int i2, int m = 1) {
        return slice_t<T>(*this, _pos(i1), _pos(i2), m);       // resolved here, and again by the checking constructor
    }

protected:
    int _pos(int i) const noexcept {
        return (i >= 0) ? (i) : (int(_vec.size()) + i);
    }
    std::vector<T> _vec;
};
template class base_array<double>;
}   // namespace dsplib
