// EXPECT: violated G5b:dsplib::base_array<double>::slice(int,dsplib::end_t,int):const
#include <vector>
namespace dsplib {
struct end_t
{
};
template<typename T>
class base_array;
template<typename T>
class const_slice_t
{
public:
    const_slice_t(const base_array<T>& arr, int i1, int i2, int m)
      : _i1(i1)
      , _i2(i2)
      , _m(m)
      , _base(arr) {
    }
    int _i1, _i2, _m;
    const base_array<T>& _base;
};
template<typename T>
class base_array
{
public:
    int size() const {
        return int(_vec.size());
    }
    const_slice_t<T> slice(int i1, int i2, int m = 1) const {
        return const_slice_t<T>(*this, i1, i2, m);
    }
    // the step is not handed on: the default 1 of the other overload takes its place
    const_slice_t<T> slice(int i1, end_t, int m = 1) const {
        return slice(i1, size());
    }

protected:
    std::vector<T> _vec;
};
template class base_array<double>;
}   // namespace dsplib
