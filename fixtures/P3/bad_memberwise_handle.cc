// EXPECT: violated P3:dsplib::Gain::_d
#include "mini.h"
namespace dsplib {
struct GainImpl
{
    real_t gain{1.0};
};
static real_t _step(GainImpl& g, real_t x) {
    g.gain += 0.01 * (1 - x * g.gain);
    return x * g.gain;
}
class Gain
{
public:
    Gain()
      : _d{std::make_shared<GainImpl>()} {
    }
    real_t process(real_t x) {
        return _step(*_d, x);
    }

private:
    std::shared_ptr<GainImpl> _d;
};
}   // namespace dsplib
