// EXPECT: violated P3:dsplib::Detector::_d
// the copy constructor is deleted, the copy assignment is still generated and copies the pointer
#include "mini.h"
namespace dsplib {
class DetectorImpl
{
public:
    int process(int x) {
        _acc += x;
        return _acc;
    }

private:
    int _acc{0};
};
class Detector
{
public:
    Detector()
      : _d{std::make_shared<DetectorImpl>()} {
    }
    Detector(const Detector&) = delete;
    int process(int x) {
        return _d->process(x);
    }

private:
    std::shared_ptr<DetectorImpl> _d;
};
}   // namespace dsplib
