// EXPECT: clean P3:dsplib::Gain::_d
// EXPECT: clean P3:dsplib::Plan::_d
// EXPECT: clean P3:dsplib::Once::_d
#include "mini.h"
namespace dsplib {
struct GainImpl
{
    real_t gain{1.0};
};
class Gain      // clones its state
{
public:
    Gain()
      : _d{std::make_shared<GainImpl>()} {
    }
    Gain(const Gain& rhs)
      : _d{rhs._d ? std::make_shared<GainImpl>(*rhs._d) : nullptr} {
    }
    Gain& operator=(const Gain& rhs) {
        if (this != &rhs) {
            _d = rhs._d ? std::make_shared<GainImpl>(*rhs._d) : nullptr;
        }
        return *this;
    }
    real_t process(real_t x) {
        _d->gain += 0.01 * (1 - x * _d->gain);
        return x * _d->gain;
    }

private:
    std::shared_ptr<GainImpl> _d;
};
class PlanImpl
{
public:
    int solve(int x) const {
        return 2 * x;
    }
};
class Plan      // shares an immutable plan: only const operations through the pointer; re-seating the pointer is no sharing
{
public:
    Plan()
      : _d{std::make_shared<PlanImpl>()} {
    }
    int solve(int x) const {
        return _d->solve(x);
    }
    void rebuild() {
        _d = std::make_shared<PlanImpl>();
        _d.reset(new PlanImpl());
    }

private:
    std::shared_ptr<PlanImpl> _d;
};
class Once      // not copyable at all
{
public:
    Once()
      : _d{std::make_shared<GainImpl>()} {
    }
    Once(const Once&) = delete;
    Once& operator=(const Once&) = delete;
    void bump() {
        _d->gain += 1;
    }

private:
    std::shared_ptr<GainImpl> _d;
};
}   // namespace dsplib
