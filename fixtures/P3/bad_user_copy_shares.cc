// EXPECT: violated P3:dsplib::Gain::_d
// a user-provided copy constructor that still hands the pointer to the copy
#include "mini.h"
namespace dsplib {
struct GainImpl
{
    real_t gain{1.0};
};
class Gain
{
public:
    Gain()
      : _d{std::make_shared<GainImpl>()} {
    }
    Gain(const Gain& rhs)
      : _d{rhs._d} {
    }
    Gain& operator=(const Gain& rhs) {
        _d = std::make_shared<GainImpl>(*rhs._d);
        return *this;
    }
    real_t process(real_t x) {
        _d->gain += 0.01 * (1 - x * _d->gain);
        return x * _d->gain;
    }

private:
    std::shared_ptr<GainImpl> _d;
};
}   // namespace dsplib
