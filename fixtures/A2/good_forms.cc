// EXPECT: clean A2:dsplib::ispow2
// EXPECT: clean A2:dsplib::isprime
#include "mini.h"
#include <cstdint>
namespace dsplib {
bool ispow2(int m) {
    if (m < 1) {
        return false;
    }
    return (m & (m - 1)) == 0;
}
bool isprime(uint32_t n) {
    const bool small = (n == 2) || (n == 3);
    if (small) {
        return true;
    }
    if ((n % 2 == 0) || (n % 3 == 0) || (n == 1)) {
        return false;
    }
    for (uint32_t d = 5; uint64_t(d) * d <= n; d += 2) {
        if (n % d == 0) {
            return false;
        }
    }
    return true;
}
}   // namespace dsplib
