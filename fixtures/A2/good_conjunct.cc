// EXPECT: clean A2:dsplib::ispow2
#include "mini.h"
namespace dsplib {
bool ispow2(int m) {
    return (m > 0) && ((m & (m - 1)) == 0);
}
}   // namespace dsplib
