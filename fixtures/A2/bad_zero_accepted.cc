// EXPECT: violated A2:dsplib::ispow2
// EXPECT: violated A2:dsplib::isprime
#include "mini.h"
#include <cstdint>
namespace dsplib {
bool ispow2(int m) {
    return (m & (m - 1)) == 0;          // true for m == 0
}
bool isprime(uint32_t n) {
    if (n <= 3) {
        return n != 0;                  // 1 is not a prime
    }
    for (uint32_t d = 2; uint64_t(d) * d <= n; ++d) {
        if (n % d == 0) {
            return false;
        }
    }
    return true;
}
}   // namespace dsplib
