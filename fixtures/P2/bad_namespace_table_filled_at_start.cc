// EXPECT: violated P2h:dsplib::(anonymous namespace)::DIVISORS
#include "mini.h"
namespace dsplib {
namespace {
std::vector<uint16_t> small_primes() {
    std::vector<uint16_t> v;
    for (int k = 2; k < 100; ++k) {
        v.push_back(uint16_t(k));
    }
    return v;
}
// filled by code that runs at program start
const std::vector<uint16_t> DIVISORS = small_primes();
}   // namespace
bool divisible(unsigned n) {
    for (auto d : DIVISORS) {
        if (n % d == 0) {
            return true;
        }
    }
    return false;
}
}   // namespace dsplib
