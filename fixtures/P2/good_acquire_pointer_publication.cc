// EXPECT: clean
#include "mini.h"
#include <atomic>
namespace dsplib {
struct Table
{
    std::vector<int> v;
};
std::atomic<const Table*> g_slot{nullptr};
std::atomic<int> g_hits{0};

const Table* shared_table(int n) {
    g_hits.fetch_add(1, std::memory_order_relaxed);      // a counter, not a publication
    const Table* t = g_slot.load(std::memory_order_acquire);
    if (t != nullptr) {
        return t;
    }
    auto fresh = std::make_unique<Table>();
    fresh->v.assign(n, 1);
    if (g_slot.compare_exchange_strong(t, fresh.get(), std::memory_order_acq_rel, std::memory_order_acquire)) {
        return fresh.release();
    }
    return t;
}
}   // namespace dsplib
