// EXPECT: clean P2:
#include "mini.h"
#include <array>
#include <atomic>
#include <mutex>
namespace dsplib {
constexpr int MAX_N = 41;
static const std::array<real_t, 4> table = {1, 2, 3, 4};
std::mutex g_lock;
std::atomic<int> g_count{0};
real_t lookup(int i) {
    static const auto t2 = std::array<real_t, 2>{1, 2};   // initialised once, never written
    thread_local std::vector<real_t> cache;                 // per thread
    cache.push_back(t2[i & 1]);
    return table[i & 3] + cache.back() + MAX_N;
}
}   // namespace dsplib
