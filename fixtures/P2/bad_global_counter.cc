// EXPECT: violated P2:dsplib::g_calls
#include "mini.h"
namespace dsplib {
int g_calls = 0;
int next_id() {
    return ++g_calls;
}
}   // namespace dsplib
