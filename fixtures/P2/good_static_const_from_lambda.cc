// EXPECT: clean
#include "mini.h"
#include <array>
namespace dsplib {
// a table built once by an immediately invoked lambda: its locals belong to the lambda, not to the call
const std::array<double, 8>& factorial_table() {
    static const std::array<double, 8> table = [] {
        std::array<double, 8> t{};
        double f = 1;
        for (int k = 0; k < 8; ++k) {
            f *= (k > 0) ? k : 1;
            t[k] = f;
        }
        return t;
    }();
    return table;
}
}   // namespace dsplib
