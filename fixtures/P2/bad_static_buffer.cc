// EXPECT: violated P2:buf@dsplib::smooth
#include "mini.h"
namespace dsplib {
arr_real smooth(const arr_real& x) {
    static std::vector<real_t> buf;   // scratch shared by every thread
    buf.assign(x._vec.begin(), x._vec.end());
    return arr_real(buf);
}
}   // namespace dsplib
