// EXPECT: violated P2d:work@dsplib::Rls::process
#include "mini.h"
namespace dsplib {
class Rls
{
public:
    explicit Rls(int n)
      : _n{n} {
    }
    real_t process(real_t x) {
        thread_local arr_real work(_n * _n);        // sized by whichever filter calls first in this thread
        work[_n * _n - 1] = x;
        return work[0];
    }
    int _n;
};
}   // namespace dsplib
