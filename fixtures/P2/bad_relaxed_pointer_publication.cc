// EXPECT: violated P2g:dsplib::shared_table
#include "mini.h"
#include <atomic>
namespace dsplib {
struct Table
{
    std::vector<int> v;
};
std::atomic<const Table*> g_slot{nullptr};

// the loser of the publication race reads the winner's pointer under a relaxed order and dereferences it
const Table* shared_table(int n) {
    const Table* t = g_slot.load(std::memory_order_acquire);
    if (t != nullptr) {
        return t;
    }
    auto fresh = std::make_unique<Table>();
    fresh->v.assign(n, 1);
    if (g_slot.compare_exchange_strong(t, fresh.get(), std::memory_order_release, std::memory_order_relaxed)) {
        return fresh.release();
    }
    return t;
}
}   // namespace dsplib
