// EXPECT: clean G4:dsplib::const_slice_t<double>::const_slice_t(constdsplib::const_slice_t
#include "minislice.h"
namespace dsplib {
template<typename T>
class const_slice_t : public base_slice_t
{
public:
    const_slice_t(const base_array<T>& arr, int i1, int i2, int m)
      : base_slice_t(arr.size(), i1, i2, m)
      , _base{arr} {
    }
    const_slice_t(const const_slice_t& rhs)
      : base_slice_t(rhs.length(), rhs._i1, rhs.stop(), rhs._m)    // accessors that return the right fields
      , _base{rhs._base} {
    }
    int length() const noexcept {
        return _n;
    }
    int stop() const noexcept {
        return _i2;
    }
    int size() const noexcept {
        return _nc;
    }

private:
    const base_array<T>& _base;
};
int use(const base_array<double>& a) {
    const_slice_t<double> s(a, 5, 8, 1);
    const_slice_t<double> c(s);
    return c.size();
}
}   // namespace dsplib
