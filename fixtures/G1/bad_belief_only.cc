// EXPECT: violated G1:dsplib::TablePlan::solve(constdsplib::cmplx_t*
// EXPECT: count 1
#include "mini.h"
namespace dsplib {
class TablePlan : public BaseFftPlanC
{
public:
    explicit TablePlan(int n)
      : n_{n}
      , tw_(n) {
    }
    arr_cmplx solve(const arr_cmplx& x) const final {
        arr_cmplx y(x.size());
        solve(x.data(), y.data(), x.size());     // inherits from the pointer overload
        return y;
    }
    void solve(const cmplx_t* x, cmplx_t* y, int n) const final {
        DSPLIB_ASSERT(x != y, "Pointers must be restricted");   // a guard, but not about lengths
        assert(n == n_);                                          // compiled out in release builds
        kernel(x, y, n);
    }
    int size() const noexcept final {
        return n_;
    }

private:
    void kernel(const cmplx_t* x, cmplx_t* y, int n) const noexcept {
        DSPLIB_ASSUME(n == n_);
        for (int i = 0; i < n; ++i) {
            y[i].re = x[i].re * tw_[i].re;
            y[i].im = x[i].im * tw_[i].im;
        }
    }
    const int n_;
    std::vector<cmplx_t> tw_;
};
}   // namespace dsplib
