// EXPECT: violated G1:dsplib::OwnLen::solve(constdsplib::base_array
// the array overload passes the plan's own length to the guarded pointer overload: `n == n_` compares n_ with itself
#include "mini.h"
namespace dsplib {
class OwnLen : public BaseFftPlanC
{
public:
    explicit OwnLen(int n)
      : n_{n}
      , tw_(n) {
    }
    arr_cmplx solve(const arr_cmplx& x) const final {
        arr_cmplx y(n_);
        solve(x.data(), y.data(), n_);
        return y;
    }
    void solve(const cmplx_t* x, cmplx_t* y, int n) const final {
        DSPLIB_ASSERT(n == n_, "input size error");
        for (int i = 0; i < n; ++i) {
            y[i].re = x[i].re * tw_[i].re;
        }
    }
    int size() const noexcept final {
        return n_;
    }

private:
    const int n_;
    std::vector<cmplx_t> tw_;
};
}   // namespace dsplib
