// EXPECT: clean G1:dsplib::IfPlan::solve
// EXPECT: clean G1:dsplib::HelperPlan::solve
// EXPECT: clean G1:dsplib::Wrapper::solve
#include "mini.h"
namespace dsplib {
// guard spelled as if/throw instead of the macro
class IfPlan : public BaseFftPlanC
{
public:
    explicit IfPlan(int n)
      : n_{n}
      , tw_(n) {
    }
    arr_cmplx solve(const arr_cmplx& x) const final {
        if (x.size() != n_) {
            throw std::runtime_error("size");
        }
        arr_cmplx y(n_);
        for (int i = 0; i < n_; ++i) {
            y[i].re = x[i].re * tw_[i].re;
        }
        return y;
    }
    int size() const noexcept final {
        return n_;
    }

private:
    const int n_;
    std::vector<cmplx_t> tw_;
};
// guard hoisted into the kernel helper
class HelperPlan : public BaseFftPlanC
{
public:
    explicit HelperPlan(int n)
      : n_{n}
      , tw_(n) {
    }
    arr_cmplx solve(const arr_cmplx& x) const final {
        arr_cmplx y(x.size());
        run(x.data(), y.data(), y.size());
        return y;
    }
    void solve(const cmplx_t* x, cmplx_t* y, int n) const final {
        run(x, y, n);
    }
    int size() const noexcept final {
        return n_;
    }

private:
    void run(const cmplx_t* x, cmplx_t* y, int n) const {
        DSPLIB_ASSERT(n == n_, "input size error");
        for (int i = 0; i < n; ++i) {
            y[i].re = x[i].re * tw_[i].re;
        }
    }
    const int n_;
    std::vector<cmplx_t> tw_;
};
// pure delegation through a pointer-like member
class Wrapper : public BaseFftPlanC
{
public:
    explicit Wrapper(int n)
      : d_{std::make_shared<IfPlan>(n)} {
    }
    arr_cmplx solve(const arr_cmplx& x) const final {
        return d_->solve(x);
    }
    int size() const noexcept final {
        return d_->size();
    }

private:
    std::shared_ptr<BaseFftPlanC> d_;
};
}   // namespace dsplib
