// EXPECT: clean G1:dsplib::TwoChecks::solve
#include "mini.h"
namespace dsplib {
void kernel(const cmplx_t* x, cmplx_t* y, const cmplx_t* tw, int n);
// the same equality written as two one-sided rejections
class TwoChecks : public BaseFftPlanC
{
public:
    explicit TwoChecks(int n)
      : n_{n}
      , tw_(n) {
    }
    arr_cmplx solve(const arr_cmplx& x) const final {
        if (x.size() < n_) {
            DSPLIB_THROW("input too short");
        }
        if (x.size() > n_) {
            DSPLIB_THROW("input too long");
        }
        arr_cmplx y(x.size());
        kernel(x.data(), y.data(), tw_.data(), n_);
        return y;
    }
    int size() const noexcept final {
        return n_;
    }

private:
    const int n_;
    std::vector<cmplx_t> tw_;
};
}   // namespace dsplib
