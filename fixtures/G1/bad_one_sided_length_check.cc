// EXPECT: violated G1:dsplib::OneSided::solve
#include "mini.h"
namespace dsplib {
void kernel(const cmplx_t* x, cmplx_t* y, const cmplx_t* tw, int n);
// tables of the plan's length and the input are walked with one length: a one-sided check leaves one of them too short
class OneSided : public BaseFftPlanC
{
public:
    explicit OneSided(int n)
      : n_{n}
      , tw_(n) {
    }
    arr_cmplx solve(const arr_cmplx& x) const final {
        DSPLIB_ASSERT(x.size() <= n_, "input size error");
        arr_cmplx y(x.size());
        kernel(x.data(), y.data(), tw_.data(), n_);
        return y;
    }
    int size() const noexcept final {
        return n_;
    }

private:
    const int n_;
    std::vector<cmplx_t> tw_;
};
}   // namespace dsplib
