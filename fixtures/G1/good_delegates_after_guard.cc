// EXPECT: clean G1:dsplib::Checked::solve(constdsplib::base_array
// EXPECT: clean G1:dsplib::ViaLocal::solve(constdsplib::base_array
#include "mini.h"
namespace dsplib {
// the array overload relates the input to the plan itself, then may pass either length on
class Checked : public BaseFftPlanC
{
public:
    explicit Checked(int n)
      : n_{n}
      , tw_(n) {
    }
    arr_cmplx solve(const arr_cmplx& x) const final {
        DSPLIB_ASSERT(x.size() == n_, "input size error");
        arr_cmplx y(n_);
        solve(x.data(), y.data(), n_);
        return y;
    }
    void solve(const cmplx_t* x, cmplx_t* y, int n) const final {
        DSPLIB_ASSERT(n == n_, "input size error");
        for (int i = 0; i < n; ++i) {
            y[i].re = x[i].re * tw_[i].re;
        }
    }
    int size() const noexcept final {
        return n_;
    }

private:
    const int n_;
    std::vector<cmplx_t> tw_;
};
// the length travels through a local and the output array
class ViaLocal : public BaseFftPlanC
{
public:
    explicit ViaLocal(int n)
      : n_{n}
      , tw_(n) {
    }
    arr_cmplx solve(const arr_cmplx& x) const final {
        const int len = x.size();
        arr_cmplx y(len);
        solve(x.data(), y.data(), y.size());
        return y;
    }
    void solve(const cmplx_t* x, cmplx_t* y, int n) const final {
        if (n != n_) {
            throw std::runtime_error("size");
        }
        for (int i = 0; i < n; ++i) {
            y[i].re = x[i].re * tw_[i].re;
        }
    }
    int size() const noexcept final {
        return n_;
    }

private:
    const int n_;
    std::vector<cmplx_t> tw_;
};
}   // namespace dsplib
