// miniature of the array arithmetic of dsplib, used only to exercise rule T1 (promotion table for '+')
#pragma once
#include <dsplib/defs.h>
#include <complex>
#include <type_traits>
#include <vector>
namespace dsplib {
using real_t = double;
struct cmplx_t
{
    real_t re{0}, im{0};
    constexpr cmplx_t(real_t r = 0, real_t i = 0)
      : re{r}
      , im{i} {
    }
    template<class U>
    constexpr cmplx_t(const std::complex<U>& v)
      : re(v.real())
      , im(v.imag()) {
    }
    constexpr cmplx_t operator+(const cmplx_t& r) const {
        return {re + r.re, im + r.im};
    }
};
template<class T>
constexpr bool is_complex_v = std::is_same_v<T, cmplx_t> || std::is_same_v<T, std::complex<double>> || std::is_same_v<T, std::complex<float>>;
template<class T>
constexpr bool is_scalar_v = std::is_arithmetic_v<T> || is_complex_v<T>;
#ifdef T1_FIXTURE_BROKEN_PROMOTION
template<class T1, class T2>
using ResultType = std::conditional_t<std::is_same_v<T1, cmplx_t> || std::is_same_v<T2, cmplx_t>, cmplx_t, real_t>;
#else
template<class T1, class T2>
using ResultType = std::conditional_t<is_complex_v<T1> || is_complex_v<T2>, cmplx_t, real_t>;
#endif
template<class T>
class base_array
{
public:
    base_array() = default;
    explicit base_array(int n)
      : _vec(n) {
    }
    int size() const {
        return int(_vec.size());
    }
    template<class T2, class R = ResultType<T, T2>, class S_ = std::enable_if_t<is_scalar_v<T2>>>
    base_array<R> operator+(const T2& rhs) const {
        base_array<R> r(size());
        for (int i = 0; i < size(); ++i) {
            r._vec[i] = R(_vec[i]) + R(rhs);
        }
        return r;
    }
    template<class T2, class R = ResultType<T, T2>>
    base_array<R> operator+(const base_array<T2>& rhs) const {
        base_array<R> r(size());
        for (int i = 0; i < size(); ++i) {
            r._vec[i] = R(_vec[i]) + R(rhs._vec[i]);
        }
        return r;
    }
    std::vector<T> _vec;
};
template<class T, class Scalar, class R = ResultType<T, Scalar>, class S_ = std::enable_if_t<is_scalar_v<Scalar>>>
base_array<R> operator+(const Scalar& lhs, const base_array<T>& rhs) {
    return rhs + lhs;
}
using arr_real = base_array<real_t>;
using arr_cmplx = base_array<cmplx_t>;
}   // namespace dsplib
