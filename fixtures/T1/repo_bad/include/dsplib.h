#pragma once
#define T1_FIXTURE_BROKEN_PROMOTION 1
#include "../../repo_good/include/dsplib.h"
