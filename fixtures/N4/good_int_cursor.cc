// EXPECT: count 0
// the table holds small integers, the running position is an int
#include "mini.h"
namespace dsplib {
class Conv
{
public:
    arr_real process(const arr_real& x) {
        const int nx = x.size();
        arr_real out(nx / step_);
        for (int k = 0; k < int(starts_.size()); ++k) {
            int pos = starts_[k];
            for (int i = k; i < out.size(); i += int(starts_.size())) {
                out[i] = x[pos];
                pos += step_;
            }
        }
        return out;
    }

private:
    int step_{2};
    std::vector<uint16_t> starts_{0, 1};
};
}   // namespace dsplib
