// EXPECT: violated G7:dsplib::pick
// EXPECT: violated G7:dsplib::spread
// a second induction variable starts at a caller-supplied phase that nothing keeps non-negative
#include "mini.h"
namespace dsplib {
arr_real pick(const arr_real& arr, int n, int phase) {
    DSPLIB_ASSERT(n > 0, "factor must be positive");
    const int nr = (arr.size() - phase - 1) / n + 1;
    arr_real r(nr);
    for (int i = 0, k = phase; k < arr.size(); ++i, k += n) {
        r[i] = arr[k];
    }
    return r;
}
arr_real spread(const arr_real& arr, int n, int phase) {
    DSPLIB_ASSERT(n > 0, "factor must be positive");
    arr_real r(arr.size() * n);
    for (int i = 0, k = phase; k < r.size(); ++i, k += n) {
        r[k] = arr[i];
    }
    return r;
}
}   // namespace dsplib
