// EXPECT: violated G7:dsplib::every_nth
// the read index phase + i*n is not affine (a product of two variables), so nothing is proved; but the instance n = 2, phase = 0
// with an empty input passes both argument checks, makes the truncated count 1, and reads arr[0] of an empty array
#include "mini.h"
namespace dsplib {
arr_real every_nth(const arr_real& arr, int n, int phase) {
    DSPLIB_ASSERT(n > 0, "factor must be greater 0");
    DSPLIB_ASSERT((phase < n) && (phase >= 0), "phase must be [0, N-1]");
    const int nr = (arr.size() - phase - 1) / n + 1;
    arr_real r(nr);
    for (int i = 0; i < nr; ++i) {
        r[i] = arr[phase + i * n];
    }
    return r;
}
}   // namespace dsplib
