// EXPECT: violated G7:dsplib::(anonymousnamespace)::_segments
// the segment count truncates towards zero, so a record shorter than the window still yields one segment; the checked slice that
// used to reject it was replaced by a raw pointer loop
#include "mini.h"
namespace dsplib {
namespace {
arr_real _segments(const arr_real& x, const arr_real& win, int noverlap) {
    const int N = x.size();
    const int winlen = win.size();
    DSPLIB_ASSERT(noverlap < winlen, "noverlap must be less than winlen");
    const int stride = winlen - noverlap;
    const int num_segments = (N - winlen) / stride + 1;
    arr_real acc(winlen);
    const real_t* px = x.data();
    for (int i = 0; i < num_segments; ++i, px += stride) {
        for (int k = 0; k < winlen; ++k) {
            acc[k] += px[k] * win[k];
        }
    }
    return acc;
}
}   // namespace
arr_real segments(const arr_real& x, const arr_real& win, int noverlap) {
    return _segments(x, win, noverlap);
}
}   // namespace dsplib
