// EXPECT: count 0
// a member function can resize the vector: its size is no longer a function of _len - not decided, not an alarm
#include "mini.h"
namespace dsplib {
class Taps
{
public:
    explicit Taps(int len)
      : _w(len)
      , _len{len} {
    }
    real_t first(const arr_real& x) const {
        real_t acc = 0;
        for (int i = 0; i < _len; ++i) {
            acc += _w[i];
        }
        return acc + x.size();
    }
    void shrink() {
        _w.resize(1);
    }

private:
    std::vector<real_t> _w;
    const int _len;
};
}   // namespace dsplib
