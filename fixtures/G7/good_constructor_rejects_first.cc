// EXPECT: clean
// the value that would break the subscript is rejected by a constructor that receives it earlier in the function
#include "mini.h"
namespace dsplib {
class Table
{
public:
    explicit Table(int n)
      : _w(n) {
        DSPLIB_ASSERT(n >= 2, "table size error");
    }
    std::vector<real_t> _w;
};
real_t last_weight(const arr_real& x, int n) {
    DSPLIB_ASSERT(x.size() == n, "size");
    Table t(n);
    return x[n - 1] * t._w[0];
}
}   // namespace dsplib
