// EXPECT: violated G7:dsplib::IrfftPlan::solve(constdsplib::base_array<dsplib::cmplx_t>&):x[1]
// "the upper half already holds the conjugates": true for the n-bin form only; with n/2+1 bins x[n/2 + i] is past the end
#include "mini.h"
namespace dsplib {
class IrfftPlan
{
public:
    explicit IrfftPlan(int n)
      : _n{n} {
        DSPLIB_ASSERT(n % 2 == 0, "ifft size must be even");
    }
    std::vector<real_t> solve(const base_array<cmplx_t>& x) const {
        DSPLIB_ASSERT((x.size() == _n) || (x.size() == _n / 2 + 1), "input size must be n/2+1 or n");
        std::vector<cmplx_t> Z(_n / 2);
        for (int i = 0; i < _n / 2; ++i) {
            const cmplx_t v = x[_n / 2 + i];
            Z[i].re = x[i].re + v.re;
            Z[i].im = x[i].im - v.im;
        }
        std::vector<real_t> r(_n);
        for (int i = 0; i < _n / 2; ++i) {
            r[2 * i] = Z[i].re;
            r[2 * i + 1] = -Z[i].im;
        }
        return r;
    }

private:
    const int _n;
};
}   // namespace dsplib
