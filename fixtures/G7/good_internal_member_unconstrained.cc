// EXPECT: count 0
// res[0] needs n_ >= 1; the class is internal (only a factory that never passes 0 constructs it): not decided, not an alarm
#include "mini.h"
namespace dsplib {
namespace {
class RealPlan
{
public:
    explicit RealPlan(int n)
      : n_{n} {
        DSPLIB_ASSERT(n % 2 == 0, "FFT size must be even");
    }
    base_array<cmplx_t> solve(const base_array<real_t>& x) const {
        DSPLIB_ASSERT(x.size() == n_, "Input size must be equal FFT size");
        base_array<cmplx_t> res(n_);
        res[0].re = x[0];
        for (int i = 1; i < n_ / 2; ++i) {
            res[i].re = x[2 * i];
            res[n_ - i].re = x[2 * i + 1];
        }
        return res;
    }

private:
    const int n_;
};
}   // namespace
int use(const base_array<real_t>& x) {
    if (x.size() < 4) {
        return 0;
    }
    RealPlan p(x.size() & ~1);
    return p.solve(x).size();
}
}   // namespace dsplib
