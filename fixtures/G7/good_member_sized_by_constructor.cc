// EXPECT: clean G7:dsplib::Taps::apply
// the coefficient vector is sized by the only constructor from a parameter that is kept in a constant member,
// and no member function resizes it: its size is _len whenever apply() runs
#include "mini.h"
namespace dsplib {
class Taps
{
public:
    explicit Taps(int len)
      : _w(len)
      , _len{len} {
    }
    real_t apply(const arr_real& x) const {
        DSPLIB_ASSERT(x.size() == _len, "frame length must equal the number of taps");
        real_t acc = 0;
        for (int i = 0; i < _len; ++i) {
            acc += _w[i] * x[_len - 1 - i];
        }
        return acc;
    }
    void set(int i, real_t v) {
        DSPLIB_ASSERT((i >= 0) && (i < _len), "tap index out of range");
        _w[i] = v;
    }

private:
    std::vector<real_t> _w;
    const int _len;
};
}   // namespace dsplib
