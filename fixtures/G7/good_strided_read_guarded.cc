// EXPECT: count 0
// the same strided read behind a bound test of its own: not affine, not provable here, and no instance refutes it
#include "mini.h"
namespace dsplib {
arr_real every_nth(const arr_real& arr, int n, int phase) {
    DSPLIB_ASSERT(n > 0, "factor must be greater 0");
    DSPLIB_ASSERT((phase < n) && (phase >= 0), "phase must be [0, N-1]");
    const int nr = (arr.size() - phase - 1) / n + 1;
    arr_real r(nr);
    for (int i = 0; i < nr; ++i) {
        if (phase + i * n < arr.size()) {
            r[i] = arr[phase + i * n];
        }
    }
    return r;
}
}   // namespace dsplib
