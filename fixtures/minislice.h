// minimal slice vocabulary for the G3/G3b/G4 fixtures; the constructor under test (G5) is defined per fixture
#pragma once
#include "mini.h"
#include <iterator>
namespace dsplib {
#ifndef DSPLINT_OWN_BASE_SLICE
class base_slice_t
{
public:
    explicit base_slice_t(int n, int i1, int i2, int m) {
        DSPLIB_ASSERT(n != 0, "empty");
        DSPLIB_ASSERT(m != 0, "stride");
        _m = m;
        _n = n;
        _i1 = (i1 < 0) ? (_n + i1) : (i1);
        _i2 = (i2 < 0) ? (_n + i2) : (i2);
        _nc = (std::abs(_i2 - _i1) + std::abs(_m) - 1) / std::abs(_m);
    }

protected:
    int _i1{0};
    int _i2{0};
    int _m{0};
    int _n{0};
    int _nc{0};
};
#endif
}   // namespace dsplib
