// EXPECT: violated L2:dsplib::_process
#include "mini.h"
namespace dsplib {
struct AgcImpl
{
    real_t trise{0.01};
    real_t max_gain{4.6};
    real_t target{0};
    real_t gain{1.0};
};
arr_real _process(AgcImpl& agc, const arr_real& x) {
    const int nx = x.size();
    arr_real out(nx);
    for (int i = 0; i < nx; ++i) {
        const real_t err = agc.target - (std::log(x[i] * x[i] + 1e-9) + (2 * agc.gain));
        agc.gain += agc.trise * err;
        out[i] = x[i] * std::exp(agc.gain);      // used before it is clamped
        if (agc.gain > agc.max_gain) {
            agc.gain = agc.max_gain;
        }
    }
    return out;
}
}   // namespace dsplib
