// EXPECT: violated L2
#include "mini.h"
namespace dsplib {
struct AgcImpl
{
    real_t trise{0.01};
    real_t tfall{0.02};
    real_t max_gain{4.6};
    real_t target{0};
    real_t gain{1.0};
};
// the helper clamps first and updates afterwards: what it leaves behind is not clamped
static void _update_gain(real_t& gain, real_t err, real_t trise, real_t tfall, real_t max_gain) {
    if (gain > max_gain) {
        gain = max_gain;
    }
    if (err > 1) {
        gain += trise * err;
    } else {
        gain += tfall * err;
    }
}
arr_real _process(AgcImpl& agc, const arr_real& x) {
    const int nx = x.size();
    arr_real out(nx);
    real_t cur_gain = agc.gain;
    for (int i = 0; i < nx; ++i) {
        const real_t err = agc.target - (std::log(x[i] * x[i] + 1e-9) + (2 * cur_gain));
        _update_gain(cur_gain, err, agc.trise, agc.tfall, agc.max_gain);
        out[i] = x[i] * std::exp(cur_gain);
    }
    agc.gain = cur_gain;
    return out;
}
}   // namespace dsplib
