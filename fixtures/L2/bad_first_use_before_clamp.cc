// EXPECT: violated L2:first-use:dsplib::_process
// "apply the current gain, then update it for the next sample": the first sample of a fresh object is scaled by the start value
#include "mini.h"
namespace dsplib {
struct AgcImpl
{
    real_t trise{0.01};
    real_t tfall{0.02};
    real_t max_gain{4.6};
    real_t target{0};
    real_t gain{1.0};
};
arr_real _process(AgcImpl& agc, const arr_real& x) {
    const int nx = x.size();
    arr_real out(nx);
    for (int i = 0; i < nx; ++i) {
        const real_t lin = std::exp(agc.gain);
        out[i] = x[i] * lin;
        const real_t err = agc.target - (std::log(x[i] * x[i] + 1e-9) + (2 * agc.gain));
        agc.gain += ((err > 1) ? agc.trise : agc.tfall) * err;
        if (agc.gain > agc.max_gain) {
            agc.gain = agc.max_gain;
        }
    }
    return out;
}
}   // namespace dsplib
