// EXPECT: clean L2:dsplib::_process
// the update and the clamp live in two helpers that the per-sample loop calls one after the other
#include "mini.h"
#include <algorithm>
namespace dsplib {
struct AgcImpl
{
    real_t trise{0.01};
    real_t tfall{0.02};
    real_t max_gain{4.6};
    real_t target{0};
    real_t gain{1.0};
};
static void _update_gain(AgcImpl& agc, real_t err) noexcept {
    const real_t step = (err > 1) ? agc.trise : agc.tfall;
    agc.gain += step * err;
}
static void _clamp_gain(AgcImpl& agc) noexcept {
    agc.gain = std::min(agc.gain, agc.max_gain);
}
arr_real _process(AgcImpl& agc, const arr_real& x) {
    const int nx = x.size();
    arr_real out(nx);
    for (int i = 0; i < nx; ++i) {
        const real_t err = agc.target - (std::log(x[i] * x[i] + 1e-9) + (2 * agc.gain));
        _update_gain(agc, err);
        _clamp_gain(agc);
        out[i] = x[i] * std::exp(agc.gain);
    }
    return out;
}
}   // namespace dsplib
