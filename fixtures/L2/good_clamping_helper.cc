// EXPECT: clean L2:dsplib::_process
// the per-sample update lives in a helper that returns the clamped value; the frame carries the gain in a local
#include "mini.h"
#include <algorithm>
namespace dsplib {
struct AgcImpl
{
    real_t trise{0.01};
    real_t tfall{0.02};
    real_t max_gain{4.6};
    real_t target{0};
    real_t gain{1.0};
};
static real_t _update_gain(AgcImpl& agc, real_t gain, real_t power) {
    const real_t err = agc.target - (std::log(power + 1e-9) + (2 * gain));
    const real_t step = (err > 1) ? agc.trise : agc.tfall;
    gain += step * err;
    return std::min(gain, agc.max_gain);
}
arr_real _process(AgcImpl& agc, const arr_real& x) {
    const int nx = x.size();
    arr_real out(nx);
    real_t lg = agc.gain;
    for (int i = 0; i < nx; ++i) {
        lg = _update_gain(agc, lg, x[i] * x[i]);
        out[i] = x[i] * std::exp(lg);
    }
    agc.gain = lg;
    return out;
}
}   // namespace dsplib
