// EXPECT: clean L2:dsplib::_process
// the gain is kept in a local during the frame: the clamp guards the local, the member receives the clamped value
#include "mini.h"
namespace dsplib {
struct AgcImpl
{
    real_t trise{0.01};
    real_t tfall{0.02};
    real_t max_gain{4.6};
    real_t target{0};
    real_t gain{1.0};
};
arr_real _process(AgcImpl& agc, const arr_real& x) {
    const int nx = x.size();
    arr_real out(nx);
    real_t g = agc.gain;
    for (int i = 0; i < nx; ++i) {
        const real_t err = agc.target - (std::log(x[i] * x[i] + 1e-9) + (2 * g));
        g += ((err > 1) ? agc.trise : agc.tfall) * err;
        if (g > agc.max_gain) {
            g = agc.max_gain;
        }
        out[i] = x[i] * std::exp(g);
    }
    agc.gain = g;
    return out;
}
}   // namespace dsplib
