// EXPECT: clean L2:dsplib::_process
#include "mini.h"
namespace dsplib {
struct AgcImpl
{
    real_t trise{0.01};
    real_t tfall{0.02};
    real_t max_gain{4.6};
    real_t target{0};
    real_t gain{1.0};
};
arr_real _process(AgcImpl& agc, const arr_real& x) {
    const int nx = x.size();
    arr_real out(nx);
    for (int i = 0; i < nx; ++i) {
        const real_t err = agc.target - (std::log(x[i] * x[i] + 1e-9) + (2 * agc.gain));
        if (err > 1) {
            agc.gain += agc.trise * err;
        } else {
            agc.gain += agc.tfall * err;
        }
        agc.gain = std::min(agc.gain, agc.max_gain);     // clamp spelled with std::min
        out[i] = x[i] * std::exp(agc.gain);
    }
    return out;
}
}   // namespace dsplib
