// EXPECT: violated V1:dsplib::Delay<double>::process
#include "slicearr.h"
namespace dsplib {
template<typename T>
class Delay
{
public:
    base_array<T> process(const base_array<T>& x) {
        const int nd = _buffer.size();
        const int nx = x.size();
        const auto r = _buffer.slice(0, nx);                   // lazy view of the oldest samples
        _buffer.slice(0, nd - nx) = _buffer.slice(nx, nd);     // shift the line
        _buffer.slice(nd - nx, nd) = x;
        return r;                                              // materialised only now: yields the shifted contents
    }
    base_array<T> _buffer;
};
template class Delay<double>;
}   // namespace dsplib
