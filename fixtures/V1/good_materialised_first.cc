// EXPECT: clean V1:dsplib::Delay<double>::process
#include "slicearr.h"
namespace dsplib {
template<typename T>
class Delay
{
public:
    base_array<T> process(const base_array<T>& x) {
        const int nd = _buffer.size();
        const int nx = x.size();
        const base_array<T> r = _buffer.slice(0, nx);          // copied at once
        const auto tail = _buffer.slice(nx, nd);               // view, consumed before any write that follows it
        base_array<T> t(tail);
        _buffer.slice(0, nd - nx) = t;
        _buffer.slice(nd - nx, nd) = x;
        return r;
    }
    base_array<T> _buffer;
};
template class Delay<double>;
}   // namespace dsplib
