#pragma once
#include <vector>
namespace dsplib {
template<typename T>
class base_array;
template<typename T>
class const_slice_t
{
public:
    const_slice_t(const base_array<T>& a, int i1, int i2)
      : _base{a}
      , _i1{i1}
      , _i2{i2} {
    }
    const base_array<T>& _base;
    int _i1, _i2;
};
template<typename T>
class slice_t
{
public:
    slice_t(base_array<T>& a, int i1, int i2)
      : _base{a}
      , _i1{i1}
      , _i2{i2} {
    }
    slice_t& operator=(const const_slice_t<T>& rhs);
    slice_t& operator=(const slice_t<T>& rhs);
    slice_t& operator=(const base_array<T>& rhs);
    base_array<T>& _base;
    int _i1, _i2;
};
template<typename T>
class base_array
{
public:
    base_array() = default;
    explicit base_array(int n)
      : _vec(n) {
    }
    base_array(const const_slice_t<T>& s);
    base_array(const slice_t<T>& s);
    int size() const {
        return int(_vec.size());
    }
    slice_t<T> slice(int i1, int i2) {
        return slice_t<T>(*this, i1, i2);
    }
    const_slice_t<T> slice(int i1, int i2) const {
        return const_slice_t<T>(*this, i1, i2);
    }
    std::vector<T> _vec;
};
}   // namespace dsplib
