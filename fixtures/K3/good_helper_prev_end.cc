// EXPECT: clean K3:evict
#include "mini.h"
#include <iterator>
#include <list>
#include <unordered_map>
namespace dsplib {
template<typename Key, typename Value>
class LRUCache
{
public:
    using KeyValue_t = std::pair<Key, Value>;
    using ListIterator_t = typename std::list<KeyValue_t>::iterator;
    explicit LRUCache(size_t max_size)
      : max_size_(max_size) {
    }
    void put(const Key& key, const Value& value) {
        items_list_.push_front(KeyValue_t(key, value));
        items_map_[key] = items_list_.begin();
        if (max_size_ < items_map_.size()) {
            evict_lru_();
        }
    }

private:
    void evict_lru_() {
        const ListIterator_t victim = std::prev(items_list_.end());
        items_map_.erase(victim->first);
        items_list_.erase(victim);
    }
    std::list<KeyValue_t> items_list_;
    std::unordered_map<Key, ListIterator_t> items_map_;
    size_t max_size_;
};
int use() {
    LRUCache<int, int> c(2);
    c.put(1, 1);
    return 0;
}
}   // namespace dsplib
