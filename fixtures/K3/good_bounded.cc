// EXPECT: clean K3:evict
// EXPECT: clean K3:capacity
#include "../K2/lru.h"
namespace dsplib {
template<typename Key, typename Value>
class LRUCache
{
public:
    using KeyValue_t = std::pair<Key, Value>;
    using ListIterator_t = typename std::list<KeyValue_t>::iterator;
    explicit LRUCache(size_t max_size)
      : max_size_(max_size) {
    }
    void put(const Key& key, const Value& value) {
        items_list_.push_front(KeyValue_t(key, value));
        items_map_[key] = items_list_.begin();
        if (max_size_ < items_list_.size()) {
            items_map_.erase(items_list_.back().first);
            items_list_.pop_back();
        }
    }

private:
    std::list<KeyValue_t> items_list_;
    std::unordered_map<Key, ListIterator_t> items_map_;
    size_t max_size_;
};
constexpr int CACHE = 2 + 2;
int use() {
    thread_local LRUCache<int, int> cache{CACHE};
    cache.put(1, 2);
    return 0;
}
}   // namespace dsplib
