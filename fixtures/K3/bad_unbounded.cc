// EXPECT: violated K3:evict
#include "../K2/lru.h"
namespace dsplib {
template<typename Key, typename Value>
class LRUCache
{
public:
    using KeyValue_t = std::pair<Key, Value>;
    using ListIterator_t = typename std::list<KeyValue_t>::iterator;
    explicit LRUCache(size_t max_size)
      : max_size_(max_size) {
    }
    void put(const Key& key, const Value& value) {
        items_list_.push_front(KeyValue_t(key, value));
        items_map_[key] = items_list_.begin();
        if (items_map_.size() > 64) {           // not the configured capacity
            auto last = items_list_.end();
            last--;
            items_map_.erase(last->first);
            items_list_.pop_back();
        }
    }

private:
    std::list<KeyValue_t> items_list_;
    std::unordered_map<Key, ListIterator_t> items_map_;
    size_t max_size_;
};
int use() {
    thread_local LRUCache<int, int> cache{4};
    cache.put(1, 2);
    return 0;
}
}   // namespace dsplib
