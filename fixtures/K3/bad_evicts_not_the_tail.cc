// EXPECT: violated K3:evict
// on overflow the first "unpinned" entry is removed, walking from the tail towards the front: not necessarily the LRU entry
#include "../K2/lru.h"
#include <functional>
namespace dsplib {
template<typename Key, typename Value>
class LRUCache
{
public:
    using KeyValue_t = std::pair<Key, Value>;
    using ListIterator_t = typename std::list<KeyValue_t>::iterator;
    explicit LRUCache(size_t max_size, std::function<bool(const Value&)> pinned = nullptr)
      : max_size_(max_size)
      , pinned_(pinned) {
    }
    void put(const Key& key, const Value& value) {
        items_list_.push_front(KeyValue_t(key, value));
        items_map_[key] = items_list_.begin();
        if (items_map_.size() > max_size_) {
            auto victim = std::prev(items_list_.end());
            while (pinned_ && victim != items_list_.begin() && pinned_(victim->second)) {
                --victim;
            }
            items_map_.erase(victim->first);
            items_list_.erase(victim);
        }
    }

private:
    std::list<KeyValue_t> items_list_;
    std::unordered_map<Key, ListIterator_t> items_map_;
    size_t max_size_;
    std::function<bool(const Value&)> pinned_;
};
int use() {
    thread_local LRUCache<int, int> cache{4};
    cache.put(1, 2);
    return 0;
}
}   // namespace dsplib
