// EXPECT: clean K3:evict:dsplib::LRUCache<int,int>::get_or_create
// the factory runs first; "is it full?" is answered afterwards (through a local flag), then the entry is inserted
#include "../K2/lru.h"
namespace dsplib {
template<typename Key, typename Value>
class LRUCache
{
public:
    using KeyValue_t = std::pair<Key, Value>;
    using ListIterator_t = typename std::list<KeyValue_t>::iterator;
    explicit LRUCache(size_t max_size)
      : max_size_(max_size) {
    }
    void put(const Key& key, const Value& value) {
        items_list_.push_front(KeyValue_t(key, value));
        items_map_[key] = items_list_.begin();
        if (items_map_.size() > max_size_) {
            auto last = items_list_.end();
            last--;
            items_map_.erase(last->first);
            items_list_.pop_back();
        }
    }
    template<typename Factory>
    Value get_or_create(const Key& key, Factory&& make) {
        auto it = items_map_.find(key);
        if (it != items_map_.end()) {
            items_list_.splice(items_list_.begin(), items_list_, it->second);
            return it->second->second;
        }
        Value value = make(key);
        const bool full = (items_map_.size() >= max_size_);
        if (full) {
            items_map_.erase(items_list_.back().first);
            items_list_.pop_back();
        }
        items_list_.emplace_front(key, value);
        items_map_[key] = items_list_.begin();
        return value;
    }

private:
    std::list<KeyValue_t> items_list_;
    std::unordered_map<Key, ListIterator_t> items_map_;
    size_t max_size_;
};
int _make(int n) {
    return n + 1;
}
int use() {
    thread_local LRUCache<int, int> cache{4};
    cache.put(1, 2);
    return cache.get_or_create(3, _make);
}
}   // namespace dsplib
