// EXPECT: clean K3:evict
#include "mini.h"
#include <iterator>
#include <list>
#include <unordered_map>
namespace dsplib {
template<typename Key, typename Value>
class LRUCache
{
public:
    using KeyValue_t = std::pair<Key, Value>;
    using ListIterator_t = typename std::list<KeyValue_t>::iterator;
    explicit LRUCache(size_t max_size)
      : max_size_(max_size) {
    }
    void put(const Key& key, const Value& value) {
        items_list_.push_front(KeyValue_t(key, value));
        items_map_.emplace(key, items_list_.begin());
        if (over_capacity_()) {
            evict_oldest_();
        }
    }

private:
    bool over_capacity_() const {
        return !(items_map_.size() <= max_size_);
    }
    void evict_oldest_() {
        const auto oldest = std::prev(items_list_.end());
        items_map_.erase(oldest->first);
        items_list_.erase(oldest);
    }
    std::list<KeyValue_t> items_list_;
    std::unordered_map<Key, ListIterator_t> items_map_;
    size_t max_size_;
};
int use() {
    LRUCache<int, int> c(2);
    c.put(1, 1);
    return 0;
}
}   // namespace dsplib
