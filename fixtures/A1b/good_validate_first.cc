// EXPECT: clean A1b:dsplib::IfftPlanR::IfftPlanR
#include "mini.h"
namespace dsplib {
std::vector<cmplx_t> _coeffs(int n);
class Half
{
public:
    explicit Half(int n);
};
inline int _checked_even(int n) {
    if ((n & 1) != 0 || n < 2) {
        throw std::runtime_error("ifft size must be even");
    }
    return n;
}
class IfftPlanR
{
public:
    IfftPlanR(int n)
      : _n{_checked_even(n)}
      , _d{std::make_shared<Half>(n / 2)}
      , _w(_coeffs(n)) {
    }
    const int _n;
    std::shared_ptr<Half> _d;
    const std::vector<cmplx_t> _w;
};
}   // namespace dsplib
