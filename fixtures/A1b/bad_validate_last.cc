// EXPECT: violated A1b:dsplib::IfftPlanR::IfftPlanR
#include "mini.h"
namespace dsplib {
std::vector<cmplx_t> _coeffs(int n);
class Half
{
public:
    explicit Half(int n);
};
class IfftPlanR
{
public:
    IfftPlanR(int n)
      : _n{n}
      , _d{std::make_shared<Half>(n / 2)}
      , _w(_coeffs(n)) {
        DSPLIB_ASSERT(n % 2 == 0, "ifft size must be even");     // too late: the initialisers already ran
    }
    const int _n;
    std::shared_ptr<Half> _d;
    const std::vector<cmplx_t> _w;
};
}   // namespace dsplib
