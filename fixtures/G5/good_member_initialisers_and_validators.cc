// EXPECT: clean G5:base_slice_t:empty-array
// EXPECT: clean G5:base_slice_t:zero-step
// EXPECT: clean G5:base_slice_t:start-upper
// EXPECT: clean G5:base_slice_t:stop-upper
// the fields are set in the member-initialiser list, n and m through validators that return their argument; the range tests are
// static predicates tested negated
#define DSPLINT_OWN_BASE_SLICE
#include "minislice.h"
namespace dsplib {
class base_slice_t
{
public:
    explicit base_slice_t(int n, int i1, int i2, int m)
      : _i1{_resolve(i1, _nonempty(n))}
      , _i2{_resolve(i2, n)}
      , _m{_nonzero(m)}
      , _n{n}
      , _nc{(std::abs(_i2 - _i1) + std::abs(_m) - 1) / std::abs(_m)} {
        if (!_is_start(_i1, _n)) {
            DSPLIB_THROW("Left slice index out of range");
        }
        if (!_is_stop(_i2, _n)) {
            DSPLIB_THROW("Right slice index out of range");
        }
        if (!((_m >= 0) || (_i2 <= _i1))) {
            DSPLIB_THROW("First index is smaller for negative step");
        }
        if (!((0 >= _m) || (_i2 >= _i1))) {
            DSPLIB_THROW("First index is greater for positive step");
        }
    }

private:
    static int _nonempty(int n) {
        if (n == 0) {
            DSPLIB_THROW("Slicing from an empty array");
        }
        return n;
    }
    static int _nonzero(int m) {
        if (m == 0) {
            DSPLIB_THROW("Slice stride cannot be zero");
        }
        return m;
    }
    static int _resolve(int idx, int n) noexcept {
        return (idx < 0) ? (n + idx) : idx;
    }
    static bool _is_start(int i, int n) noexcept {
        return (0 <= i) && (i < n);
    }
    static bool _is_stop(int i, int n) noexcept {
        return (0 <= i) && (i <= n);
    }

protected:
    int _i1{0}, _i2{0}, _m{0}, _n{0}, _nc{0};
};
}   // namespace dsplib
