// EXPECT: clean G5:base_slice_t:start-lower
// EXPECT: clean G5:base_slice_t:start-upper
// EXPECT: clean G5:base_slice_t:stop-lower
// EXPECT: clean G5:base_slice_t:stop-upper
// index resolution and the range checks live in static member helpers that receive the resolved index and n
#define DSPLINT_OWN_BASE_SLICE
#include "minislice.h"
namespace dsplib {
class base_slice_t
{
public:
    explicit base_slice_t(int n, int i1, int i2, int m) {
        DSPLIB_ASSERT(0 != n, "Slicing from an empty array");
        DSPLIB_ASSERT(0 != m, "Slice stride cannot be zero");
        _m = m;
        _n = n;
        _i1 = _resolve(n, i1);
        _i2 = _resolve(n, i2);
        _nc = (std::abs(_i2 - _i1) + std::abs(_m) - 1) / std::abs(_m);
        _check_first(_i1, n);
        _check_last(_i2, n);
        if ((_m < 0) && (_i1 < _i2)) {
            DSPLIB_THROW("First index is smaller for negative step");
        }
        if ((_m > 0) && (_i1 > _i2)) {
            DSPLIB_THROW("First index is greater for positive step");
        }
    }

private:
    static int _resolve(int n, int idx) noexcept {
        if (idx >= 0) {
            return idx;
        }
        return n + idx;
    }
    static void _check_first(int idx, int n) {
        DSPLIB_ASSERT((0 <= idx) && (idx < n), "Left slice index out of range");
    }
    static void _check_last(int idx, int n) {
        DSPLIB_ASSERT((0 <= idx) && (n >= idx), "Right slice index out of range");
    }

protected:
    int _i1{0}, _i2{0}, _m{0}, _n{0}, _nc{0};
};
}   // namespace dsplib
