// EXPECT: violated G5:base_slice_t:start-upper
// EXPECT: violated G5:base_slice_t:stop-lower
// EXPECT: violated G5:base_slice_t:pos-step-order
// EXPECT: count 3
#define DSPLINT_OWN_BASE_SLICE
#include "minislice.h"
namespace dsplib {
class base_slice_t
{
public:
    explicit base_slice_t(int n, int i1, int i2, int m) {
        DSPLIB_ASSERT(n != 0, "Slicing from an empty array");
        DSPLIB_ASSERT(m != 0, "Slice stride cannot be zero");
        _m = m;
        _n = n;
        _i1 = (i1 < 0) ? (_n + i1) : (i1);
        _i2 = (i2 < 0) ? (_n + i2) : (i2);
        _nc = (std::abs(_i2 - _i1) + std::abs(_m) - 1) / std::abs(_m);
        if (_i1 < 0) {                       // upper bound of the start forgotten
            DSPLIB_THROW("Left slice index out of range");
        }
        if (_i2 > _n) {                      // lower bound of the stop forgotten
            DSPLIB_THROW("Right slice index out of range");
        }
        if ((_m < 0) && (_i1 < _i2)) {
            DSPLIB_THROW("First index is smaller for negative step");
        }
        if ((_m > 0) && (_i1 > _i2)) {
            _nc = 0;                         // clamps instead of throwing
        }
    }

protected:
    int _i1{0}, _i2{0}, _m{0}, _n{0}, _nc{0};
};
}   // namespace dsplib
