// EXPECT: violated G5:base_slice_t:pos-step-order
// the order check is selected by the sign of the step, but the forward outcome checks nothing
#define DSPLINT_OWN_BASE_SLICE
#include "minislice.h"
namespace dsplib {
class base_slice_t
{
public:
    explicit base_slice_t(int n, int i1, int i2, int m) {
        if (n == 0 || 0 == m) {
            throw std::runtime_error("empty array or zero step");
        }
        _m = m;
        _n = n;
        _i1 = (i1 < 0) ? (_n + i1) : (i1);
        _i2 = (i2 < 0) ? (_n + i2) : (i2);
        DSPLIB_ASSERT(0 <= _i1 && _n > _i1, "Left slice index out of range");
        DSPLIB_ASSERT(!(_i2 <= -1) && !(_n < _i2), "Right slice index out of range");
        _check_direction();
        _nc = (std::abs(_i2 - _i1) + std::abs(_m) - 1) / std::abs(_m);
    }

private:
    void _check_direction() const {
        const bool backward = !(_m > 0);
        if (backward) {
            DSPLIB_ASSERT(_i2 <= _i1, "First index is smaller for negative step");
        }
    }

protected:
    int _i1{0}, _i2{0}, _m{0}, _n{0}, _nc{0};
};
}   // namespace dsplib
