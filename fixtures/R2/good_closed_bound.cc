// EXPECT: clean R2:C12:dsplib::RlsFilter<double>::RlsFilter(int,double,double):forget_factor
// the same hardening with the closed upper bound, written through a helper
#include "mini.h"
namespace dsplib {
template<typename T>
class RlsFilter
{
public:
    explicit RlsFilter(int filter_len, real_t forget_factor = 0.9, real_t diag_load = 1.0)
      : _n{filter_len}
      , _mu{forget_factor} {
        DSPLIB_ASSERT(filter_len > 0, "filter length must be positive");
        DSPLIB_ASSERT((forget_factor > 0) && (forget_factor <= 1), "forgetting factor must be in range (0:1)");
        DSPLIB_ASSERT(diag_load > 0, "diagonal loading must be positive");
    }

private:
    int _n;
    real_t _mu;
};
template class RlsFilter<double>;
}   // namespace dsplib
