// EXPECT: violated R2:C14:dsplib::Tuner::Tuner
#include "mini.h"
#include <cmath>
namespace dsplib {
class Tuner
{
public:
    explicit Tuner(int sample_rate, real_t freq)
      : _fs{sample_rate}
      , _freq{freq} {
        DSPLIB_ASSERT(std::abs(_freq) < (_fs / real_t(2)), "tuner freq must be in range (-fs/2 : fs/2)");
    }

private:
    int _fs;
    real_t _freq;
};
}   // namespace dsplib
