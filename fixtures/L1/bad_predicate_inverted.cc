// EXPECT: violated L1:dsplib::LmsFilter<double>:lock
// the predicate returns the flag itself: the update runs exactly when the coefficients are locked
#include "lmsbase.h"
namespace dsplib {
template<typename T>
class LmsFilter
{
public:
    LMS_COMMON
    bool adapting() const {
        return _locked;
    }
    Result process(const base_array<T>& x, const base_array<T>& d) {
        if (x.size() != d.size()) {
            DSPLIB_THROW("size");
        }
        const int nx = x.size();
        base_array<T> y(nx);
        base_array<T> e(nx);
        for (int k = 0; k < nx; k++) {
            for (int i = 0; i < _len; i++) {
                y[k] += _w[i] * x[k];
            }
            e[k] = d[k] - y[k];
            if (adapting()) {                        // a predicate that returns the negated flag
                update(e[k], x[k]);                 // the write sits in a member helper
            }
        }
        return {y, e};
    }

private:
    void update(T err, T u) {
        for (int i = 0; i < _len; i++) {
            _w[i] = _w[i] + _mu * err * conj(u);
        }
    }
};
template class LmsFilter<double>;
}   // namespace dsplib
