#pragma once
#include "mini.h"
namespace dsplib {
inline real_t conj(real_t v) {
    return v;
}
}   // namespace dsplib
#define LMS_COMMON                                                                                                     \
    struct Result                                                                                                      \
    {                                                                                                                  \
        base_array<T> y;                                                                                               \
        base_array<T> e;                                                                                               \
    };                                                                                                                 \
    void set_lock_coeffs(bool locked) {                                                                                \
        _locked = locked;                                                                                              \
    }                                                                                                                  \
    base_array<T> _u;                                                                                                  \
    base_array<T> _w;                                                                                                  \
    real_t _mu{0.1};                                                                                                   \
    int _len{4};                                                                                                       \
    bool _locked{false};                                                                                               \
    bool _nlms{false};
