// EXPECT: violated L1:dsplib::LmsFilter<double>:lock
#include "lmsbase.h"
namespace dsplib {
template<typename T>
class LmsFilter
{
public:
    LMS_COMMON
    // the local copy is adapted whatever the lock says, and handed back
    Result process(const base_array<T>& x, const base_array<T>& d) {
        if (x.size() != d.size()) {
            DSPLIB_THROW("size");
        }
        const int nx = x.size();
        base_array<T> y(nx);
        base_array<T> e(nx);
        base_array<T> w = _w;
        for (int k = 0; k < nx; k++) {
            for (int i = 0; i < _len; i++) {
                y[k] += w[i] * x[k];
            }
            e[k] = d[k] - y[k];
            _adapt(w, _len, e[k], x[k], _mu);
        }
        _w = w;
        return {y, e};
    }

private:
    static void _adapt(base_array<T>& w, int len, T err, T u, real_t mu) {
        for (int i = 0; i < len; i++) {
            w[i] = w[i] + mu * err * conj(u);
        }
    }
};
template class LmsFilter<double>;
}   // namespace dsplib
