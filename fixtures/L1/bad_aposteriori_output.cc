// EXPECT: violated L1:dsplib::LmsFilter<double>:apriori
// the output is recomputed after the update: y[k] is the a-posteriori output
#include "lmsbase.h"
namespace dsplib {
template<typename T>
class LmsFilter
{
public:
    LMS_COMMON
    Result process(const base_array<T>& x, const base_array<T>& d) {
        if (x.size() != d.size()) {
            DSPLIB_THROW("size");
        }
        const int nx = x.size();
        base_array<T> y(nx);
        base_array<T> e(nx);
        for (int k = 0; k < nx; k++) {
            T acc = 0;
            for (int i = 0; i < _len; i++) {
                acc += _w[i] * x[k];
            }
            e[k] = d[k] - acc;
            if (!_locked) {
                for (int i = 0; i < _len; i++) {
                    _w[i] = _w[i] + _mu * e[k] * conj(x[k]);
                }
            }
            for (int i = 0; i < _len; i++) {
                y[k] += _w[i] * x[k];
            }
        }
        return {y, e};
    }
};
template class LmsFilter<double>;
}   // namespace dsplib
