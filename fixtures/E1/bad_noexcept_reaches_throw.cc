// EXPECT: violated E1:dsplib::slice_like::materialise
// EXPECT: violated E1:dsplib::via_std
#include "mini.h"
namespace dsplib {
struct checked
{
    explicit checked(int n) {
        DSPLIB_ASSERT(n != 0, "empty");
    }
};
struct slice_like
{
    int n;
    checked materialise() const noexcept {   // promises not to throw, constructs a validating object
        return checked(n);
    }
};
// the path runs through an instantiated standard-library body
std::shared_ptr<checked> via_std(int n) noexcept {
    return std::make_shared<checked>(n);
}
}   // namespace dsplib
