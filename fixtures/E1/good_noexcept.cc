// EXPECT: clean E1:dsplib::pure_math
// EXPECT: clean E1:dsplib::calls_nothrow_wrapper
#include "mini.h"
namespace dsplib {
struct checked
{
    explicit checked(int n) {
        DSPLIB_ASSERT(n != 0, "empty");
    }
};
int pure_math(int a, int b) noexcept {
    return a * b + std::abs(a);
}
// validating code is allowed when it does not promise noexcept
checked make_checked(int n) {
    return checked(n);
}
// calling another noexcept function is that function's obligation, not ours
int inner(int n) noexcept {
    return n + 1;
}
int calls_nothrow_wrapper(int n) noexcept {
    return inner(n);
}
}   // namespace dsplib
