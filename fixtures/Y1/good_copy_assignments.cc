// EXPECT: clean
#include "mini.h"
namespace dsplib {
struct Impl
{
    virtual ~Impl() = default;
};
std::shared_ptr<Impl> clone_as(int tag, const std::shared_ptr<Impl>& p);

class Holder
{
public:
    // the tag is taken from the source first, then used
    Holder& operator=(const Holder& rhs) {
        if (this != &rhs) {
            tag_ = rhs.tag_;
            impl_ = clone_as(tag_, rhs.impl_);
        }
        return *this;
    }

private:
    int tag_{0};
    std::shared_ptr<Impl> impl_;
};

class Holder2
{
public:
    // everything comes from the source; the own size only decides whether storage is reused
    Holder2& operator=(const Holder2& rhs) {
        if (this == &rhs) {
            return *this;
        }
        if (buf_.size() != rhs.buf_.size()) {
            buf_ = arr_real(rhs.buf_.size());
        }
        std::copy(rhs.buf_.data(), rhs.buf_.data() + rhs.buf_.size(), buf_.data());
        n_ = rhs.n_;
        return *this;
    }
    // move: the members are exchanged
    Holder2& operator=(Holder2&& rhs) noexcept {
        std::swap(n_, rhs.n_);
        buf_._vec.swap(rhs.buf_._vec);
        return *this;
    }

private:
    int n_{0};
    arr_real buf_;
};
}   // namespace dsplib
