// EXPECT: violated Y1:dsplib::Holder::operator=
#include "mini.h"
namespace dsplib {
struct Impl
{
    virtual ~Impl() = default;
};
std::shared_ptr<Impl> clone_as(int tag, const std::shared_ptr<Impl>& p);

class Holder
{
public:
    // the clone is made with the destination's tag, which is replaced only afterwards
    Holder& operator=(const Holder& rhs) {
        if (this != &rhs) {
            auto p = clone_as(tag_, rhs.impl_);
            impl_ = std::move(p);
            tag_ = rhs.tag_;
        }
        return *this;
    }

private:
    int tag_{0};
    std::shared_ptr<Impl> impl_;
};
}   // namespace dsplib
