// EXPECT: clean
// the divisor is the parameter of a lambda handed to an algorithm: its values are the stored primes, not a caller's argument
#include "mini.h"
#include <algorithm>
#include <cstdint>
#include <vector>
namespace dsplib {
class Gen
{
public:
    Gen()
      : _primes{2, 3, 5, 7} {
    }
    bool is_prime(uint32_t n) const {
        const auto it = std::find_if(_primes.begin(), _primes.end(), [n](uint32_t d) {
            return (uint64_t(d) * d > n) || (n % d == 0);
        });
        return (it == _primes.end()) || (uint64_t(*it) * (*it) > n);
    }

private:
    std::vector<uint32_t> _primes;
};
bool probe(uint32_t n) {
    Gen g;
    return g.is_prime(n);
}
}   // namespace dsplib
