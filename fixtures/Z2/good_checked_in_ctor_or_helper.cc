// EXPECT: clean Z2:dsplib::Decim::process
// EXPECT: clean Z2:dsplib::Interp::branch
// the constructor rejects a non-positive factor itself; the other class leaves it to the table builder it calls with its member
#include "mini.h"
namespace dsplib {
class Decim
{
public:
    explicit Decim(int decim)
      : decim_{decim} {
        DSPLIB_ASSERT(decim > 0, "decimation factor must be positive");
    }
    arr_real process(const arr_real& in) {
        const int nx = in.size();
        DSPLIB_ASSERT(nx % decim_ == 0, "frame length must be a multiple of decim");
        return arr_real(nx / decim_);
    }

private:
    int decim_;
};
static int _branches(int len, int m) {
    DSPLIB_ASSERT(m > 0, "number of branches must be positive");
    return (len + m - 1) / m;
}
class Interp
{
public:
    explicit Interp(int interp, int len)
      : interp_{interp} {
        sub_ = _branches(len, interp_);
    }
    int branch(int k) const {
        return k % interp_;
    }

private:
    int interp_;
    int sub_{0};
};
}   // namespace dsplib
