// EXPECT: clean
// the public function passes its arguments through an internal function that validates them with a helper before the kernel
#include "mini.h"
namespace dsplib {
namespace {
void _check_args(const arr_real& win, int noverlap) {
    const int winlen = win.size();
    if (noverlap >= winlen) {
        DSPLIB_THROW("noverlap must be less than winlen");
    }
}
int _count(const arr_real& x, const arr_real& win, int noverlap) {
    const int N = x.size();
    const int winlen = win.size();
    const int stride = winlen - noverlap;
    return (N - winlen) / stride + 1;
}
int _middle(const arr_real& x, const arr_real& win, int noverlap) {
    _check_args(win, noverlap);
    return _count(x, win, noverlap);
}
}   // namespace
int frames(const arr_real& x, const arr_real& win, int noverlap) {
    return _middle(x, win, noverlap);
}
}   // namespace dsplib
