// EXPECT: clean Z2:dsplib::peakloc
#include "mini.h"
namespace dsplib {
real_t peakloc(const arr_real& x, int idx, bool cyclic) {
    const int n = x.size();
    DSPLIB_ASSERT((idx >= 0) && (idx < n), "peak index out of range");
    if (!cyclic && (idx == 0 || idx == n - 1)) {
        return idx;
    }
    int ml = (idx - 1 + n) % n;
    return ml;
}
}   // namespace dsplib
