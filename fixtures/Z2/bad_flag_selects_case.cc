// EXPECT: violated Z2:dsplib::peakloc
// the only check in front of the modulo is a disjunction selected by a flag: cyclic = 1, idx = 0, an empty array passes it
#include "mini.h"
namespace dsplib {
real_t peakloc(const arr_real& x, int idx, bool cyclic) {
    const int n = x.size();
    if (!cyclic && (idx == 0 || idx == n - 1)) {
        return idx;
    }
    int ml = (idx - 1 + n) % n;
    return ml;
}
}   // namespace dsplib
