// EXPECT: clean Z2:dsplib::frames
#include "mini.h"
namespace dsplib {
int frames(const arr_real& x, const arr_real& win, int overlap) {
    const int nx = x.size();
    const int nwin = win.size();
    const int hop = nwin - overlap;
    DSPLIB_ASSERT(hop > 0, "overlap must be smaller than the window length");
    return (nx - overlap) / hop + (nx % (nwin - overlap));
}
}   // namespace dsplib
