// EXPECT: violated Z2:dsplib::Decim::process
// the decimation factor comes straight from the constructor argument; 0 reaches the remainder
#include "mini.h"
namespace dsplib {
class Decim
{
public:
    explicit Decim(int decim)
      : decim_{decim} {
    }
    arr_real process(const arr_real& in) {
        const int nx = in.size();
        DSPLIB_ASSERT(nx % decim_ == 0, "frame length must be a multiple of decim");
        return arr_real(nx / decim_);
    }

private:
    int decim_;
};
}   // namespace dsplib
