// EXPECT: violated Z2:dsplib::frames
// the hop is a difference of two caller-chosen quantities; nothing keeps it away from zero
#include "mini.h"
namespace dsplib {
int frames(const arr_real& x, const arr_real& win, int overlap) {
    const int nx = x.size();
    const int nwin = win.size();
    return (nx - overlap) / (nwin - overlap);
}
}   // namespace dsplib
