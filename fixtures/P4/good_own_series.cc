// EXPECT: clean P4:library
#include "mini.h"
#include <cmath>
namespace dsplib {
real_t besseli0(real_t x) {
    real_t term = 1, acc = 1;
    for (int k = 1; k < 15; ++k) {
        term *= (x / (2 * k)) * (x / (2 * k));
        acc += term;
    }
    return acc;
}
}   // namespace dsplib
