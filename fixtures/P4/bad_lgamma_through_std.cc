// EXPECT: violated P4:dsplib::besseli0
// std::cyl_bessel_i evaluates its small-argument series with lgamma(), which writes the global signgam
#include "mini.h"
#include <cmath>
namespace dsplib {
real_t besseli0(real_t x) {
    return std::cyl_bessel_i(real_t(0), std::abs(x));
}
}   // namespace dsplib
