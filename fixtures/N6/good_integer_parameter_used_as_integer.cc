// EXPECT: count 0
// an integer parameter that is a count (also used in real arithmetic), and a real parameter: nothing is squeezed
#include "mini.h"
namespace dsplib {
namespace {
real_t _noise_gain(real_t snr) {
    return std::pow(10, -snr / real_t(20));
}
real_t _mean_over(real_t total, int n) {
    real_t acc = 0;
    for (int i = 0; i < n; ++i) {
        acc += total / n;
    }
    return acc / n;
}
}   // namespace
real_t noise_sigma(real_t level, real_t snr, int n) {
    return _mean_over(level * _noise_gain(snr), n);
}
}   // namespace dsplib
