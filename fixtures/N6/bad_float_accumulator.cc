// EXPECT: violated N6:float:dsplib::mean_level
// EXPECT: violated N6:float:dsplib::is_descending
#include "mini.h"
#include <algorithm>
#include <functional>
#include <vector>
namespace dsplib {
real_t mean_level(const arr_real& x) {
    float acc = 0;                          // single-precision running sum of double samples
    for (int i = 0; i < x.size(); ++i) {
        acc += x[i];
    }
    return acc / x.size();
}
bool is_descending(const std::vector<real_t>& x) {
    return std::is_sorted(x.begin(), x.end(), std::greater<float>());
}
}   // namespace dsplib
