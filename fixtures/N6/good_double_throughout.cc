// EXPECT: clean
#include "mini.h"
#include <algorithm>
#include <functional>
#include <vector>
namespace dsplib {
real_t mean_level(const arr_real& x) {
    real_t acc = 0;
    for (int i = 0; i < x.size(); ++i) {
        acc += x[i];
    }
    return acc / x.size();
}
bool is_descending(const std::vector<real_t>& x) {
    return std::is_sorted(x.begin(), x.end(), std::greater<real_t>());
}
}   // namespace dsplib
