// EXPECT: violated N6:dsplib::(anonymousnamespace)::_noise_gain
#include "mini.h"
namespace dsplib {
namespace {
real_t _noise_gain(int snr) {
    return std::pow(10, -snr / real_t(20));
}
}   // namespace
real_t noise_sigma(real_t level, real_t snr) {
    return level * _noise_gain(snr);
}
}   // namespace dsplib
