// EXPECT: violated Q1:dsplib::load
#include "mini.h"
#include <cstdio>
#include <string>
namespace dsplib {
arr_real load(const std::string& file, int count) {
    FILE* fid = fopen(file.c_str(), "rb");
    assert(fid != nullptr);                  // debug-only: compiled out in the shipped build
    arr_real res(count);
    for (int i = 0; i < count; ++i) {
        double v = 0;
        if (fread(&v, sizeof(v), 1, fid) == 1) {
            res[i] = v;
        }
    }
    fclose(fid);
    return res;
}
}   // namespace dsplib
