// EXPECT: clean Q1:dsplib::load
// EXPECT: clean Q1:dsplib::load2
#include "mini.h"
#include <cstdio>
#include <string>
namespace dsplib {
arr_real load(const std::string& file, int count) {
    FILE* fid = fopen(file.c_str(), "rb");
    if (fid == nullptr) {
        DSPLIB_THROW("open file error");
    }
    arr_real res(count);
    for (int i = 0; i < count; ++i) {
        double v = 0;
        if (fread(&v, sizeof(v), 1, fid) == 1) {
            res[i] = v;
        }
    }
    fclose(fid);
    return res;
}
arr_real load2(const std::string& file, int count) {
    FILE* fid = fopen(file.c_str(), "rb");
    arr_real res(count);
    if (!fid) {
        return res;                          // nothing to read
    }
    fclose(fid);
    return res;
}
}   // namespace dsplib
