// EXPECT: violated G3:dsplib::slice_t<double>::operator=(conststd::initializer_list
// EXPECT: count 1
#include "minislice.h"
namespace dsplib {
template<typename T>
class slice_t : public base_slice_t
{
public:
    slice_t(base_array<T>& arr, int i1, int i2, int m)
      : base_slice_t(arr.size(), i1, i2, m)
      , _base{arr} {
    }
    int size() const noexcept {
        return _nc;
    }
    T* begin() noexcept {
        return _base.data() + _i1;
    }
    slice_t& operator=(const base_array<T>& rhs) {
        DSPLIB_ASSERT(this->size() == rhs.size(), "Slices size must be equal");
        std::copy(rhs.data(), rhs.data() + rhs.size(), this->begin());
        return *this;
    }
    slice_t& operator=(const std::initializer_list<T>& rhs) {
        std::copy(rhs.begin(), rhs.end(), this->begin());     // no count guard
        return *this;
    }
    slice_t& operator=(const T& v) {
        std::fill(begin(), begin() + _nc, v);
        return *this;
    }

private:
    base_array<T>& _base;
};
void use(base_array<double>& a, const base_array<double>& b) {
    slice_t<double> s(a, 0, 2, 1);
    s = b;
    s = {1.0, 2.0};
    s = 3.0;
}
}   // namespace dsplib
