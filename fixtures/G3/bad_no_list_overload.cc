// EXPECT: violated G3:dsplib::slice_t<double>:list-overload
// "a brace list converts to an array anyway": true for two or more elements; {v} prefers the scalar fill
#include "minislice.h"
namespace dsplib {
template<typename T>
class slice_t : public base_slice_t
{
public:
    slice_t(base_array<T>& arr, int i1, int i2, int m)
      : base_slice_t(arr.size(), i1, i2, m)
      , _base{arr} {
    }
    int size() const noexcept {
        return _nc;
    }
    T* begin() noexcept {
        return _base.data() + _i1;
    }
    slice_t& operator=(const base_array<T>& rhs) {
        if (rhs.size() != this->size()) {
            throw std::runtime_error("size");
        }
        std::copy(rhs.data(), rhs.data() + rhs.size(), this->begin());
        return *this;
    }
    slice_t& operator=(const T& value) {
        std::fill(this->begin(), this->begin() + _nc, value);
        return *this;
    }

private:
    base_array<T>& _base;
};
void use(base_array<double>& a, const base_array<double>& b) {
    slice_t<double> s(a, 0, 2, 1);
    s = b;
    s = 1.0;
}
}   // namespace dsplib
