// EXPECT: clean N3:dsplib::spearman
#include "mini.h"
namespace dsplib {
real_t spearman(const std::vector<int>& rx, const std::vector<int>& ry) {
    const int n = int(rx.size());
    real_t sq = 0;
    for (int i = 0; i < n; ++i) {
        const real_t d = rx[i] - ry[i];
        sq += d * d;
    }
    const real_t nn = n;
    std::vector<int> buf(2 * n);                    // constant factor, integer context
    const int cells = n * int(buf.size());          // stays an integer
    buf.resize(cells > 0 ? cells : 1);
    return 1 - (6 * sq) / (nn * (nn * nn - 1));
}
}   // namespace dsplib
