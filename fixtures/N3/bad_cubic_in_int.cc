// EXPECT: violated N3:dsplib::spearman
#include "mini.h"
namespace dsplib {
real_t spearman(const std::vector<int>& rx, const std::vector<int>& ry) {
    const int n = int(rx.size());
    real_t sq = 0;
    for (int i = 0; i < n; ++i) {
        const real_t d = rx[i] - ry[i];
        sq += d * d;
    }
    return 1 - (6 * sq) / (n * (n * n - 1));      // n^3 in 32-bit int: wraps at n = 1291
}
}   // namespace dsplib
