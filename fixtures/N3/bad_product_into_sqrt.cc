// EXPECT: violated N3:dsplib::taper
#include "mini.h"
namespace dsplib {
real_t taper(int i, int n) {
    const int last = n - 1;
    return 2 * std::sqrt(i * (last - i)) / last;
}
}   // namespace dsplib
