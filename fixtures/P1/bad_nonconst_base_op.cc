// EXPECT: violated const-op
// an abstract plan interface with a mutating operation: cached shared plans could be modified
#include "mini.h"
namespace dsplib {
class BasePlanX
{
public:
    virtual ~BasePlanX() = default;
    virtual arr_cmplx solve(const arr_cmplx& x) const = 0;
    virtual void retune(int n) = 0;
};
}   // namespace dsplib
