// EXPECT: violated this->_scratch
#include "mini.h"
#include <mutex>
namespace dsplib {
void kernel(const cmplx_t* x, cmplx_t* tmp, int n);
class LatePlan : public BaseFftPlanC
{
public:
    explicit LatePlan(int n)
      : _n{n}
      , _scratch(n) {
    }
    arr_cmplx solve(const arr_cmplx& x) const final {
        kernel(x.data(), _scratch.data(), _n);       // written before the lock is taken
        std::lock_guard<std::mutex> lock(_mtx);
        return _scratch;
    }
    int size() const noexcept final {
        return _n;
    }

private:
    int _n;
    mutable std::mutex _mtx;
    mutable arr_cmplx _scratch;
};
}   // namespace dsplib
