// EXPECT: violated this->_buf
// the scratch hides behind a pointer member: const is shallow, the type checker does not object
#include "mini.h"
namespace dsplib {
void kernel(const cmplx_t* x, cmplx_t* tmp, int n);
class PtrPlan : public BaseFftPlanC
{
public:
    explicit PtrPlan(int n)
      : _n{n}
      , _buf(new cmplx_t[n]) {
    }
    arr_cmplx solve(const arr_cmplx& x) const final {
        DSPLIB_ASSERT(x.size() == _n, "size");
        kernel(x.data(), _buf.get(), _n);
        return arr_cmplx(_buf.get(), _n);
    }
    int size() const noexcept final {
        return _n;
    }

private:
    int _n;
    std::unique_ptr<cmplx_t[]> _buf;
};
}   // namespace dsplib
