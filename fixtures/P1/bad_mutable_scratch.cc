// EXPECT: violated this->_scratch
#include "mini.h"
namespace dsplib {
void kernel(const cmplx_t* x, cmplx_t* tmp, int n);
class ScratchPlan : public BaseFftPlanC
{
public:
    explicit ScratchPlan(int n)
      : _n{n}
      , _scratch(n) {
    }
    arr_cmplx solve(const arr_cmplx& x) const final {
        DSPLIB_ASSERT(x.size() == _n, "size");
        kernel(x.data(), _scratch.data(), _n);
        return _scratch;
    }
    int size() const noexcept final {
        return _n;
    }

private:
    int _n;
    mutable arr_cmplx _scratch;
};
}   // namespace dsplib
