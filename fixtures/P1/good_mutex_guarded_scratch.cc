// EXPECT: clean P1:dsplib::LockedPlan::solve
#include "mini.h"
#include <mutex>
namespace dsplib {
void kernel(const cmplx_t* x, cmplx_t* tmp, int n);
class LockedPlan : public BaseFftPlanC
{
public:
    explicit LockedPlan(int n)
      : _n{n}
      , _scratch(n) {
    }
    arr_cmplx solve(const arr_cmplx& x) const final {
        DSPLIB_ASSERT(x.size() == _n, "size");
        std::lock_guard<std::mutex> lock(_mtx);      // concurrent solves are serialised
        kernel(x.data(), _scratch.data(), _n);
        return _scratch;
    }
    int size() const noexcept final {
        return _n;
    }

private:
    int _n;
    mutable std::mutex _mtx;
    mutable arr_cmplx _scratch;
};
}   // namespace dsplib
