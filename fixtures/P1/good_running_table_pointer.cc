// EXPECT: clean P1:dsplib::WalkPlan::solve
// the twiddle table is read through a local const pointer that the loop advances: the pointer changes, the table does not
#include "mini.h"
namespace dsplib {
class WalkPlan : public BaseFftPlanC
{
public:
    explicit WalkPlan(int n)
      : _n{n}
      , _w(n) {
    }
    arr_cmplx solve(const arr_cmplx& x) const final {
        DSPLIB_ASSERT(x.size() == _n, "size");
        arr_cmplx y(_n);
        const cmplx_t* w = _w.data();
        const cmplx_t* px = x.data();
        cmplx_t* const yend = y.data() + _n;
        for (cmplx_t* py = y.data(); py != yend; ++py, ++px, ++w) {
            py->re = px->re * w->re;
            py->im = px->im * w->im;
        }
        return y;
    }
    int size() const noexcept final {
        return _n;
    }

private:
    int _n;
    arr_cmplx _w;
};
}   // namespace dsplib
