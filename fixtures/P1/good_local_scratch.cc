// EXPECT: clean P1:dsplib::GoodPlan::solve
#include "mini.h"
namespace dsplib {
void kernel(const cmplx_t* x, cmplx_t* tmp, int n);
class GoodPlan : public BaseFftPlanC
{
public:
    explicit GoodPlan(int n)
      : _n{n}
      , _tw(n)
      , _inner{nullptr} {
    }
    arr_cmplx solve(const arr_cmplx& x) const final {
        DSPLIB_ASSERT(x.size() == _n, "size");
        arr_cmplx scratch(_n);              // per-call storage
        kernel(x.data(), scratch.data(), _n);
        const cmplx_t* tw = _tw.data();      // const view of object state
        scratch[0].re += tw[0].re;
        if (_inner) {
            arr_cmplx y = _inner->solve(scratch);   // const operation through a pointer-like member
            y = _inner->solve(y);                   // assigning a by-value result to a local
            return y;
        }
        return scratch;
    }
    int size() const noexcept final {
        return _n;
    }

private:
    int _n;
    arr_cmplx _tw;
    std::shared_ptr<BaseFftPlanC> _inner;
};
}   // namespace dsplib
