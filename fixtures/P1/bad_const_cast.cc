// EXPECT: violated const_cast
#include "mini.h"
namespace dsplib {
class CastPlan : public BaseFftPlanC
{
public:
    explicit CastPlan(int n)
      : _n{n} {
    }
    arr_cmplx solve(const arr_cmplx& x) const final {
        const_cast<CastPlan*>(this)->_calls += 1;
        return x;
    }
    int size() const noexcept final {
        return _n;
    }

private:
    int _n;
    int _calls{0};
};
}   // namespace dsplib
