"""T1 TYPE WITNESSES and T1c VALUE-SEMANTICS  (C03, C04)

T1 compiles generated units with `clang++ -fsyntax-only` against /repo's headers: the C++ type checker is the
analyser, nothing is executed.  One unit per witness (clang reports an error inside a shared template instantiation
only once, so a batch would under-report); a precompiled header keeps each unit at ~0.1 s."""
import hashlib
import os
import re
import shutil
import tempfile
from concurrent.futures import ThreadPoolExecutor

from . import build
from .core import RuleResult, DISCHARGED, VIOLATED, UNMODELLED

ARRAYS = ["arr_real", "arr_cmplx"]
OTHERS = ["arr_real", "arr_cmplx", "real_t", "cmplx_t", "int", "float", "std::complex<double>", "std::complex<float>"]
OPS = ["+", "-", "*", "/"]
OPNAME = {"+": "add", "-": "sub", "*": "mul", "/": "div", "|": "cat"}


def is_cmplx(t):
    return "cmplx" in t or "complex" in t


def is_arr(t):
    return t.startswith("arr_")


def promoted(a, b):
    return "arr_cmplx" if (is_cmplx(a) or is_cmplx(b)) else "arr_real"


def tname(t):
    return t.replace("std::complex<", "stdc_").replace(">", "").replace("::", "_")


PRELUDE = "using namespace dsplib;\n"


def witnesses():
    """[(key, props, kind, source, expect_error_regex, description)]   kind in {'ok', 'fail'}"""
    out = []
    # (a) promotion table: 112 binary pairings
    for op in OPS:
        pairs = []
        for a in ARRAYS:
            for o in OTHERS:
                pairs.append((a, o))
                if not is_arr(o):
                    pairs.append((o, a))
        for (l, r) in pairs:
            exp = promoted(l, r)
            src = PRELUDE + (
                "auto w(const %s& a, const %s& b) { return a %s b; }\n"
                "static_assert(std::is_same_v<decltype(w(std::declval<const %s&>(), std::declval<const %s&>())), %s>,\n"
                "              \"result of %s %s %s must be %s\");\n" % (l, r, op, l, r, exp, l, op, r, exp))
            out.append(("T1:bin:%s:%s:%s" % (OPNAME[op], tname(l), tname(r)), ["C03"], "ok", src, None,
                        "%s %s %s -> %s" % (l, op, r, exp)))
    # (b) compound forms
    for op in OPS:
        for a in ARRAYS:
            for o in OTHERS:
                changes = (a == "arr_real" and is_cmplx(o))
                if changes:
                    src = PRELUDE + "void w(%s& a, const %s& b) { a %s= b; }\n" % (a, o, op)
                    out.append(("T1:compound-rejected:%s:%s:%s" % (OPNAME[op], tname(a), tname(o)), ["C03"], "fail", src,
                                r"the operation changes the type|invalid operands|no viable|no match",
                                "%s %s= %s must not compile (would change the element type)" % (a, op, o)))
                else:
                    src = PRELUDE + (
                        "decltype(auto) w(%s& a, const %s& b) { return (a %s= b); }\n"
                        "static_assert(std::is_same_v<decltype(w(std::declval<%s&>(), std::declval<const %s&>())), %s&>, \"compound result\");\n"
                        % (a, o, op, a, o, a))
                    out.append(("T1:compound:%s:%s:%s" % (OPNAME[op], tname(a), tname(o)), ["C03"], "ok", src, None,
                                "%s %s= %s -> %s&" % (a, op, o, a)))
    # (c) unary
    for a in ARRAYS:
        for u in ["-", "+"]:
            src = PRELUDE + (
                "auto w(const %s& a) { return %sa; }\n"
                "static_assert(std::is_same_v<std::decay_t<decltype(w(std::declval<const %s&>()))>, %s>, \"unary result\");\n" % (a, u, a, a))
            out.append(("T1:unary:%s:%s" % ("neg" if u == "-" else "pos", a), ["C03"], "ok", src, None, "%s%s -> %s" % (u, a, a)))
    # (d) concatenation
    for a in ARRAYS:
        for b in ARRAYS:
            exp = promoted(a, b)
            src = PRELUDE + (
                "auto w(const %s& a, const %s& b) { return a | b; }\n"
                "static_assert(std::is_same_v<decltype(w(std::declval<const %s&>(), std::declval<const %s&>())), %s>, \"concatenation result\");\n"
                % (a, b, a, b, exp))
            out.append(("T1:bin:cat:%s:%s" % (a, b), ["C03"], "ok", src, None, "%s | %s -> %s" % (a, b, exp)))
            if a == "arr_real" and b == "arr_cmplx":
                src = PRELUDE + "void w(%s& a, const %s& b) { a |= b; }\n" % (a, b)
                out.append(("T1:compound-rejected:cat:%s:%s" % (a, b), ["C03"], "fail", src,
                            r"changes the type|invalid operands|no viable|no match|cannot bind|array cast|unrelated type",
                            "%s |= %s must not compile" % (a, b)))
            else:
                src = PRELUDE + "void w(%s& a, const %s& b) { a |= b; }\n" % (a, b)
                out.append(("T1:compound:cat:%s:%s" % (a, b), ["C03"], "ok", src, None, "%s |= %s compiles" % (a, b)))
    # (e) selection results
    for a in ARRAYS:
        src = PRELUDE + (
            "auto w1(const %s& a, const std::vector<bool>& m) { return a[m]; }\n"
            "auto w2(const %s& a, const std::vector<int>& i) { return a[i]; }\n"
            "static_assert(std::is_same_v<decltype(w1(std::declval<const %s&>(), std::declval<const std::vector<bool>&>())), %s>, \"mask selection\");\n"
            "static_assert(std::is_same_v<decltype(w2(std::declval<const %s&>(), std::declval<const std::vector<int>&>())), %s>, \"index selection\");\n"
            % (a, a, a, a, a, a))
        out.append(("T1:select:%s" % a, ["C03"], "ok", src, None, "%s[mask], %s[indices] -> %s" % (a, a, a)))
    # (f) conversions that must not exist
    out.append(("T1:conv-rejected:cmplx-to-real", ["C03"], "fail",
                PRELUDE + "arr_real w(const arr_cmplx& x) { arr_real r = x; return r; }\n",
                r"only real->real, cmplx->cmplx|no viable conversion|static_assert", "arr_real r = arr_cmplx must not compile"))
    out.append(("T1:conv-rejected:float-to-int-array", ["C03"], "fail",
                PRELUDE + "base_array<int> w(const arr_real& x) { base_array<int> r(x); return r; }\n",
                r"only real->real, cmplx->cmplx|static_assert|no matching", "base_array<int>(arr_real) must not compile"))
    # (g) slices: const slices are not assignable, mutable ones are
    out.append(("T1:slice:const-not-assignable:scalar", ["C04"], "fail",
                PRELUDE + "void w(const arr_real& x) { x.slice(0, 1) = 1.0; }\n",
                r"no viable overloaded '='|cannot assign|deleted|no match", "assignment through a const slice must not compile"))
    out.append(("T1:slice:const-not-assignable:array", ["C04"], "fail",
                PRELUDE + "void w(const arr_real& x, const arr_real& y) { x.slice(0, 2) = y; }\n",
                r"no viable overloaded '='|cannot assign|deleted|no match", "assignment of an array through a const slice must not compile"))
    out.append(("T1:slice:mutable-assignable", ["C04"], "ok",
                PRELUDE + "void w(arr_real& x, const arr_real& y, const arr_cmplx& z, arr_cmplx& c) {\n"
                          "    x.slice(0, 2) = y; x.slice(0, 2) = 1.0; x.slice(0, 2) = {1.0, 2.0}; x.slice(0, 2) = y.slice(0, 2);\n"
                          "    x.slice(0, 2) = x.slice(1, 3); c.slice(0, 2) = z.slice(0, 2); }\n",
                None, "assignment through a mutable slice compiles for scalar, array, list and slice sources"))
    out.append(("T1:slice:types", ["C04"], "ok",
                PRELUDE + "static_assert(std::is_same_v<decltype(std::declval<arr_real&>().slice(0, 1)), slice_t<real_t>>, \"mutable slice\");\n"
                          "static_assert(std::is_same_v<decltype(std::declval<const arr_real&>().slice(0, 1)), const_slice_t<real_t>>, \"const slice\");\n"
                          "static_assert(std::is_same_v<decltype(*std::declval<const arr_cmplx&>().slice(0, 1)), arr_cmplx>, \"materialised slice\");\n"
                          "static_assert(std::is_constructible_v<arr_real, const_slice_t<real_t>>, \"array from slice\");\n"
                          "static_assert(!std::is_constructible_v<arr_real, const_slice_t<cmplx_t>>, \"no complex slice -> real array\");\n",
                None, "x.slice on const/non-const arrays yields const_slice_t/slice_t; *slice materialises an array of the same element type"))
    out.append(("T1:slice:cross-type-rejected", ["C04"], "fail",
                PRELUDE + "void w(arr_real& x, const arr_cmplx& z) { x.slice(0, 2) = z.slice(0, 2); }\n",
                r"no viable overloaded '='|no match|no known conversion", "real slice = complex slice must not compile"))
    return out


def _pch(workdir, cfg, root):
    cm = build.parse_cmake(root)
    gen = os.path.join(workdir, "gen")
    build.gen_defs_h(root, cfg, gen, cm)
    flags = [f for f in build.flags_for(root, cfg, gen, cm) if f != "-Wno-everything"] + ["-w"]
    pre = os.path.join(workdir, "pre.h")
    with open(pre, "w") as fh:
        fh.write("#include <dsplib.h>\n#include <complex>\n#include <type_traits>\n#include <utility>\n#include <vector>\n")
    pch = os.path.join(workdir, "pre.pch")
    r = build.sh(["clang++", "-x", "c++-header", pre, "-o", pch] + flags)
    if r.returncode != 0:
        raise build.AnalysisBroken("<dsplib.h> does not compile on its own:\n" + r.stderr[-2000:])
    return pch, flags


def _compile(args):
    path, pch, flags = args
    r = build.sh(["clang++", "-fsyntax-only", "-include-pch", pch, path] + flags)
    return r.returncode, r.stderr


def rule_T1(prog, fixture=False, root=None, cfg=None, table=None):
    res = RuleResult("T1", "type-level witnesses compiled against the repository's headers: every operator x operand-type pairing "
                           "instantiates and has the promoted result type (complex iff either side is complex); type-changing "
                           "compound assignments, complex->real and float->int conversions and assignment through const slices "
                           "do not compile")
    root = root or getattr(prog, "root", None) or build.repo_root()
    cfg = cfg or getattr(prog, "config", None) or build.Config()
    ws = table if table is not None else witnesses()
    cur = getattr(prog, "current_prop", None)
    if cur and table is None:
        ws = [w for w in ws if cur in w[1]]     # only the witnesses reported under the property being checked
    workdir = tempfile.mkdtemp(prefix="t1-", dir=build.BUILD)
    try:
        pch, flags = _pch(workdir, cfg, root)
        jobs = []
        for i, (key, props, kind, src, rx, desc) in enumerate(ws):
            path = os.path.join(workdir, "w%04d.cc" % i)
            with open(path, "w") as fh:
                fh.write(src)
            jobs.append((path, pch, flags))
        with ThreadPoolExecutor(max_workers=min(16, os.cpu_count() or 4)) as ex:
            results = list(ex.map(_compile, jobs))
    finally:
        shutil.rmtree(workdir, ignore_errors=True)
    n_ok = n_fail = 0
    for (key, props, kind, src, rx, desc), (rc, err) in zip(ws, results):
        errs = [l for l in err.splitlines() if " error: " in l]
        first = errs[0].split(" error: ", 1)[1] if errs else ""
        loc = errs[0].split(" error: ", 1)[0] if errs else ""
        m = re.search(r"(include/dsplib/[\w./-]+|lib/[\w./-]+):(\d+)", " ".join(errs))
        where = "%s:%s" % (m.group(1), m.group(2)) if m else "include/dsplib/array.h:0"
        extra = {"props": props, "witness": src.replace(PRELUDE, "").strip()}
        if kind == "ok":
            n_ok += 1
            if rc == 0:
                res.add(key, DISCHARGED, where, desc, "compiles with the expected type", extra=extra)
            else:
                res.add(key, VIOLATED, where, desc, "does not hold: " + "; ".join(e.split(" error: ", 1)[1][:220] for e in errs[:3]),
                        extra=extra)
        else:
            n_fail += 1
            if rc != 0 and rx and re.search(rx, err):
                res.add(key, DISCHARGED, where, desc, "rejected by the compiler: %s" % first[:200], extra=extra)
            elif rc != 0:
                res.add(key, UNMODELLED, where, desc, "rejected, but not with a recognised diagnostic: %s" % first[:200], extra=extra)
            else:
                res.add(key, VIOLATED, "include/dsplib/array.h:0", desc, "compiles although it must be rejected", extra=extra)
    res.stats["witnesses"] = len(ws)
    res.stats["must_compile"] = n_ok
    res.stats["must_fail"] = n_fail
    return res


# =================================================================================================
ARITH_OPS = {"operator+", "operator-", "operator*", "operator/", "operator|", "operator>", "operator<", "operator==",
             "operator!=", "operator[]", "operator()"}
VALUE_CLASSES = re.compile(r"^dsplib::(base_array<.*>|cmplx_t)$")
SLICE_CLASSES = re.compile(r"^dsplib::(const_slice_t<.*>|slice_t<.*>|base_slice_t)$")


def rule_T1c(prog, fixture=False):
    res = RuleResult("T1c", "value semantics of arrays: base_array owns exactly one std::vector by value, user-written copy "
                            "operations copy it, every non-compound operator is a const member or takes its operands by "
                            "value/const reference, and array/complex/slice code contains no mutable member and no const_cast")
    classes = {n: c for n, c in prog.classes.items() if VALUE_CLASSES.match(n) or SLICE_CLASSES.match(n)}
    arrays = {n: c for n, c in classes.items() if n.startswith("dsplib::base_array<")}
    if not arrays:
        res.broken.append("anchor vanished: no instantiation of base_array")
        return res
    for n, c in sorted(arrays.items()):
        where = "%s:%d" % (prog.rel(c["file"]), c["line"])
        fields = c["fields"]
        key = "T1c:%s:storage" % n
        if len(fields) == 1 and fields[0]["ctype"].startswith("std::vector<") and not fields[0]["ref"] and not fields[0]["ptr"]:
            res.add(key, DISCHARGED, where, "%s data members" % n, "single member %s of type %s held by value" % (fields[0]["name"], fields[0]["type"]))
        else:
            res.add(key, VIOLATED, where, "%s data members" % n,
                    "expected exactly one std::vector member held by value, found: %s" % ", ".join("%s %s" % (f["type"], f["name"]) for f in fields))
    for n, c in sorted(classes.items()):
        where = "%s:%d" % (prog.rel(c["file"]), c["line"])
        for fld in c["fields"]:
            if fld["mutable"]:
                res.add("T1c:%s:mutable:%s" % (n, fld["name"]), VIOLATED, "%s:%d" % (prog.rel(c["file"]), fld["line"]),
                        "%s::%s" % (n, fld["name"]), "mutable member in a value class: const operators could modify their operands")
        if not (VALUE_CLASSES.match(n)):
            continue
        for m in c["methods"]:
            if m["name"] not in ARITH_OPS or m["static"] or m["kind"] != "method":
                continue
            sig = m.get("sig", "")
            # compound operators and the mutable accessors (T& operator[](int), slice on non-const) are non-const by design
            key = "T1c:%s::%s:%s" % (n, m["name"], sig.replace(" ", ""))
            mw = "%s:%d" % (prog.rel(c["file"]), m["line"])
            if m["const"]:
                res.add(key, DISCHARGED, mw, "%s::%s %s" % (n, m["name"], sig), "const member: cannot modify its left operand")
            else:
                ret = sig.split("(")[0].strip()
                if m["name"] in ("operator[]", "operator()") and ret.endswith("&") and "const" not in ret:
                    res.add(key, DISCHARGED, mw, "%s::%s %s" % (n, m["name"], sig), "mutable element accessor (returns T&), not an arithmetic operator")
                else:
                    res.add(key, VIOLATED, mw, "%s::%s %s" % (n, m["name"], sig), "non-compound operator is not a const member: it may modify its left operand")
    # free operators
    for f in sorted(prog.functions.values(), key=lambda f: (f.file, f.line, f.name)):
        nm = f.qn.rsplit("::", 1)[-1]
        if f.cls or f.get("lambda") or nm in ("operator()", "operator[]") or nm not in ARITH_OPS or not f.qn.startswith("dsplib::"):
            continue
        if not any("base_array<" in p.get("t", "") or "cmplx_t" in p.get("t", "") for p in f.params):
            continue
        key = "T1c:free:" + f.name.replace(" ", "") + "(" + ",".join(p.get("t", "").replace(" ", "") for p in f.params) + ")"
        bad = [p for p in f.params if (p.get("ref") or p.get("ptr")) and not p.get("pointee_const")]
        where = "%s:%d" % (prog.rel(f.file), f.line)
        if bad:
            res.add(key, VIOLATED, where, f.short, "operand %s is taken by non-const reference" % bad[0]["n"])
        else:
            res.add(key, DISCHARGED, where, f.short, "operands taken by value / const reference")
    # copy operations copy the vector
    for f in sorted(prog.functions.values(), key=lambda f: (f.file, f.line, f.name)):
        if not (f.cls and f.cls.startswith("dsplib::base_array<")) or f.get("implicit"):
            continue
        if f.kind == "copy_ctor":
            src = f.params[0]["n"]
            ok = False
            for ci in f.ctor_inits():
                if ci.get("member") == "_vec" and ci.c:
                    for x in ci.c[0].walk():
                        if x.k == "MemberExpr" and x.decl and x.decl.get("n") == "_vec" and x.c and x.c[0].strip_all().k == "DeclRefExpr" \
                                and x.c[0].strip_all().decl.get("n") == src:
                            ok = True
            key = "T1c:%s:copy-ctor" % f.cls
            where = "%s:%d" % (prog.rel(f.file), f.line)
            if ok:
                res.add(key, DISCHARGED, where, f.short + " (copy)", "copies the source's _vec: the copy is independent storage")
            else:
                res.add(key, VIOLATED, where, f.short + " (copy)", "user-written copy constructor does not copy the source's _vec")
    # const_cast in the value headers
    for f in prog.functions.values():
        rel = prog.rel(f.file)
        if not re.search(r"include/dsplib/(array|types|slice|iterator)\.h$", rel) and not fixture:
            continue
        for x in f.walk():
            if x.k == "CXXConstCastExpr":
                res.add("T1c:const_cast:" + f.name.replace(" ", ""), VIOLATED, "%s:%d" % (rel, x.line), f.short,
                        "const_cast in value-type code: %s" % x.text())
    res.stats["classes"] = sorted(classes)
    return res


def selftest_T1():
    """fixture runner for T1: the '+' promotion table against two miniature header trees under fixtures/T1"""
    from .core import VERIF
    tab = [w for w in witnesses() if w[0].startswith("T1:bin:add")]
    out = []
    for name, expect_bad in (("repo_good", False), ("repo_bad", True)):
        root = os.path.join(VERIF, "fixtures", "T1", name)
        r = rule_T1(None, root=root, table=tab, cfg=build.Config())
        viol = [o.key for o in r.obs if o.verdict == VIOLATED]
        if expect_bad:
            ok = "T1:bin:add:arr_real:stdc_double" in viol and "T1:bin:add:arr_real:cmplx_t" not in viol
            why = "" if ok else "expected the std::complex pairings (and only those) to be reported, got %s" % viol
        else:
            ok = not viol
            why = "" if ok else "expected silence, got %s" % viol
        out.append({"fixture": "fixtures/T1/%s" % name, "ok": ok, "why": why, "violations": viol, "obligations": len(r.obs)})
    return out


# =================================================================================================
COMPOUND = {"operator+=", "operator-=", "operator*=", "operator/="}


def rule_S1(prog, fixture=False):
    """SELF-ALIAS: x /= x[0], z *= z.re"""
    from .flow import Flow
    from .rules_state import fkey
    res = RuleResult("S1", "a compound operator that takes its scalar operand by reference reads it only before its first write to "
                           "the left operand: the operand may be an element (or a component) of the left operand itself")
    n_ops = 0
    for f in sorted(prog.functions.values(), key=lambda f: (f.file, f.line, f.name)):
        if not f.cls or not VALUE_CLASSES.match(f.cls) or f.qn.rsplit("::", 1)[-1] not in COMPOUND or len(f.params) != 1:
            continue
        p = f.params[0]
        if not p.get("ref"):
            continue
        pt = (p.get("t") or "").replace("const ", "").replace("&", "").strip()
        if "base_array<" in pt or "std::vector<" in pt or "slice_t<" in pt:
            continue        # element-wise array forms read rhs[i] before writing lhs[i]: a += a is well defined
        elem = None
        m = re.match(r"^dsplib::base_array<(.*)>$", f.cls)
        if m:
            elem = m.group(1)
        may_alias = False
        if f.cls == "dsplib::cmplx_t":
            may_alias = pt in ("dsplib::cmplx_t", "double", "float")
        elif elem is not None:
            may_alias = (pt == elem) or (elem == "dsplib::cmplx_t" and pt in ("double", "float"))
        n_ops += 1
        key = "S1:" + fkey(f)
        where = "%s:%d" % (prog.rel(f.file), f.line)
        what = "%s(%s)" % (f.short, p.get("t", "").replace("dsplib::", ""))
        extra = {"props": ["C03"]}
        if not may_alias:
            res.add(key, DISCHARGED, where, what, "operand type %s cannot alias the storage of the left operand" % pt, func=f.name, extra=extra)
            continue
        flow = Flow(f, prog)
        writes, reads = [], []
        for n in f.walk():
            lhs = None
            if n.k in ("BinaryOperator", "CompoundAssignOperator") and n.op and n.op.endswith("=") and n.op not in ("==", "!=", "<=", ">=") and n.c:
                lhs = n.c[0]
            elif n.k == "CXXOperatorCallExpr" and n.op and n.op.endswith("=") and n.op not in ("==", "!=", "<=", ">=") and len(n.c) > 1:
                lhs = n.c[1]
            elif n.k == "UnaryOperator" and n.op in ("++", "--") and n.c:
                lhs = n.c[0]
            if lhs is not None and any(r[0] == "this" for r in flow.root(lhs)):
                writes.append(n)
            if n.k == "DeclRefExpr" and n.decl and n.decl.get("k") == "parm" and n.decl.get("n") == p["n"]:
                reads.append(n)
        bad = None
        f.blocks
        for w in writes:
            wl = f.block_of(w)
            if wl is None:
                continue
            reach = f.reachable(wl[0])
            # blocks reachable through at least one edge (a block reaches itself only via a cycle)
            after = set()
            for s_ in f.blocks[wl[0]].succs:
                if s_ is not None:
                    after |= f.reachable(s_)
            for r in reads:
                rl = f.block_of(r)
                if rl is None:
                    continue
                if (rl[0] == wl[0] and rl[1] > wl[1]) or rl[0] in after:
                    bad = (w, r)
                    break
            if bad:
                break
        if bad:
            w, r = bad
            res.add(key, VIOLATED, "%s:%d" % (prog.rel(f.file), r.line), what,
                    "'%s' is read (line %d) after the left operand has been written (%s, line %d); when the operand is an element or "
                    "component of the left operand itself (x /= x[0], z *= z.re) later elements see the modified value"
                    % (p["n"], r.line, w.text(), w.line), func=f.name, extra=extra)
        else:
            res.add(key, DISCHARGED, where, what, "every read of '%s' precedes the first write to the left operand" % p["n"], func=f.name, extra=extra)
    # S1b: an array operand taken by reference is not read after the left operand's storage was re-allocated (a |= a)
    REALLOC = {"resize", "insert", "assign", "reserve", "push_back", "emplace_back", "clear", "shrink_to_fit", "erase", "swap"}
    n_arr = 0
    for f in sorted(prog.functions.values(), key=lambda f: (f.file, f.line, f.name)):
        m = re.match(r"^dsplib::base_array<(.*)>$", f.cls or "")
        if not m or f.get("implicit") or f.kind != "method" or f.get("const"):
            continue
        elem = m.group(1)
        for p in f.params:
            pt = (p.get("t") or "").replace("const ", "").replace("&", "").strip()
            if not p.get("ref") or pt != "dsplib::base_array<%s>" % elem:
                continue
            f.blocks
            reallocs, reads = [], []
            for n in f.walk():
                if n.k == "CXXMemberCallExpr" and n.callee and n.call_object() is not None:
                    o = n.call_object().strip_all()
                    nm = (n.callee.get("qn") or "").rsplit("::", 1)[-1]
                    if o.k == "MemberExpr" and o.decl and o.decl.get("k") == "field" and (not o.c or o.c[0].strip_all().k == "CXXThisExpr") \
                            and nm in REALLOC and "std::vector" in (n.callee.get("cls") or ""):
                        reallocs.append(n)
                if n.k == "DeclRefExpr" and n.decl and n.decl.get("k") == "parm" and n.decl.get("n") == p["n"]:
                    reads.append(n)
            if not reallocs:
                continue
            n_arr += 1
            key = "S1:" + fkey(f) + ":realloc"
            where = "%s:%d" % (prog.rel(f.file), f.line)
            what = "%s(%s)" % (f.short, p.get("t", "").replace("dsplib::", ""))
            extra = {"props": ["C03"]}
            guarded = any(("this" in fa.cond.text() and p["n"] in fa.cond.text()) for r in reads for fa in f.facts_at(r) if not fa.belief)
            bad = None
            for w in reallocs:
                wl = f.block_of(w)
                if wl is None:
                    continue
                after = set()
                for s_ in f.blocks[wl[0]].succs:
                    if s_ is not None:
                        after |= f.reachable(s_)
                for r in reads:
                    if any(a.id == w.id for a in r.ancestors()):
                        continue        # an argument of the re-allocating call itself: evaluated before it runs
                    # a *fresh* start of the operand's storage is valid also after the re-allocation (rhs.begin(), rhs.data(),
                    # rhs[k]): what must not be used any more is its extent - end(), size(), a range-for - and anything taken before
                    par = r.parent
                    while par is not None and par.k in ("ImplicitCastExpr", "ParenExpr", "MemberExpr"):
                        par = par.parent
                    if par is not None and par.k == "CXXMemberCallExpr" and par.call_object() is not None and par.call_object().strip_all().id == r.id \
                            and ((par.callee or {}).get("qn") or "").rsplit("::", 1)[-1] in ("begin", "cbegin", "data"):
                        continue
                    rl = f.block_of(r)
                    if rl is not None and ((rl[0] == wl[0] and rl[1] > wl[1]) or rl[0] in after):
                        bad = (w, r)
                        break
                if bad:
                    break
            if bad and not guarded:
                w, r = bad
                res.add(key, VIOLATED, "%s:%d" % (prog.rel(f.file), r.line), what,
                        "'%s' is read (line %d) after %s has re-allocated the left operand's storage (line %d): when the operand is the "
                        "left operand itself (a |= a) its iterators and size are those of the *resized* array and the copy runs past "
                        "the buffer" % (p["n"], r.line, w.text()[:50], w.line), func=f.name, extra=extra)
            else:
                res.add(key, DISCHARGED, where, what, "the operand is only read as an argument of the re-allocating call, before it runs" if not guarded
                        else "guarded by an identity test", func=f.name, extra=extra)
    res.stats["array_operators_that_reallocate"] = n_arr
    res.stats["compound_scalar_operators"] = n_ops
    if n_ops == 0 and not fixture:
        res.broken.append("anchor vanished: no compound scalar operator of base_array / cmplx_t instantiated")
    return res


# =================================================================================================
# T2 OPERAND-ORDER: the non-commutative binary operators keep their operands in the order they were given  (C03)
def rule_T2(prog, fixture=False):
    from .flow import Flow
    from .rules_state import fkey
    res = RuleResult("T2", "inside every free operator-(a, b) and operator/(a, b) of the array vocabulary, each '-' ('/') expression that "
                           "combines a value derived from a only with a value derived from b only has the a-side on the left: a helper "
                           "that delegates to the mirrored overload (return b - T(a);) computes b - a")
    n = 0
    for f in sorted(prog.functions.values(), key=lambda f: (f.file, f.line, f.name)):
        nm = f.qn.rsplit("::", 1)[-1]
        if nm not in ("operator-", "operator/") or f.cls or len(f.params) != 2 or f.get("implicit") or f.file.endswith("coverage.cc"):
            continue
        rel = prog.rel(f.file)
        if not fixture and not re.search(r"include/dsplib/(array|types)\.h$", rel):
            continue
        op = nm[-1]
        flow = Flow(f, prog)
        a, b = f.params[0]["n"], f.params[1]["n"]
        n += 1
        key = "T2:" + fkey(f)
        where = "%s:%d" % (rel, f.line)
        what = "%s(%s, %s)" % (f.short, (f.params[0].get("t") or "").replace("dsplib::", ""), (f.params[1].get("t") or "").replace("dsplib::", ""))
        bad, seen = None, 0
        for x in f.walk():
            kids = None
            if x.k == "BinaryOperator" and x.op == op and len(x.c) == 2:
                kids = x.c
            elif x.k == "CXXOperatorCallExpr" and x.op == op and len(x.c) == 3:
                kids = x.c[1:]
            elif x.k == "CXXMemberCallExpr" and x.callee and (x.callee.get("qn") or "").endswith("operator" + op) and x.call_object() is not None and len(x.call_args()) == 1:
                kids = [x.call_object(), x.call_args()[0]]
            if kids is None:
                continue
            dl = {d[1] for d in flow.deps(kids[0]) if d[0] == "parm"}
            dr = {d[1] for d in flow.deps(kids[1]) if d[0] == "parm"}
            if dl == {a} and dr == {b}:
                seen += 1
            elif dl == {b} and dr == {a}:
                bad = x
        if bad is not None:
            res.add(key, VIOLATED, "%s:%d" % (rel, bad.line), what,
                    "%s has the second operand '%s' on the left and the first operand '%s' on the right: the result is b %s a" % (
                        bad.text()[:70], b, a, op), func=f.name, extra={"props": ["C03"]})
        elif seen:
            res.add(key, DISCHARGED, where, what, "%d '%s' expression(s) keep the operand order" % (seen, op), func=f.name, extra={"props": ["C03"]})
        else:
            res.add(key, UNMODELLED, where, what, "no '%s' expression that separates the two operands (delegation through a copy / compound form)" % op,
                    func=f.name, extra={"props": ["C03"]})
    res.stats["free_noncommutative_operators"] = n
    if not n and not fixture:
        res.broken.append("anchor vanished: no free operator- / operator/ in array.h / types.h")
    return res
