"""check driver: property -> rules -> obligations -> verdict, evidence, replay files"""
import glob
import hashlib
import json
import os
import re
import sys
import time
from concurrent.futures import ThreadPoolExecutor

from . import build, core, ir
from .build import AnalysisBroken
from .core import DISCHARGED, VIOLATED, UNMODELLED, INHERITS

FIXTURES = os.path.join(core.VERIF, "fixtures")


def registry():
    from . import props
    return props.PROPS, props.RULES


# ------------------------------------------------------------------------------------------------
def extract_fixture(path):
    build.build_tool()
    with open(path, "rb") as fh:
        h = hashlib.sha256(fh.read())
    for inc in sorted(glob.glob(os.path.join(FIXTURES, "**", "*.h"), recursive=True)):
        with open(inc, "rb") as fh:
            h.update(fh.read())
    h.update(str(os.path.getmtime(build.TOOL_BIN)).encode())
    d = os.path.join(build.BUILD, "fixture-facts")
    os.makedirs(d, exist_ok=True)
    out = os.path.join(d, h.hexdigest()[:24] + ".json")
    if not os.path.exists(out):
        tmp = out + ".tmp.%d" % os.getpid()
        cmd = [build.TOOL_BIN, "--root=" + FIXTURES, "--out=" + tmp, path, "--", "-std=c++17", "-UNDEBUG",
               "-I" + FIXTURES, "-Wno-everything", "-resource-dir", build.resource_dir_cached()]
        r = build.sh(cmd)
        if not os.path.exists(tmp):
            raise AnalysisBroken("fixture %s: dsplint failed: %s" % (path, r.stderr[-1500:]))
        j = json.load(open(tmp))
        if j.get("diags"):
            raise AnalysisBroken("fixture %s does not parse: %s" % (path, j["diags"][0]))
        os.replace(tmp, out)
    return out


def run_fixtures(rule_name, rule_fn):
    """every rule must report its positive fixtures and stay silent on the look-alike negatives"""
    results = []
    paths = sorted(glob.glob(os.path.join(FIXTURES, rule_name, "*.cc")))
    for p in paths:
        exp = []
        for line in open(p):
            m = re.match(r"//\s*EXPECT:\s*(\w+)\s*(.*)", line)
            if m:
                exp.append((m.group(1), m.group(2).strip()))
        facts = extract_fixture(p)
        prog = ir.Program.load([facts])
        res = rule_fn(prog, fixture=True)
        viol = [o for o in res.obs if o.verdict == VIOLATED]
        ok = True
        why = ""
        for (kind, arg) in exp:
            if kind == "clean":
                if viol:
                    ok = False
                    why = "expected silence, got %s" % [o.key for o in viol]
                if arg and not any(arg in o.key for o in res.obs if o.verdict == DISCHARGED):
                    ok = False
                    why += " expected a discharged obligation matching %r" % arg
            elif kind == "violated":
                if not any(arg in o.key for o in viol):
                    ok = False
                    why = "expected a violation matching %r, got %s" % (arg, [o.key for o in viol])
            elif kind == "count":
                if len(viol) != int(arg):
                    ok = False
                    why = "expected %s violations, got %s" % (arg, [o.key for o in viol])
        if not exp:
            ok = False
            why = "fixture has no EXPECT line"
        results.append({"fixture": os.path.relpath(p, core.VERIF), "ok": ok, "why": why,
                        "violations": [o.key for o in viol], "obligations": len(res.obs)})
    return results


# ------------------------------------------------------------------------------------------------
def analyse(prop, tier="quick", root=None, quiet=False):
    PROPS, RULES = registry()
    spec = PROPS[prop]
    t0 = time.time()
    root = root or build.repo_root()
    configs = [build.Config()]
    if tier == "thorough":
        configs = []
        for f32 in (False, True):
            for noexc in (False, True):
                for cs in (None, 1, 2):
                    configs.append(build.Config(float32=f32, no_exceptions=noexc, cache_size=cs))
    all_obs = {}      # key -> Ob  (violated wins over unmodelled wins over discharged)
    rule_results = {}
    cfg_infos = []
    broken = []
    rank = {VIOLATED: 3, INHERITS: 2, UNMODELLED: 1, DISCHARGED: 0}
    for cfg in configs:
        files, info = build.extract(cfg=cfg, root=root)
        prog = ir.Program.load(files)
        prog.extract_info = info
        prog.config = cfg
        prog.current_prop = prop
        cfg_infos.append({"config": cfg.name, "units": len(info["units"]), "functions": len(prog.functions),
                          "classes": len(prog.classes), "tolerated_diags": sum(len(v) for v in info["tolerated_diags"].values())})
        for rname in spec["rules"]:
            try:
                res = RULES[rname](prog)
            except AnalysisBroken:
                raise
            except Exception as ex:      # an engine error is "analysis broken" (exit 2), never a verdict and never a traceback
                import traceback
                from .core import RuleResult
                tb = traceback.extract_tb(ex.__traceback__)[-1]
                res = RuleResult(rname, "rule crashed")
                res.broken.append("rule %s raised %s: %s (%s:%d)" % (rname, type(ex).__name__, ex, os.path.basename(tb.filename), tb.lineno))
            rule_results.setdefault(rname, []).append((cfg.name, res))
            for m in res.broken:
                broken.append("%s [%s]: %s" % (rname, cfg.name, m))
            for o in res.obs:
                if prop not in _props_of(o, spec):
                    continue
                old = all_obs.get(o.key)
                if old is None or rank[o.verdict] > rank[old.verdict]:
                    o.extra.setdefault("config", cfg.name)
                    all_obs[o.key] = o
    # fixtures
    fixture_results = []
    from . import props as _props
    for rname in spec["rules"]:
        if rname in getattr(_props, "SELFTESTS", {}):
            fr = _props.SELFTESTS[rname]()
        else:
            fr = run_fixtures(rname, RULES[rname])
        if not fr:
            broken.append("rule %s has no fixture" % rname)
        for r in fr:
            if not r["ok"]:
                broken.append("fixture %s misbehaves: %s" % (r["fixture"], r["why"]))
        fixture_results += fr
    # floors
    floors = core.load_floors()
    counts = {}
    for rname in spec["rules"]:
        cfgname, res = rule_results[rname][0]
        mine = [o for o in res.obs if prop in _props_of(o, spec)]
        counts[rname] = len(mine)
        fl = floors.get(prop, {}).get(rname)
        if fl is not None and len(mine) < fl:
            # a violated obligation takes precedence over a floor
            broken.append("rule %s matched %d instances, below the floor %d confirmed by hand" % (rname, len(mine), fl))
    return {"prop": prop, "tier": tier, "obs": all_obs, "rule_results": rule_results, "configs": cfg_infos,
            "broken": broken, "fixtures": fixture_results, "counts": counts, "wall": time.time() - t0, "spec": spec,
            "root": root}


def _props_of(o, spec):
    """a rule may serve several properties; an obligation can restrict itself via extra['props']"""
    p = o.extra.get("props")
    if p:
        return p
    return [spec["id"]]


def run_check(prop, tier="quick", root=None):
    PROPS, RULES = registry()
    if prop not in PROPS:
        print("unknown or unclaimed property %s" % prop)
        return 2
    t0 = time.time()
    try:
        a = analyse(prop, tier, root)
    except AnalysisBroken as e:
        print("ANALYSIS-BROKEN property=%s %s" % (prop, e))
        return 2
    spec = a["spec"]
    obs = list(a["obs"].values())
    findings, fixed = core.load_known_findings()
    known = {(f["rule"], f["key"]): f for f in findings if f["property"] == prop}
    viol = [o for o in obs if o.verdict == VIOLATED]
    new_viol = []
    known_hit = []
    for o in sorted(viol, key=lambda o: o.key):
        k = (o.rule, o.key)
        if k in known:
            known_hit.append((o, known[k]))
        else:
            new_viol.append(o)
    context = {"tier": tier, "repo": a["root"]}
    # report
    print("== %s %s  (%s) ==" % (prop, spec["title"], tier))
    for c in a["configs"]:
        print("analysed config %(config)s: %(units)d units, %(functions)d function bodies, %(classes)d classes" % c)
    for rname in spec["rules"]:
        cfgname, res = a["rule_results"][rname][0]
        mine = [o for o in obs if o.rule == rname]
        print("rule %-4s %d obligations: %d discharged, %d violated, %d unmodelled" % (
            rname, len(mine), sum(o.verdict == DISCHARGED for o in mine), sum(o.verdict == VIOLATED for o in mine),
            sum(o.verdict == UNMODELLED for o in mine)))
    nfix_ok = sum(1 for f in a["fixtures"] if f["ok"])
    print("fixtures: %d/%d behave" % (nfix_ok, len(a["fixtures"])))
    for (o, f) in known_hit:
        print("KNOWN-FINDING: property=%s rule=%s %s — %s (%s)" % (prop, o.rule, o.what, f["what"], o.where))
    replay_paths = []
    for o in new_viol:
        p = core.write_replay(prop, o, context)
        replay_paths.append(p)
        print("VIOLATION property=%s replay=%s" % (prop, p))
        print("   rule %s at %s: %s" % (o.rule, o.where, o.what))
        print("   %s" % o.reason)
    rc = 0
    if new_viol:
        rc = 1
    elif a["broken"]:
        rc = 2
    for m in a["broken"]:
        print("ANALYSIS-BROKEN property=%s %s" % (prop, m))
    catalogue = None
    if tier == "thorough":
        catalogue = run_catalogue(prop)
        for c in catalogue:
            print("catalogue %-10s %-40s expected=%-8s got=%-8s %s" % (c["kind"], c["name"][:40], c["expected"], c["got"], "" if c["ok"] else "MISMATCH"))
    # evidence
    samples = []
    for o in sorted(obs, key=lambda o: (o.verdict != VIOLATED, o.rule, o.key))[:400]:
        samples.append(o.to_json())
    n_dis = sum(o.verdict == DISCHARGED for o in obs)
    n_unm = sum(o.verdict == UNMODELLED for o in obs)
    rule_templates = {}
    rule_stats = {}
    for rname in spec["rules"]:
        cfgname, res = a["rule_results"][rname][0]
        rule_templates[rname] = res.template
        rule_stats[rname] = res.stats
    coverage = {
        "explanation": spec["explanation"],
        "clause_decided": spec["clause"],
        "not_decided": spec["not_decided"],
        "rules": rule_templates,
        "rule_stats": rule_stats,
        "obligations": len(obs),
        "discharged": n_dis,
        "violated": len(viol),
        "violated_known_findings": len(known_hit),
        "unmodelled": n_unm,
        "evaluations": len(obs),
        "distinct_nontrivial": len({o.key for o in obs}),
        "rule": "one obligation per rule instance (function, call site, variable, expression or type pairing) found in "
                "the resolved program of /repo's current working tree; distinct = distinct obligation keys",
        "instances_per_rule": a["counts"],
        "configurations": a["configs"],
        "fixtures": a["fixtures"],
        "samples": samples,
        "exhaustive": True,
        "analysis_broken": a["broken"],
        "catalogue": catalogue,
        "checker_cmd": "bin/check %s" % prop,
        "trusted_base": ["clang 14 front end, CFG construction and USR generation", "libstdc++ container/shared_ptr semantics",
                         "rule tables under /verif/rules and /verif/dsplint"],
    }
    assumptions = list(spec.get("assumptions", [])) + [
        "the verdict is about the named structural clause only; numerical behaviour is not decided",
        "clang 14 AST/CFG of the translation units listed under configurations is faithful to the build (flags mirror CMakeLists.txt, -UNDEBUG keeps assert() visible as a belief)",
    ]
    core.write_evidence(prop, tier, "other", coverage, assumptions, time.time() - t0, len(new_viol))
    print("%s: %s  (%.1fs)" % (prop, {0: "holds on everything analysed", 1: "VIOLATED", 2: "analysis broken"}[rc], time.time() - t0))
    return rc


def run_catalogue(prop):
    """thorough tier, evidence only: (a) every repaired defect of this property, re-introduced on a scratch copy by reverting
    its fix commit, must be reported again; (b) every confirmed seeded change of this property that the checks are known to
    catch must still be caught; (c) every behaviour-preserving variant that touches this property's rules must stay silent"""
    import glob
    from . import mutants
    out = []
    for (p, commit, what) in mutants.fixed_commits():
        if p != prop:
            continue
        patch = mutants.revert_patch(commit)
        if patch is None:
            out.append({"kind": "regression", "name": "revert " + commit, "expected": "reported", "got": "skipped", "ok": True, "what": what[:160]})
            continue
        r = mutants.try_patch(patch, [prop], reverse=True)
        got = "skipped" if not r["applied"] else ("reported" if r["results"][prop]["rc"] == 1 else "silent")
        out.append({"kind": "regression", "name": "revert " + commit, "expected": "reported", "got": got, "ok": got in ("reported", "skipped"),
                    "what": what[:160], "obligations": [v[1] for v in r.get("results", {}).get(prop, {}).get("violations", [])][:6]})
    for mp in sorted(glob.glob(os.path.join(core.VERIF, "seeded", "*", "meta.json"))):
        meta = json.load(open(mp))
        if meta.get("breaks_property") != prop:
            continue
        exp = "reported" if meta.get("detection", {}).get("detected_under_own_property") else "missed"
        patch = open(os.path.join(os.path.dirname(mp), "patch.diff"), "rb").read()
        r = mutants.try_patch(patch, [prop])
        got = "skipped" if not r["applied"] else ("reported" if r["results"][prop]["rc"] == 1 else "missed")
        out.append({"kind": "seeded", "name": meta["id"], "expected": exp, "got": got, "ok": got == exp or got == "skipped" or (exp == "missed" and got == "reported"),
                    "obligations": [v[1] for v in r.get("results", {}).get(prop, {}).get("violations", [])][:6]})
    for bp in sorted(glob.glob(os.path.join(core.VERIF, "mutants", "benign", "*.diff")) + glob.glob(os.path.join(core.VERIF, "mutants", "benign_agents", "*.diff"))):
        txt = open(bp, "rb").read()
        m = re.search(r"# props: (.*)", txt.decode(errors="replace"))
        if not m or prop not in m.group(1).split():
            continue
        body = txt[txt.index(b"diff --git"):] if b"diff --git" in txt else txt[txt.index(b"--- a/"):]
        r = mutants.try_patch(body, [prop])
        got = "skipped" if not r["applied"] else ("silent" if r["results"][prop]["rc"] == 0 else "alarm")
        out.append({"kind": "benign", "name": os.path.basename(bp)[:-5], "expected": "silent", "got": got, "ok": got in ("silent", "skipped")})
    return out


def main(argv):
    import argparse
    ap = argparse.ArgumentParser()
    ap.add_argument("prop")
    ap.add_argument("--tier", default=os.environ.get("VERIF_TIER", "quick"), choices=["quick", "thorough"])
    ap.add_argument("--root", default=None)
    ap.add_argument("--replay", default=None)
    args = ap.parse_args(argv)
    if args.replay:
        j = json.load(open(args.replay))
        print(json.dumps(j, indent=1))
        # re-run the property's check and show whether this obligation is still violated
        a = analyse(j["property"], "quick", args.root)
        o = a["obs"].get(j["key"])
        if o is None:
            print("replay: obligation %s no longer exists" % j["key"])
            return 2
        print("replay: %s is now %s — %s" % (o.key, o.verdict, o.reason))
        return 1 if o.verdict == VIOLATED else 0
    return run_check(args.prop, args.tier, args.root)
