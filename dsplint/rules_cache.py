"""K1 CACHE-KEY / OWNERSHIP, K2 LRU-PAIRING, K3 CAPACITY  (C10)"""
import re

from . import build
from .core import RuleResult, DISCHARGED, VIOLATED, UNMODELLED
from .guards import as_comparison
from .ir import _single_def
from .rules_state import fkey

FACTORIES = {"dsplib::create_fft_plan": "BaseFftPlanC", "dsplib::create_rfft_plan": "BaseFftPlanR"}
CACHE_METHODS = {"exists", "get", "put", "operator[]", "at", "find"}
LIST_ADD = {"push_front", "push_back", "emplace_front", "emplace_back", "insert", "emplace"}
LIST_DEL = {"erase", "pop_back", "pop_front", "remove", "remove_if", "clear"}
MAP_ADD = {"insert", "emplace", "try_emplace", "insert_or_assign"}
MAP_DEL = {"erase", "clear", "extract"}


def _is_param(n, name, depth=0):
    """the unmodified parameter itself, or a local that is initialised from it and never written again"""
    n = n.strip_all()
    while n.k in ("CXXConstructExpr",) and len(n.c) == 1:
        n = n.c[0].strip_all()
    if n.k == "DeclRefExpr" and n.decl and n.decl.get("k") == "parm" and n.decl.get("n") == name:
        return True
    if n.k == "DeclRefExpr" and n.decl and n.decl.get("k") == "local" and depth < 2:
        fn = n.fn
        defs = [v for v in fn.walk() if v.k == "VarDecl" and v.decl["id"] == n.decl["id"]]
        if len(defs) != 1 or not defs[0].c:
            return False
        for w in fn.walk():
            if w.k in ("BinaryOperator", "CompoundAssignOperator") and w.op and w.op.endswith("=") and w.op not in ("==", "!=", "<=", ">=") and w.c:
                l = w.c[0].strip_all()
                if l.k == "DeclRefExpr" and l.decl.get("id") == n.decl["id"]:
                    return False
            if w.k == "UnaryOperator" and w.op in ("++", "--") and w.c:
                l = w.c[0].strip_all()
                if l.k == "DeclRefExpr" and l.decl.get("id") == n.decl["id"]:
                    return False
        return _is_param(defs[0].c[0], name, depth + 1)
    return False


def _short(qn):
    return (qn or "").rsplit("::", 1)[-1]


def _param_written(f, name):
    for n in f.walk():
        if n.k in ("BinaryOperator", "CompoundAssignOperator") and n.op and n.op.endswith("=") and n.op not in ("==", "!=", "<=", ">=") and n.c:
            if _is_param(n.c[0], name):
                return n
        if n.k == "UnaryOperator" and n.op in ("++", "--") and n.c and _is_param(n.c[0], name):
            return n
    return None


def _refreshes(prog, g, list_f, seen):
    """does g (or a member of the same class it calls on *this) move / insert an entry at the front of the recency list?"""
    if g.usr in seen:
        return False
    seen.add(g.usr)
    for n in g.walk():
        if not (n.is_call() and n.callee):
            continue
        obj = n.call_object()
        nm = (n.callee.get("qn") or "").rsplit("::", 1)[-1]
        if obj is not None:
            o = obj.strip_all()
            if o.k == "MemberExpr" and o.decl and o.decl.get("n") in list_f and nm in ("splice", "push_front", "emplace_front"):
                return True
            if o.k == "CXXThisExpr" and n.callee.get("cls") == g.cls:
                h = prog.functions.get(n.callee["usr"])
                if h is not None and _refreshes(prog, h, list_f, seen):
                    return True
    return False


def _removes_pair(prog, g, list_f, map_f, seen):
    """does g (or a member helper it calls on *this) remove an entry from both the list and the map?"""
    if g.usr in seen:
        return False
    seen.add(g.usr)
    eff = _container_effects(g, list_f, map_f)
    if any(d < 0 and c == "list" for (_, c, d) in eff) and any(d < 0 and c == "map" for (_, c, d) in eff):
        return True
    for n in g.walk():
        if n.k == "CXXMemberCallExpr" and n.callee and n.callee.get("cls") == g.cls and n.call_object() is not None \
                and n.call_object().strip_all().k == "CXXThisExpr":
            h = prog.functions.get(n.callee["usr"])
            if h is not None and _removes_pair(prog, h, list_f, map_f, seen):
                return True
    return False


def _step_is_one(call):
    """std::next(it) / std::prev(it): the distance argument is defaulted or the literal 1"""
    args = call.call_args()
    if not args:
        return False
    rest = [a for a in args[1:] if a.k != "CXXDefaultArgExpr"]
    if not rest:
        return True
    r0 = rest[0].strip_all()
    return len(rest) == 1 and r0.k == "IntegerLiteral" and r0.get("v") == "1"


def _is_tail_iterator(a, list_f):
    """std::prev(list.end()), --list.end(), or a local iterator initialised from list.end() and then decremented"""
    a0 = a.strip_all()
    while a0.k in ("CXXConstructExpr", "MaterializeTemporaryExpr") and len(a0.c) == 1:
        a0 = a0.c[0].strip_all()

    def is_end(e):
        e = e.strip_all()
        while e.k in ("CXXConstructExpr", "MaterializeTemporaryExpr") and len(e.c) == 1:
            e = e.c[0].strip_all()
        return e.k == "CXXMemberCallExpr" and _short((e.callee or {}).get("qn")) in ("end", "cend") and e.call_object() is not None \
            and e.call_object().strip_all().k == "MemberExpr" and e.call_object().strip_all().decl.get("n") in list_f
    if a0.k == "CallExpr" and (a0.callee or {}).get("qn") == "std::prev" and _step_is_one(a0) and is_end(a0.call_args()[0]):
        return True
    if a0.k in ("UnaryOperator", "CXXOperatorCallExpr") and a0.op == "--" and a0.c and is_end(a0.c[-1]):
        return True
    if a0.k == "DeclRefExpr" and a0.decl and a0.decl.get("k") == "local":
        fn = a0.fn
        defs = [v for v in fn.walk() if v.k == "VarDecl" and v.decl and v.decl.get("id") == a0.decl["id"] and v.c]
        vid = a0.decl["id"]

        def is_var(e):
            e = e.strip_all()
            return e.k == "DeclRefExpr" and e.decl and e.decl.get("id") == vid
        writes = []
        for x in fn.walk():
            if x.k in ("UnaryOperator", "CXXOperatorCallExpr") and x.op in ("--", "++") and x.c and any(is_var(c) for c in x.c):
                writes.append(x)
            elif x.k in ("BinaryOperator", "CompoundAssignOperator", "CXXOperatorCallExpr") and x.op in ("=", "+=", "-=") and x.c:
                lhs = x.c[1] if x.k == "CXXOperatorCallExpr" and len(x.c) >= 3 else x.c[0]
                if is_var(lhs):
                    writes.append(x)
            elif x.k == "CallExpr" and (x.callee or {}).get("qn") == "std::advance" and x.call_args() and is_var(x.call_args()[0]):
                writes.append(x)
        in_loop = any(a.k in ("WhileStmt", "ForStmt", "DoStmt", "CXXForRangeStmt") for w in writes for a in w.ancestors())
        if len(defs) == 1 and is_end(defs[0].c[0]):
            # auto last = list.end(); last--;   - exactly one step back, outside any loop
            return len(writes) == 1 and writes[0].op == "--" and not in_loop
        if len(defs) == 1 and not writes:
            return _is_tail_iterator(defs[0].c[0], list_f)
    return False


def _holds_plans(prog, ctype, fixture=False):
    """is this LRUCache instantiation one of the transform-plan caches (its value type names a class of the plan family)?
    An LRU cache of something else is not the subject of C10."""
    from .rules_state import plan_family
    fam = getattr(prog, "_plan_family_cache", None)
    if fam is None:
        fam = plan_family(prog)
        prog._plan_family_cache = fam
    if fixture:
        return True
    m = re.search(r"LRUCache<(.*)>", ctype)
    inner = m.group(1) if m else ctype
    return any(re.search(r"(^|[\s<,(*&:])%s($|[\s>,)*&])" % re.escape(c.rsplit("::", 1)[-1]), inner) for c in fam)


def rule_K1(prog, fixture=False):
    res = RuleResult("K1", "in create_fft_plan/create_rfft_plan the key of every cache operation, the factory argument and the "
                           "small-plan argument are the unmodified length parameter; the value put into the cache is the plan the "
                           "factory built for that key; plans are handed out and held as std::shared_ptr by value")
    found = 0
    # every function that operates an LRUCache (the two factories, or a helper they share)
    users = []
    for f in sorted(prog.functions.values(), key=lambda f: (f.file, f.line, f.name)):
        if (f.cls or "").startswith("dsplib::LRUCache<") or f.file.endswith("coverage.cc") or f.get("lambda"):
            continue
        ops = []
        for n in f.walk():
            if n.is_call() and n.callee and n.callee.get("cls", "").startswith("dsplib::LRUCache<") and n.k == "CXXMemberCallExpr" \
                    and _holds_plans(prog, n.callee.get("cls", ""), fixture) \
                    and (_short(n.callee.get("qn")) in CACHE_METHODS or (n.call_args() and _short(n.callee.get("qn")) not in ("size", "clear", "empty"))):
                ops.append((n, _short(n.callee.get("qn"))))
        if ops:
            users.append((f, ops))
    user_key = {}
    for (f, cache_calls) in users:
        found += 1
        where = "%s:%d" % (prog.rel(f.file), f.line)
        key0 = "K1:" + f.qn
        int_params = [p["n"] for p in f.params if p.get("tc") == "int"]
        pn = None
        for cand in int_params:
            if all(n.call_args() and _is_param(n.call_args()[0], cand) for (n, _) in cache_calls):
                pn = cand
        if pn is None:
            pn = int_params[0] if int_params else None
        if pn is None:
            res.add(key0 + ":cache-key", UNMODELLED, where, "%s cache key" % f.short, "no integer parameter that could be the key", func=f.name)
            continue
        user_key[f.usr] = (f, pn)
        rt = f.get("ret", "")
        if rt.startswith("std::shared_ptr<") and not rt.endswith("&") and not rt.endswith("*"):
            res.add(key0 + ":returns-shared", DISCHARGED, where, "%s return type" % f.short, "returns %s by value" % rt, func=f.name)
        else:
            res.add(key0 + ":returns-shared", VIOLATED, where, "%s return type" % f.short,
                    "returns %s: an evicted plan referenced by a live object would dangle" % rt, func=f.name)
        w = _param_written(f, pn)
        if w is not None:
            res.add(key0 + ":key-unmodified", VIOLATED, "%s:%d" % (prog.rel(f.file), w.line), "%s key" % f.short,
                    "the length parameter is modified (%s) before it is used as cache key / factory argument" % w.text(), func=f.name)
        else:
            res.add(key0 + ":key-unmodified", DISCHARGED, where, "%s key" % f.short, "parameter '%s' is never written" % pn, func=f.name)
        ops = {nm for (_, nm) in cache_calls}
        bad = [(n, nm) for (n, nm) in cache_calls if not (n.call_args() and _is_param(n.call_args()[0], pn))]
        if bad:
            n, nm = bad[0]
            res.add(key0 + ":cache-key", VIOLATED, "%s:%d" % (prog.rel(f.file), n.line), "%s cache key" % f.short,
                    "cache.%s is keyed by %s, not by the requested length '%s': lookups and insertions disagree" % (nm, n.call_args()[0].text() if n.call_args() else "?", pn),
                    func=f.name)
        elif "put" not in ops or not ({"get", "find", "operator[]", "at"} & ops):
            res.add(key0 + ":cache-key", UNMODELLED, where, "%s cache key" % f.short, "cache operations found: %s" % sorted(ops), func=f.name)
        else:
            res.add(key0 + ":cache-key", DISCHARGED, where, "%s cache key" % f.short,
                    "%d cache operations (%s) all keyed by '%s'" % (len(cache_calls), ", ".join(sorted(ops)), pn), func=f.name)
        # the value that is put: where does it come from?
        puts = [n for (n, nm) in cache_calls if nm == "put"]
        producers = []
        okput, why = True, ""
        for p_ in puts:
            args = p_.call_args()
            if len(args) < 2:
                okput, why = False, "put with %d arguments" % len(args)
                continue
            v = args[1].strip_all()
            while v.k == "CXXConstructExpr" and len(v.c) == 1:
                v = v.c[0].strip_all()
            src = v
            if v.k == "DeclRefExpr" and v.decl.get("k") == "local":
                defs = [d for d in f.walk() if d.k == "VarDecl" and d.decl["id"] == v.decl["id"] and d.c]
                reassigned = any(n.k in ("BinaryOperator", "CXXOperatorCallExpr") and n.op == "=" and n.c and
                                 (n.c[0] if n.k == "BinaryOperator" else n.c[1]).strip_all().k == "DeclRefExpr" and
                                 (n.c[0] if n.k == "BinaryOperator" else n.c[1]).strip_all().decl.get("id") == v.decl["id"] for n in f.walk())
                if len(defs) != 1 or reassigned:
                    okput, why = False, "the plan variable %s is not a single-assignment result of the factory" % v.text()
                    continue
                src = defs[0].c[0].strip_all()
                while src.k == "CXXConstructExpr" and len(src.c) == 1:
                    src = src.c[0].strip_all()
            if src.is_call():
                producers.append(src)
            else:
                okput, why = False, "the value put into the cache (%s) is not the result of a plan construction call" % v.text()
        small = [n for n in f.walk() if n.k == "CallExpr" and n.callee and n.callee.get("qn", "").startswith("std::make_shared")]
        badf = [n for n in producers + small if not (n.call_args() and all(_is_param(a, pn) for a in n.call_args()))]
        if badf:
            n = badf[0]
            res.add(key0 + ":factory-arg", VIOLATED, "%s:%d" % (prog.rel(f.file), n.line), "%s plan construction" % f.short,
                    "%s builds a plan for a length other than the requested '%s'" % (n.text(), pn), func=f.name)
        elif producers:
            res.add(key0 + ":factory-arg", DISCHARGED, where, "%s plan construction" % f.short,
                    "%d construction call(s) receive '%s'" % (len(producers) + len(small), pn), func=f.name)
        else:
            res.add(key0 + ":factory-arg", UNMODELLED, where, "%s plan construction" % f.short, "no construction call recognised", func=f.name)
        if puts:
            res.add(key0 + ":put-value", DISCHARGED if okput else VIOLATED, "%s:%d" % (prog.rel(f.file), puts[0].line),
                    "%s cached value" % f.short, "the plan built for '%s' is what is inserted" % pn if okput else why, func=f.name)
    # the public factories reach a cache user with their own, unmodified length
    for qn, base in FACTORIES.items():
        fs = prog.funcs_named(qn)
        if not fs:
            res.broken.append("anchor vanished: %s is not defined" % qn)
            continue
        f = fs[0]
        if f.usr in user_key:
            continue
        pn = f.params[0]["n"] if f.params else None
        linked = None
        for n in f.walk():
            if n.is_call() and n.callee and n.callee.get("usr") in user_key:
                g, gk = user_key[n.callee["usr"]]
                gi = [p["n"] for p in g.params].index(gk)
                args = n.call_args()
                linked = (n, gi < len(args) and _is_param(args[gi], pn))
        key0 = "K1:" + qn
        where = "%s:%d" % (prog.rel(f.file), f.line)
        if linked is None:
            res.broken.append("anchor vanished: %s performs no LRUCache operation and calls no function that does" % qn)
        elif linked[1] and _param_written(f, pn) is None:
            res.add(key0 + ":cache-key", DISCHARGED, where, "%s cache key" % f.short,
                    "hands its unmodified length '%s' to %s" % (pn, linked[0].callee.get("name")), func=f.name)
        else:
            res.add(key0 + ":cache-key", VIOLATED, "%s:%d" % (prog.rel(f.file), linked[0].line), "%s cache key" % f.short,
                    "%s is called with a key other than the requested length '%s'" % (linked[0].callee.get("name"), pn), func=f.name)
        for n in [n for n in f.walk() if n.k == "CallExpr" and n.callee and n.callee.get("qn", "").startswith("std::make_shared")]:
            if not (n.call_args() and all(_is_param(a, pn) for a in n.call_args())):
                res.add(key0 + ":factory-arg", VIOLATED, "%s:%d" % (prog.rel(f.file), n.line), "%s plan construction" % f.short,
                        "%s builds a plan for a length other than the requested '%s'" % (n.text(), pn), func=f.name)
    # K1c: the cache hands out no mutable access to a slot, and nobody keeps a reference into it
    for cn, cj in sorted(prog.classes.items()):
        if not cn.startswith("dsplib::LRUCache<"):
            continue
        for m in cj["methods"]:
            if m["kind"] != "method" or m["access"] != "public" or m["implicit"]:
                continue
            ret = m.get("sig", "").split("(")[0].strip()
            key = "K1:cache-api:%s::%s" % (cn, m["name"])
            where = "%s:%d" % (prog.rel(cj["file"]), m["line"])
            mutable_ref = (ret.endswith("&") or ret.endswith("*")) and not ret.startswith("const ")
            iterator = "iterator" in ret and "const_iterator" not in ret
            if mutable_ref or iterator:
                res.add(key, VIOLATED, where, "%s::%s" % (cn, m["name"]),
                        "public member returns %s: a caller can keep mutable access to a cache slot across operations that "
                        "re-enter the cache (plan construction does) and then writes into a slot that was reused for another key" % ret)
            else:
                res.add(key, DISCHARGED, where, "%s::%s" % (cn, m["name"]), "returns %s" % (ret or "void"))
    for f in prog.functions.values():
        if f.file.endswith("coverage.cc") or (f.cls or "").startswith("dsplib::LRUCache<"):
            continue
        for n in f.walk():
            if not (n.is_call() and n.callee and n.callee.get("cls", "").startswith("dsplib::LRUCache<")):
                continue
            rt = n.type or ""
            if not n.get("lv"):
                continue        # returned by value
            # where does the reference go?
            p = n.parent
            copied = False
            escapes = None
            while p is not None:
                if p.k == "ImplicitCastExpr" and p.get("ck") == "LValueToRValue":
                    copied = True
                    break
                if p.k in ("CXXConstructExpr",) and not (p.type or "").endswith("&"):
                    copied = True       # copy-constructs a value
                    break
                if p.k == "VarDecl":
                    ts = p.get("ts") or p.type or ""
                    if ts.endswith("&") or ts.endswith("&&"):
                        escapes = "bound to the reference variable '%s'" % p.decl["n"]
                    else:
                        copied = True
                    break
                if p.k == "ReturnStmt":
                    if (f.get("ret") or "").endswith("&"):
                        escapes = "returned by reference from %s" % f.short
                    else:
                        copied = True
                    break
                if p.k == "CtorInit":
                    escapes = None
                    copied = True
                    break
                if p.k in ("CXXMemberCallExpr", "CXXOperatorCallExpr", "CallExpr", "BinaryOperator", "CompoundStmt"):
                    copied = True       # used within the full expression
                    break
                p = p.parent
            if escapes:
                res.add("K1:cache-ref-escape:%s" % fkey(f), VIOLATED, "%s:%d" % (prog.rel(f.file), n.line), f.short,
                        "a reference into the cache (%s) is %s: after eviction of that key it dangles" % (n.text(), escapes), func=f.name)
    # K4: every way of reading a stored value refreshes its recency (otherwise the LRU silently degrades to FIFO)
    for cn, cj in sorted(prog.classes.items()):
        if not cn.startswith("dsplib::LRUCache<"):
            continue
        list_f = [f_["name"] for f_ in cj["fields"] if "list<" in f_["ctype"]]
        # lookups somebody outside the class performs: an accessor no user of the cache calls cannot change which plans are kept
        called = set()
        for h in prog.functions.values():
            if h.cls == cn or h.file.endswith("coverage.cc"):
                continue
            for x in h.walk():
                if x.is_call() and x.callee and x.callee.get("cls") == cn:
                    called.add(x.callee.get("usr"))
        for g in sorted([g for g in prog.functions.values() if g.cls == cn and g.kind == "method" and not g.get("implicit")], key=lambda g: g.line):
            ret = g.get("ret") or ""
            if ret in ("void", "bool", "int", "unsigned long", "size_t") or not ret:
                continue
            if g.usr not in called:
                res.stats.setdefault("lookups_nobody_calls", []).append(g.short)
                continue
            key = "K1:recency:%s::%s" % (cn, g.qn.rsplit("::", 1)[-1])
            where = "%s:%d" % (prog.rel(g.file), g.line)
            refresh = _refreshes(prog, g, list_f, set())
            wide = None
            for n in g.walk():
                if n.k == "CXXMemberCallExpr" and n.callee and (n.callee.get("qn") or "").rsplit("::", 1)[-1] == "splice":
                    o = n.call_object()
                    o0 = o.strip_all() if o is not None else None
                    if o0 is not None and o0.k == "MemberExpr" and o0.decl and o0.decl.get("n") in list_f:
                        args = [a for a in n.call_args() if a.k != "CXXDefaultArgExpr"]
                        if len(args) == 4:
                            last = args[3].strip_all()
                            while last.k in ("CXXConstructExpr", "MaterializeTemporaryExpr") and len(last.c) == 1:
                                last = last.c[0].strip_all()
                            first = args[2].strip_all()
                            while first.k in ("CXXConstructExpr", "MaterializeTemporaryExpr") and len(first.c) == 1:
                                first = first.c[0].strip_all()
                            one_past = last.k == "CallExpr" and (last.callee or {}).get("qn") in ("std::next",) and _step_is_one(last) \
                                and last.call_args()[0].text() == first.text()
                            if not one_past:
                                wide = n
                        elif len(args) == 2:
                            wide = n          # the whole other list
            if refresh and wide is not None:
                res.add(key, VIOLATED, "%s:%d" % (prog.rel(g.file), wide.line), g.short,
                        "%s moves a *range* of entries to the front: a hit must move exactly the entry that was found, otherwise "
                        "older entries jump ahead of more recently used ones and the wrong plan is evicted next" % wide.text()[:90])
            elif refresh:
                res.add(key, DISCHARGED, where, g.short, "a lookup that returns a stored value moves the entry to the front of the recency list")
            else:
                res.add(key, VIOLATED, where, g.short,
                        "returns a stored value (%s) without touching the recency list: entries found through it are evicted in "
                        "insertion order, so the cache no longer retains the most recently used plans" % ret)
    # K5: plans are cached by the two LRU caches only
    for sk, sv in sorted(prog.statics.items(), key=lambda kv: (kv[1]["file"], kv[1]["line"])):
        ct = sv["ctype"]
        if "LRUCache<" in ct or sv["file"].endswith("coverage.cc"):
            continue
        if re.search(r"dsplib::(BaseFftPlan[CR]|FftPlanR?|IfftPlanR?|CztPlan|Pow2FftPlan|FactorFFTPlanR?|PrimesFft[CR]|RealFftPlan|SmallFftPow2[CR])\b", ct) and not sv["const"]:
            res.add("K1:extra-plan-cache:%s@%s" % (sv["name"], sv.get("func", "")), VIOLATED, "%s:%d" % (prog.rel(sv["file"]), sv["line"]),
                    "%s in %s" % (sv["name"], sv.get("func")),
                    "a plan is kept in static storage (%s) outside the LRU caches: the thread retains more plans than "
                    "DSPLIB_FFT_CACHE_SIZE and later results depend on which lengths were requested before" % sv["type"])
    # holders keep shared ownership
    holders = 0
    for cn, cj in sorted(prog.classes.items()):
        for fld in cj["fields"]:
            ct = fld["ctype"]
            if not re.search(r"dsplib::(BaseFftPlan[CR]|FftPlan|FftPlanR|CztPlan|CztPlanImpl|PlanTree)\b", ct):
                continue
            if not (fld["ptr"] or fld["ref"] or "std::shared_ptr<" in ct or "std::weak_ptr<" in ct or "std::unique_ptr<" in ct):
                continue      # held by value
            holders += 1
            key = "K1:holder:%s::%s" % (cn, fld["name"])
            where = "%s:%d" % (prog.rel(cj["file"]), fld["line"])
            target_base = re.search(r"BaseFftPlan[CR]", ct) is not None
            if "std::shared_ptr<" in ct and not fld["ptr"] and not fld["ref"] and "std::weak_ptr<" not in ct:
                res.add(key, DISCHARGED, where, "%s::%s" % (cn, fld["name"]), "shared ownership (%s)" % fld["type"])
            elif target_base:
                res.add(key, VIOLATED, where, "%s::%s" % (cn, fld["name"]),
                        "holds a cached plan as %s: after eviction from the thread's cache the plan is destroyed while still in use" % fld["type"])
            else:
                res.add(key, DISCHARGED, where, "%s::%s" % (cn, fld["name"]), "owning/raw pointer to a non-cached helper (%s)" % fld["type"])
    # nobody strips the ownership off a factory result
    for f in prog.functions.values():
        for n in f.walk():
            if n.is_call() and n.callee and n.callee.get("qn") in FACTORIES:
                p = n.parent
                while p is not None and p.k in ("ImplicitCastExpr",):
                    p = p.parent
                if p is not None and p.k == "MemberExpr" and p.decl and p.decl.get("n") in ("get", "operator*"):
                    gp = p.parent
                    ggp = gp.parent if gp is not None else None
                    # create_fft_plan(n).get() stored somewhere / create_fft_plan(n)->solve() used immediately is fine
                    if p.decl.get("n") == "get":
                        res.add("K1:raw-from-factory:%s" % fkey(f), VIOLATED, "%s:%d" % (prog.rel(f.file), n.line), f.short,
                                "%s takes a raw pointer out of a temporary shared_ptr returned by the factory" % (gp.text() if gp is not None else n.text()))
    res.stats["factories"] = found
    res.stats["holders"] = holders
    return res


# =================================================================================================
_INSERT_FLAG = {}       # call node id -> ("pair", local id) | ("binding", binding id)


def _insert_flag_outcome(cn, pol, flag):
    """does the branch outcome (cn == pol) say that the insertion reported by `flag` happened (True) / did not (False) / nothing (None)"""
    e = cn.strip_all()
    while e.k == "UnaryOperator" and e.op == "!" and e.c:
        pol = not pol
        e = e.c[0].strip_all()
    kind, vid = flag
    if kind == "pair" and e.k == "MemberExpr" and e.decl and e.decl.get("n") == "second" and e.c:
        b = e.c[0].strip_all()
        if b.k == "DeclRefExpr" and b.decl and b.decl.get("id") == vid:
            return pol
    if kind == "binding" and e.k == "DeclRefExpr" and e.decl and e.decl.get("id") == vid:
        return pol
    return None


def _container_effects(fn, list_field, map_field):
    """[(node, container, delta)] for calls on the two containers"""
    out = []
    for n in fn.walk():
        if not (n.is_call() and n.callee):
            continue
        obj = n.call_object()
        if obj is None:
            continue
        o = obj.strip_all()
        if not (o.k == "MemberExpr" and o.decl and o.decl.get("k") == "field"):
            continue
        fld = o.decl["n"]
        nm = _short(n.callee.get("qn"))
        if fld == list_field:
            if nm in LIST_ADD:
                out.append((n, "list", +1))
            elif nm in LIST_DEL:
                out.append((n, "list", -1))
        elif fld == map_field:
            if nm in MAP_ADD:
                out.append((n, "map", +1))
                # insert / emplace / try_emplace report through .second whether anything was inserted: remember where that
                # flag lives, the path walk takes the entry back on the branch where it is false
                if nm in ("insert", "emplace", "try_emplace"):
                    x, p = n, n.parent
                    while p is not None and p.k in ("ImplicitCastExpr", "ExprWithCleanups", "MaterializeTemporaryExpr", "CXXBindTemporaryExpr",
                                                    "CXXConstructExpr") and len(p.c) == 1:
                        x, p = p, p.parent
                    if p is not None and p.k == "VarDecl" and p.decl:
                        bs = p.get("bindings") or []
                        _INSERT_FLAG[n.id] = ("binding", bs[1]["id"]) if len(bs) == 2 else ("pair", p.decl["id"])
            elif nm in MAP_DEL:
                out.append((n, "map", -1))
            elif nm == "operator[]":
                # items_map_[key] = it   inserts (or overwrites) an entry
                p = n.parent
                while p is not None and p.k == "ImplicitCastExpr":
                    p = p.parent
                if p is not None and ((p.k == "BinaryOperator" and p.op == "=") or (p.k == "CXXOperatorCallExpr" and p.op == "=")):
                    out.append((n, "map", +1))
    return out


def _path_sums(f, eff, limit=4000):
    """(list delta, map delta, effect nodes) for every acyclic path ENTRY -> EXIT of the CFG (back edges cut)"""
    f.blocks
    per_block = {}
    for (n, cont, d) in eff:
        loc = f.block_of(n)
        if loc is None:
            continue
        per_block.setdefault(loc[0], []).append((loc[1], n, cont, d))
    out = []
    truncated = False
    edge_conds = {}
    for (bb, si, s_, cn, pol) in f.branch_edges():
        if s_ is not None:
            edge_conds.setdefault((bb.id, s_), []).append((cn, pol))
    stack = [(f.entry, (f.entry,), 0, 0, (), None)]
    while stack:
        b, seen, l, m, nodes, came_from = stack.pop()
        if came_from is not None:
            # a conditional insertion counted on the way, and the edge just taken says it did not happen
            for (cn, pol) in edge_conds.get((came_from, b), []):
                for x in nodes:
                    if isinstance(x, tuple):
                        continue
                    fl = _INSERT_FLAG.get(x.id)
                    if fl is not None and _insert_flag_outcome(cn, pol, fl) is False and ("undone", x.id) not in nodes:
                        m -= 1
                        nodes = nodes + (("undone", x.id),)
        for (_, n, cont, d) in sorted(per_block.get(b, []), key=lambda t: t[0]):
            if cont == "list":
                l += d
            else:
                m += d
            nodes = nodes + (n,)
        if b == f.exit:
            out.append((l, m, [x for x in nodes if not isinstance(x, tuple)]))
            if len(out) > limit:
                truncated = True
                break
            continue
        succs = [s_ for s_ in f.blocks[b].succs if s_ is not None and s_ in f.blocks]
        if not succs:
            out.append((l, m, [x for x in nodes if not isinstance(x, tuple)]))
        for s_ in succs:
            if s_ in seen:
                continue          # back edge: one iteration is enough for balance
            stack.append((s_, seen + (s_,), l, m, nodes, b))
    return out, truncated


def _region_of(n):
    """innermost control region: the branch statement (then/else/body) that directly holds the statement"""
    x = n
    while x.parent is not None:
        p = x.parent
        if p.k in ("IfStmt", "ForStmt", "WhileStmt", "DoStmt", "CXXForRangeStmt", "SwitchStmt"):
            role = None
            for r in ("then", "else", "body"):
                rr = p.role(r)
                if rr is not None and rr.id == x.id:
                    role = r
            if role:
                return (p.id, role, p.line)
        x = p
    return (0, "body", 0)


def rule_K2(prog, fixture=False):
    res = RuleResult("K2", "in every LRUCache method, on every acyclic path, the number of entries added to / removed from the "
                           "recency list equals the number added to / removed from the key map (splice is neutral): the map never "
                           "holds an iterator to an erased list node")
    classes = [c for n, c in prog.classes.items() if n.startswith("dsplib::LRUCache<")]
    if not classes:
        res.broken.append("anchor vanished: no LRUCache instantiation")
        return res
    for cj in sorted(classes, key=lambda c: c["name"]):
        list_f = [f["name"] for f in cj["fields"] if f["ctype"].startswith("std::list<") or "std::__cxx11::list<" in f["ctype"]]
        map_f = [f["name"] for f in cj["fields"] if "unordered_map<" in f["ctype"] or f["ctype"].startswith("std::map<")]
        if len(list_f) != 1 or len(map_f) != 1:
            res.broken.append("anchor vanished: %s no longer has exactly one list and one map member (%s, %s)" % (cj["name"], list_f, map_f))
            continue
        methods = [f for f in prog.functions.values() if f.cls == cj["name"] and f.kind == "method" and not f.get("implicit")]
        for f in sorted(methods, key=lambda f: f.line):
            eff = _container_effects(f, list_f[0], map_f[0])
            key = "K2:%s::%s" % (cj["name"], f.qn.rsplit("::", 1)[-1])
            where = "%s:%d" % (prog.rel(f.file), f.line)
            if not eff:
                res.add(key, DISCHARGED, where, f.short, "does not add or remove entries", func=f.name)
                continue
            paths, truncated = _path_sums(f, eff)
            bad = [(l, m, nodes) for (l, m, nodes) in paths if l != m]
            if truncated:
                res.add(key, UNMODELLED, where, f.short, "too many paths to enumerate", func=f.name)
            elif bad:
                l, m, nodes = bad[0]
                res.add(key, VIOLATED, "%s:%d" % (prog.rel(f.file), nodes[0].line if nodes else f.line), f.short,
                        "on the path through %s the recency list changes by %+d entries but the key map by %+d: the two structures "
                        "get out of step (a stale list iterator stays in the map, or an entry becomes unreachable)"
                        % ("; ".join("%s (line %d)" % (x.text(), x.line) for x in nodes) or "no update", l, m), func=f.name)
            else:
                res.add(key, DISCHARGED, where, f.short, "%d acyclic path(s), list and map deltas equal on each" % len(paths), func=f.name)
    return res


# =================================================================================================
def rule_K3(prog, fixture=False):
    res = RuleResult("K3", "both plan caches are constructed with the configured DSPLIB_FFT_CACHE_SIZE, and LRUCache::put evicts "
                           "whenever the map outgrows max_size_, which is set once from the constructor argument")
    cfg = getattr(prog, "config", None)
    want = None
    if not fixture:
        cm = build.parse_cmake(prog.root or build.repo_root())
        want = int(cm["default_cache"]) if (cfg is None or cfg.cache_size is None) else int(cfg.cache_size)
    caches = [s for s in prog.statics.values() if "LRUCache<" in s["ctype"] and _holds_plans(prog, s["ctype"], fixture)]
    if not caches:
        res.broken.append("anchor vanished: no LRUCache object with static storage duration")
    for s in sorted(caches, key=lambda s: (s["file"], s["line"])):
        key = "K3:capacity:%s@%s" % (s["name"], s.get("func", ""))
        where = "%s:%d" % (prog.rel(s["file"]), s["line"])
        vals = (s.get("init_args_int") or [])[:1]       # the capacity is the first constructor argument; further ones are policy
        if len(vals) == 1 and vals[0] is not None and (want is None or vals[0] == want):
            res.add(key, DISCHARGED, where, "%s in %s" % (s["name"], s.get("func")), "constructed with capacity %s%s" % (
                vals[0], "" if want is None else " = configured DSPLIB_FFT_CACHE_SIZE"))
        elif len(vals) == 1 and vals[0] is not None:
            res.add(key, VIOLATED, where, "%s in %s" % (s["name"], s.get("func")),
                    "constructed with capacity %s but DSPLIB_FFT_CACHE_SIZE is %s" % (vals[0], want))
        else:
            res.add(key, VIOLATED, where, "%s in %s" % (s["name"], s.get("func")),
                    "capacity argument (%s) does not fold to a constant" % s.get("init_text"))
    # eviction test in put, and in every other member that inserts
    members = [f for f in prog.functions.values() if f.cls and f.cls.startswith("dsplib::LRUCache<") and f.kind == "method"
               and not f.get("implicit")]
    puts = []
    for f in members:
        cj = prog.classes.get(f.cls)
        list_f = [x["name"] for x in cj["fields"] if "list<" in x["ctype"]][:1] if cj else []
        map_f = [x["name"] for x in cj["fields"] if "unordered_map<" in x["ctype"] or x["ctype"].startswith("std::map<")][:1] if cj else []
        if f.qn.endswith("::put"):
            puts.append((f, list_f, map_f))
        elif list_f and map_f and any(d > 0 for (_, _, d) in _container_effects(f, list_f[0], map_f[0])):
            puts.append((f, list_f, map_f))
    if not any(f.qn.endswith("::put") for (f, _, _) in puts):
        res.broken.append("anchor vanished: LRUCache::put not instantiated")
    for (f, list_f, map_f) in sorted(puts, key=lambda t: (t[0].cls, t[0].line)):
        key = "K3:evict:%s" % f.cls if f.qn.endswith("::put") else "K3:evict:%s" % fkey(f)
        where = "%s:%d" % (prog.rel(f.file), f.line)
        ok = None
        stale = None
        tail_problem = None
        for n in f.walk():
            if n.k not in ("IfStmt", "WhileStmt"):
                continue          # if (size > max) evict;   while (size > max) evict;
            c = n.role("cond")
            flag = None
            if c is not None:
                cs = c.strip_all()
                if cs.k == "DeclRefExpr" and cs.decl and cs.decl.get("k") == "local" and cs.tc == "bool":
                    d = _single_def(cs)
                    if d is not None:
                        flag, c = cs, d
            pol = True
            for _ in range(4):
                if c is None:
                    break
                cs = c.strip_all()
                if cs.k == "UnaryOperator" and cs.op == "!" and cs.c:
                    c, pol = cs.c[0], not pol
                elif cs.k == "CXXMemberCallExpr" and cs.callee and cs.callee.get("repo") and cs.tc == "bool" \
                        and (cs.call_object() is None or cs.call_object().strip_all().k == "CXXThisExpr"):
                    # a predicate of the cache: over_capacity_() { return !(items_map_.size() <= max_size_); }
                    g = prog.functions.get(cs.callee.get("usr"))
                    rets = [x for x in g.walk() if x.k == "ReturnStmt" and x.c] if g is not None else []
                    if len(rets) != 1:
                        break
                    c = rets[0].c[0]
                else:
                    break
            cmp_ = as_comparison(c) if c is not None else None
            if cmp_ is None:
                continue
            lhs, op, rhs = cmp_
            if not pol:
                op = {"==": "!=", "!=": "==", "<": ">=", ">=": "<", ">": "<=", "<=": ">"}[op]

            def is_size(e):
                e = e.strip_all()
                return e.k == "CXXMemberCallExpr" and _short((e.callee or {}).get("qn")) == "size" and e.call_object() is not None \
                    and e.call_object().strip_all().k == "MemberExpr" and e.call_object().strip_all().decl.get("n") in (list_f + map_f)

            def is_max(e):
                e = e.strip_all()
                return e.k == "MemberExpr" and e.decl and e.decl.get("k") == "field" and e.decl.get("n") == "max_size_"
            form = (is_size(lhs) and is_max(rhs) and op in (">", ">=")) or (is_max(lhs) and is_size(rhs) and op in ("<", "<="))
            if not form:
                continue
            then = n.role("then") if n.k == "IfStmt" else n.role("body")
            eff = _container_effects(f, list_f[0], map_f[0]) if list_f and map_f else []
            inside = [(x, cont, d) for (x, cont, d) in eff if then is not None and any(a.id == then.id for a in x.ancestors())]
            evicts = any(d < 0 and cont == "list" for (_, cont, d) in inside) and any(d < 0 and cont == "map" for (_, cont, d) in inside)
            if not evicts and then is not None and list_f and map_f:
                for x in then.walk():
                    if x.k == "CXXMemberCallExpr" and x.callee and x.callee.get("cls") == f.cls:
                        h = prog.functions.get(x.callee["usr"])
                        if h is not None and _removes_pair(prog, h, list_f[0], map_f[0], set()):
                            evicts = True
            if not evicts:
                continue
            # the evicted entry is the tail of the recency list
            not_tail = None
            region = [then] if then is not None else []
            for x in (then.walk() if then is not None else []):
                if x.k == "CXXMemberCallExpr" and x.callee and x.callee.get("cls") == f.cls:
                    h = prog.functions.get(x.callee["usr"])
                    if h is not None and h.body() is not None:
                        region.append(h.body())
            for reg in region:
                for x in reg.walk():
                    if x.k == "CXXMemberCallExpr" and x.callee and x.call_object() is not None:
                        o0 = x.call_object().strip_all()
                        nm = _short(x.callee.get("qn"))
                        if o0.k == "MemberExpr" and o0.decl and o0.decl.get("n") in list_f and nm in ("erase", "pop_front", "remove", "remove_if"):
                            if nm == "erase" and x.call_args() and _is_tail_iterator(x.call_args()[0], list_f):
                                continue
                            not_tail = x
            if not_tail is not None:
                tail_problem = (n, not_tail)
                continue
            if flag is not None:
                f.blocks
                w = f.stale_flag(flag, n.role("cond"))
                if w is not None:
                    stale = (n, flag, w)
                    continue
            ok = n
        if ok is not None:
            c = ok.role("cond")
            res.add(key, DISCHARGED, "%s:%d" % (prog.rel(f.file), ok.line), "%s eviction" % f.short,
                    "evicts a list/map pair when %s" % c.text(), func=f.name)
        elif tail_problem is not None:
            n, x = tail_problem
            res.add(key, VIOLATED, "%s:%d" % (prog.rel(x.fn.file), x.line), "%s eviction" % f.short,
                    "%s removes an entry of the recency list that is not its tail (pop_back / erase of the last element): the "
                    "evicted plan is not the least recently used one" % x.text()[:80], func=f.name)
        elif stale is not None:
            n, flag, w = stale
            res.add(key, VIOLATED, "%s:%d" % (prog.rel(f.file), n.line), "%s eviction" % f.short,
                    "the eviction is decided by '%s', computed from the container size before a point where the cache can change "
                    "(a write to the containers or a call to a caller-supplied callable that may re-enter the cache): entries "
                    "inserted in between are not counted and the cache outgrows max_size_" % flag.text(), func=f.name)
        else:
            res.add(key, VIOLATED, where, "%s eviction" % f.short,
                    "no test of the container size against max_size_ whose taken branch removes an entry from both structures: "
                    "the cache is unbounded or bounded by something else", func=f.name)
    # max_size_ is written only by the constructor
    for f in prog.functions.values():
        if f.cls and f.cls.startswith("dsplib::LRUCache<") and f.kind == "method":
            for n in f.walk():
                if n.k in ("BinaryOperator", "CompoundAssignOperator", "UnaryOperator") and n.op and (n.op.endswith("=") or n.op in ("++", "--")) \
                        and n.op not in ("==", "!=", "<=", ">=") and n.c:
                    l = n.c[0].strip_all()
                    if l.k == "MemberExpr" and l.decl and l.decl.get("n") == "max_size_":
                        res.add("K3:max-size-writer:%s" % fkey(f), VIOLATED, "%s:%d" % (prog.rel(f.file), n.line), f.short,
                                "max_size_ is modified after construction: %s" % n.text(), func=f.name)
    return res
