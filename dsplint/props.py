"""property -> rules registry (claimed properties only)"""
from . import rules_bounds, rules_state, rules_arith, rules_except, rules_guard, rules_slice, rules_types, rules_dep, rules_order, rules_cache, rules_assume, rules_extra, rules_lemma, rules_iter

RULES = {
    "P1": rules_state.rule_P1,
    "P2": rules_state.rule_P2,
    "P2b": rules_state.rule_P2b,
    "M1": rules_state.rule_M1,
    "Y1": rules_state.rule_Y1,
    "M2": rules_state.rule_M2,
    "Q2": rules_iter.rule_Q2,
    "N8": rules_iter.rule_N8,
    "N1": rules_arith.rule_N1,
    "N2": rules_arith.rule_N2,
    "E1": rules_except.rule_E1,
    "G1": rules_guard.rule_G1,
    "G2": rules_guard.rule_G2,
    "G3": rules_slice.rule_G3,
    "G3b": rules_slice.rule_G3b,
    "G4": rules_slice.rule_G4,
    "G5": rules_slice.rule_G5,
    "T1": rules_types.rule_T1,
    "T1c": rules_types.rule_T1c,
    "D1": rules_dep.rule_D1,
    "L1": rules_order.rule_L1,
    "L2": rules_order.rule_L2,
    "K1": rules_cache.rule_K1,
    "K2": rules_cache.rule_K2,
    "K3": rules_cache.rule_K3,
    "A1": rules_assume.rule_A1,
    "A1b": rules_assume.rule_A1b,
    "Z1": rules_assume.rule_Z1,
    "S1": rules_types.rule_S1,
    "G6": rules_extra.rule_G6,
    "N3": rules_extra.rule_N3,
    "N2s": rules_extra.rule_N2s,
    "V1": rules_extra.rule_V1,
    "H1": rules_extra.rule_H1,
    "R1": rules_extra.rule_R1,
    "P3": rules_state.rule_P3,
    "S2": rules_extra.rule_S2,
    "D2": rules_dep.rule_D2,
    "R2": rules_extra.rule_R2,
    "G7": rules_bounds.rule_G7,
    "Z2": rules_assume.rule_Z2,
    "P3b": rules_state.rule_P3b,
    "N4": rules_extra.rule_N4,
    "N5": rules_arith.rule_N5,
    "N6": rules_arith.rule_N6,
    "P4": rules_state.rule_P4,
    "T2": rules_types.rule_T2,
    "A2": rules_lemma.rule_A2,
    "G3c": rules_slice.rule_G3c,
    "Q1": rules_guard.rule_Q1,
    "G5b": rules_slice.rule_G5b,
    "G3d": rules_slice.rule_G3d,
    "E2": rules_except.rule_E2,
}

SELFTESTS = {"T1": rules_types.selftest_T1}

PROPS = {
    "C02": {
        "id": "C02",
        "title": "Inverse transforms invert the forward transforms",
        "rules": ["A1b", "A1", "G7", "A2", "R2", "M1", "N8"],
        "clause": "every even n accepted by irfft/IfftPlanR satisfies what the twiddle-table helper believes about n, and odd n is "
                  "rejected by exception before any table is sized or indexed (member initialisers included); no function of the "
                  "transform and stft files keeps a value between calls under a key that omits an argument it was computed from (M1)",
        "not_decided": "the inversion identities ifft(fft(x)) = x, irfft(rfft(x)) = x as numerics; everything about stft/istft",
        "explanation": "A1 substitutes the actual arguments into each assert/DSPLIB_ASSUME of the ifft helpers and requires a live "
                       "check at the public call site to entail it (e % k == 0 entails e % k' == 0 iff k' | k, interval "
                       "containment); A1b walks IfftPlanR's constructor CFG, which contains the member initialisers in "
                       "declaration order, and requires the parity check to precede every call that receives n.",
    },
    "C03": {
        "id": "C03",
        "title": "Element-wise array arithmetic, type promotion and value semantics",
        "rules": ["T1", "T1c", "G2", "S1", "T2", "E1"],
        "clause": "the result type of every operator x operand-type pairing (112 binary pairings, compound forms, unary, "
                  "concatenation, selection) is the promoted one and type-changing compound forms do not compile; the length "
                  "guard of the compound array operators is a live throwing check dominating every element write; non-compound "
                  "operators cannot modify their operands and copies own their storage",
        "not_decided": "the element-wise values (field formulas), the contents of concatenation and selection results",
        "explanation": "T1 compiles one generated unit per witness against the repository's headers (the C++ type checker is the "
                       "analyser; nothing is executed); T1c checks the declared shape of base_array/cmplx_t and every operator "
                       "signature; G2 (restricted to this property: the four compound array operators) checks guard dominance on the CFG.",
    },
    "C04": {
        "id": "C04",
        "title": "Slices select and assign exactly the numpy-designated elements",
        "rules": ["G5", "G5b", "G3", "G3b", "G3c", "G3d", "G4", "E1", "E2", "T1", "D2", "N2"],
        "clause": "slice creation rejects by exception every out-of-range start/stop/step combination of the statement; every "
                  "multi-element slice assignment is count-guarded before the first write; no forward copy primitive runs on "
                  "possibly-aliased storage; a slice copy carries the source's index state; materialising a slice cannot "
                  "terminate the process; const slices are not assignable; the end iterator of every slice is a function of the "
                  "slice's start, step and extent (a sentinel the strided walk from begin() can arrive at)",
        "not_decided": "the index-resolution arithmetic against Python's x[i1:i2:step] (element count, negative indices)",
        "explanation": "G5 normalises the live throwing guards of base_slice_t's constructor to interval literals and checks the "
                       "eight required rejections on all paths to the normal exit; G3/G3b work on the CFG of every "
                       "slice_t::operator=; G4 derives the parameter->field map of base_slice_t and checks every slice copy "
                       "constructor against it; E1 is whole-program noexcept->throw reachability; T1 holds the compile-fail witnesses.",
    },
    "C05": {
        "id": "C05",
        "title": "No call corrupts memory or hangs: misuse is reported by exception",
        "rules": ["G1", "G2", "G3", "G5", "G6", "E1", "A1", "Z1", "Z2", "D2", "G7", "N4", "A2", "Q1", "E2", "Y1", "Q2", "N2", "N8", "M1", "P2"],
        "clause": "guard completeness (mechanisms 1-3 of the anchors): every plan solve() checks the input length with a live "
                  "check before mixing it with plan tables; every foreign-bound subscript and caller-supplied index in a public "
                  "function is dominated by a live relating guard; slices are range-checked at creation and count-checked at "
                  "assignment; no noexcept function can reach a library throw; beliefs (DSPLIB_ASSUME/assert) of internal helpers "
                  "are entailed by live checks along every call chain from the public entry points (through constructors, "
                  "make_shared and construction-time constant members) where the chain is modelled; no integer division by "
                  "never-initialised member state or by a caller-chosen value that no live check keeps away from zero; every subscript of a parameter / local vector whose index is affine in "
                  "counted-loop variables and whose size is fixed by a live check or by construction stays inside the container (G7); a user-provided "
                  "assignment operator stores nothing computed from a member of the destination that it has not yet replaced (Y1: a "
                  "polymorphic member cloned under the old object's type tag is cast to the wrong class); the iterator a standard search returns is dereferenced only behind a live found-check (Q2)",
        "not_decided": "value-range safety of index arithmetic outside the affine fragment of G7 (subscripts of members without a constructor-established size, of "
                       "results of solve(), indices loaded from data or formed from products of variables), termination and complexity "
                       "(except the C15 clause)",
        "explanation": "G1 enumerates every solve() of every plan class with delegation closure over the call graph (virtual calls "
                       "fanned out to all overriders); G2 enumerates every unchecked subscript in every function with container "
                       "parameters whose index bound comes from another container or from caller data; E1 runs whole-program "
                       "reachability from every non-throwing function to every throw site. assert()/DSPLIB_ASSUME are beliefs "
                       "(compiled out in release builds) and never count as guards.",
    },
    "C06": {
        "id": "C06",
        "title": "Streaming processors are invariant to how the stream is framed",
        "rules": ["H1", "V1", "P2", "P3", "P3b", "S2", "M2", "N4"],
        "clause": "structural necessary conditions of framing invariance: every array-valued state member a process() method rewrites "
                  "(delay line, history, overlap tail) receives a value that depends on its previous contents and on the input frame, "
                  "and the returned frame depends on the input and on that state (a history longer than the frame survives; no call "
                  "starts from rest); no lazy slice view is read after the array it denotes was written; separately constructed "
                  "instances share no mutable static storage, and a member-wise copy of a processor never shares state that "
                  "its process() changes through a shared_ptr member; a stateful member (filter, averager, delay line) is advanced in place or "
                  "written back, never on a local copy that is dropped",
        "not_decided": "sample-exact equality of the concatenated output for all framings (index arithmetic of the hand-over, block "
                       "accumulators, ring indices), granularity checks",
        "explanation": "H1 runs a may-dependence analysis (through locals, pointer aliases and members) over every process() method "
                       "of a class with array-valued state; an absent dependence is definite because the analysis over-approximates. "
                       "V1 walks the CFG between the creation of a slice view, writes of the viewed array and later reads of the view. "
                       "P2 enumerates every static-storage variable of the library.  P3 enumerates every class with a "
                       "std::shared_ptr member, the ways its member functions modify the pointee through it, and what the class's "
                       "copy construction / copy assignment do (clang's own answer: deleted, user-provided, member-wise).",
    },
    "C08": {
        "id": "C08",
        "title": "Multirate converters equal the zero-stuff/filter/decimate definition",
        "rules": ["R1", "H1", "S2", "R2", "N4", "N5", "N6", "P2", "M1", "Y1", "M2"],
        "clause": "the documented rejections and the identity case: FIRDecimator and FIRRateConverter reject (by a live throwing check "
                  "on every path to a normal return) frames whose length is not a multiple of the decimation factor; resample returns "
                  "its input unchanged when the reduced ratio is 1; a rejected frame leaves the converter untouched (no member is written on "
                  "a path that has not yet passed the check); each converter's history is handed over from its previous contents "
                  "and the input frame and is used by the output; the converters' files define no mutable static storage (two converters "
                  "are two independent chains) and keep no value between calls under an incomplete key (P2, M1)",
        "not_decided": "sample-exact agreement with the textbook chain for all L, M, h (branch schedule, offsets, gains, delay "
                       "compensation, output length)",
        "explanation": "R1 is an interprocedural must-pass-through analysis over the CFG (a check inside a callee that lies on the "
                       "path counts); H1 (restricted to this property: the converters in lib/resample) is the may-dependence analysis "
                       "of the history hand-over.",
    },
    "C09": {
        "id": "C09",
        "title": "Concurrent use from several threads is race-free and result-preserving",
        "rules": ["P1", "P2", "P3", "P4", "M1"],
        "clause": "all structural preconditions of race freedom: no mutable static-storage state that is not thread_local; "
                  "every const operation of every transform-plan class is free of writes to storage reachable from the object; "
                  "distinct objects are distinct state - no class that is copied member-wise modifies what a shared_ptr member "
                  "points to; a pointer shared through an atomic is never read under memory_order_relaxed (P2g); no library function sets the per-thread floating-point mode (P4)",
        "not_decided": "that each call returns what it would return single-threaded (follows from race freedom, not checked as values); "
                       "thread safety of the standard library itself",
        "explanation": "Free functions and distinct objects can share memory only through static storage (P2 enumerates every "
                       "static-storage variable of the library and requires constexpr/const/thread_local/sync type) or through "
                       "plan objects handed out as shared_ptr, on which only const operations exist and these must not write "
                       "object-reachable storage (P1: mutable members, const-removing casts, writes and non-const calls/arguments "
                       "rooted at pointer-like members, in every const method of every plan class); the third way - two "
                       "objects of which one is a copy of the other - is closed by P3.",
    },
    "C10": {
        "id": "C10",
        "title": "Transform results do not depend on call history; plan caching is transparent",
        "rules": ["K1", "K2", "K3", "P1", "P2", "M1", "M2"],
        "clause": "cached plans are immutable (const operations write no object state) and are built deterministically from their "
                  "key (no mutable shared statics); lookup, creation and insertion use the same unmodified key and the inserted "
                  "value is the plan built for it; plans are handed out and held by shared ownership, so an evicted plan stays "
                  "alive; list and map updates of the LRU are paired in every control region; both caches have the configured "
                  "capacity and every inserting member evicts against it with a size test that is not stale (nothing that can change "
                  "the cache - a container write or a caller-supplied callable - runs between the test and its use); any other value a function "
                  "keeps in static / thread_local storage is refreshed under a condition that mentions every argument it was computed from (M1)",
        "not_decided": "the recency order as a run-time history property beyond its two structural halves (a hit moves exactly the entry "
                       "found to the front; the evicted entry is the tail of the list), which are decided",
        "explanation": "Any plan returned for n was built by the factory for n (K1), is immutable (P1) and was built "
                       "deterministically from n (P2, K1), so results cannot depend on which other lengths were requested; K2 keeps "
                       "the map free of dangling list iterators on every path (the failure needs a fifth distinct length to show); "
                       "K3 ties the capacity to DSPLIB_FFT_CACHE_SIZE (folded constant) in every analysed configuration.",
    },
    "C11": {
        "id": "C11",
        "title": "FIR and window designs meet their closed-form specifications",
        "rules": ["R1", "R2", "N3", "E2"],
        "clause": "a custom window of the wrong length is rejected: on every path from either windowed fir1 overload to a normal "
                  "return a live throwing comparison of win.size() with the order is passed (in the design helper that path calls)",
        "not_decided": "symmetry, DC/Nyquist gain, the Hamming-design masks, the closed forms of all window functions",
        "explanation": "R1: interprocedural must-pass-through of a guard whose surviving outcome is win.size() == f(n).",
    },
    "C12": {
        "id": "C12",
        "title": "Adaptive filters report a-priori errors, honour the lock, and converge",
        "rules": ["L1", "G2", "S2", "R2", "N5", "N6", "M2"],
        "clause": "with the lock set no path of LmsFilter/RlsFilter::process writes the coefficient vector (or the RLS inverse "
                  "correlation); the flag is written only by set_lock_coeffs; y[k] is computed from the pre-update coefficients and "
                  "e[k] is formed from d and that y before the update; the x/d length guard dominates all indexing; a lazily derived copy of the coefficients is marked by every update and the mark is cleared only where the copy has been recomputed (M2)",
        "not_decided": "the identity e = d - y as arithmetic, convergence, the RLS normal-equation equivalence",
        "explanation": "L1 works on the CFG facts (lock test outcomes that dominate each write) and the statement order of the "
                       "sample loop of all four instantiations; G2 (restricted to this property: the two process methods) checks the "
                       "x.size() == d.size() guard.",
    },
    "C14": {
        "id": "C14",
        "title": "Analytic-signal and frequency-translation tools follow their definitions",
        "rules": ["N1", "N3", "V1", "S2", "R2", "N5", "N6", "H1", "M2"],
        "clause": "the tuner's admissible-frequency test (and every other division of the anchored files) is carried out in real "
                  "arithmetic: every f with |f| <= fs/2 is accepted, also for odd sample rates",
        "not_decided": "hilbert/HilbertFilter numerics and the phase accumulator arithmetic",
        "explanation": "N1 enumerates every '/' expression in tuner.h, hilbert.cpp/.h with its operand types and decides from the "
                       "types alone whether an integer-truncated quotient is converted to floating point.",
    },
    "C15": {
        "id": "C15",
        "title": "Prime and power-of-two helpers agree with number theory and terminate",
        "rules": ["N2", "N2s", "M1", "Q2", "P2"],
        "clause": "no trial-division bound is computed in a type that can wrap for a 32-bit argument (necessary for correctness and "
                  "for termination within sqrt(n) steps above 65521^2); nothing a prime helper keeps between calls carries a cursor from one call into the next (M1); a table search is dereferenced only where a live check keeps the argument inside the table (Q2)",
        "not_decided": "agreement with number theory below the wrap threshold (value-level), nextpow2/ispow2",
        "explanation": "N2 enumerates every relational comparison in every function of the prime machinery reachable from "
                       "isprime/factor/nextprime/primes and compares the width of each non-constant product with its operands' widths.",
    },
    "C20": {
        "id": "C20",
        "title": "Dynamics processors never amplify, follow their static curves, and settle",
        "rules": ["N1", "L2", "H1", "S2", "R2", "N5", "N6", "M2"],
        "clause": "the static gain computers and their range checks contain no integer-truncated division (slope 1/ratio is real); "
                  "the AGC's max_gain clamp lies on every path between a gain update and its use; the smoothing state of "
                  "compressor, limiter and noise gate is carried into the output and no data-dependent shortcut bypasses its update",
        "not_decided": "gain range [0,1], monotone smoothing, settling, the numerical shape of the knee",
        "explanation": "N1 enumerates every '/' expression of compressor.h, limiter.h, noise-gate.h, agc.cpp/.h and ma-filter.h with "
                       "operand types.",
    },
    "C16": {
        "id": "C16",
        "title": "Sorting, order statistics and rank correlation match their definitions",
        "rules": ["D1", "N3", "R2", "N5", "N6", "M1"],
        "clause": "each correlation kernel's result (Pearson, Spearman, Kendall, per return statement of corr) may-depends on the "
                  "contents of both samples - necessary for symmetry and for being the named coefficient at all; no rank vector / sorted copy is kept between calls under a key that omits the contents it was computed from (M1)",
        "not_decided": "correctness of sort/median/medfilt, the numerical value of the coefficients, ties",
        "explanation": "D1 computes flow-insensitive may-dependence with control dependence inside each kernel; an absent "
                       "dependence on a sample's contents is definite because the analysis over-approximates.",
    },
    "C19": {
        "id": "C19",
        "title": "Noise injection and SNR/THD measurement are calibrated; random streams reproduce",
        "rules": ["P2b", "N5", "N6", "M1", "N3"],
        "clause": "one thread_local engine is the only entropy source of every generator and of awgn (reproducibility after rng(seed), per-thread independence); "
                  "no measurement function keeps a value between calls under a key that omits an argument it was computed from (M1)",
        "not_decided": "noise power calibration, SNR/THD/SINAD accuracy, randi bounds",
        "explanation": "P2b enumerates every static engine object, every local engine, every distribution draw site and every call "
                       "of a known entropy source in all library function bodies.",
    },
}

# Reasons for every property that has no registered check (yet, or ever).  bin/mkmanifest lists exactly the ids
# that are not in PROPS.
NOT_APPLICABLE = {
    "C01": "floating-point DFT identity with an error bound for every length: its truth lives in twiddle indices, recursion order and rounding, which no sound static argument in reach can bound (memory-safety of plan selection is decided under C05)",
    "C02": "inversion identities are numerical; only the structural clause (validate n before any table is built, helper precondition entailed by live checks) is decidable and is claimed when its rule exists",
    "C03": "element-wise values are numerical; the type-promotion table, length-guard dominance and value-semantics clauses are decidable and are claimed when their rules exist",
    "C04": "index-resolution arithmetic against Python is a run-time quantifier; guard, aliasing, copy-agreement and noexcept clauses are decidable and are claimed when their rules exist",
    "C05": "value-range safety of index arithmetic inside kernels and termination are not decidable from shape; guard-completeness clauses are claimed when their rules exist",
    "C07": "numerical equality with a defining sum for all coefficient vectors and inputs",
    "C10": "recency order of eviction is a run-time history property; purity/key/pairing/capacity clauses are claimed when their rules exist",
    "C12": "convergence and the e = d - y arithmetic are numerical; lock dominance and a-priori ordering are claimed when their rule exists",
    "C13": "power conservation and peak-versus-axis agreement are numerical/ordering facts of run-time arrays",
    "C14": "analytic-signal and phase-accumulator identities are numerical; the admissible-frequency test clause is claimed when its rule exists",
    "C15": "agreement with number theory is value-level; the no-wrap clause of the trial-division bound is claimed when its rule exists",
    "C16": "sort/median correctness is value-level; the both-samples-influence clause is claimed when its rule exists",
    "C17": "values of libm-based formulas at all finite inputs",
    "C18": "index recovery from correlation peaks of random signals is a statistical/numerical property of run-time data",
    "C20": "gain range, monotone smoothing and settling are numerical; integer-division and clamp-dominance clauses are claimed when their rules exist",
}
