"""property -> rules registry (claimed properties only)"""
from . import rules_state

RULES = {
    "P1": rules_state.rule_P1,
    "P2": rules_state.rule_P2,
    "P2b": rules_state.rule_P2b,
}

PROPS = {
    "C09": {
        "id": "C09",
        "title": "Concurrent use from several threads is race-free and result-preserving",
        "rules": ["P1", "P2"],
        "clause": "all structural preconditions of race freedom: no mutable static-storage state that is not thread_local; "
                  "every const operation of every transform-plan class is free of writes to storage reachable from the object",
        "not_decided": "that each call returns what it would return single-threaded (follows from race freedom, not checked as values); "
                       "thread safety of the standard library itself",
        "explanation": "Free functions and distinct objects can share memory only through static storage (P2 enumerates every "
                       "static-storage variable of the library and requires constexpr/const/thread_local/sync type) or through "
                       "plan objects handed out as shared_ptr, on which only const operations exist and these must not write "
                       "object-reachable storage (P1: mutable members, const-removing casts, writes and non-const calls/arguments "
                       "rooted at pointer-like members, in every const method of every plan class).",
    },
    "C19": {
        "id": "C19",
        "title": "Noise injection and SNR/THD measurement are calibrated; random streams reproduce",
        "rules": ["P2b"],
        "clause": "one thread_local engine is the only entropy source of every generator and of awgn (reproducibility after rng(seed), per-thread independence)",
        "not_decided": "noise power calibration, SNR/THD/SINAD accuracy, randi bounds",
        "explanation": "P2b enumerates every static engine object, every local engine, every distribution draw site and every call "
                       "of a known entropy source in all library function bodies.",
    },
}
