"""Obligations, known findings, floors, evidence – shared by all rules."""
import hashlib
import json
import os
import re
import time

VERIF = os.path.dirname(os.path.dirname(os.path.abspath(__file__)))
EVIDENCE_DIR = os.path.join(VERIF, "evidence")
OUT_DIR = os.path.join(VERIF, "out")
KNOWN_FINDINGS = os.path.join(VERIF, "known_findings.txt")
FLOORS = os.path.join(VERIF, "rules", "floors.json")

DISCHARGED, VIOLATED, UNMODELLED = "discharged", "violated", "unmodelled"
INHERITS = "inherits"   # fails only because something it delegates to is violated (reported there)


class Ob:
    """one obligation of one rule: a named construct and the verdict for it"""

    def __init__(self, rule, key, verdict, where, what, reason, func=None, path=None, extra=None):
        self.rule = rule
        self.key = key            # stable, line-free identity (rule:symbol[:detail])
        self.verdict = verdict
        self.where = where        # file:line (reports only)
        self.what = what          # the construct, human readable
        self.reason = reason      # guard found / idiom recognised / offending path
        self.func = func
        self.path = path or []
        self.extra = extra or {}

    def to_json(self):
        d = {"rule": self.rule, "key": self.key, "verdict": self.verdict, "where": self.where,
             "construct": self.what, "reason": self.reason}
        if self.func:
            d["function"] = self.func
        if self.path:
            d["path"] = self.path
        if self.extra:
            d.update(self.extra)
        return d


class RuleResult:
    def __init__(self, rule, template):
        self.rule = rule
        self.template = template   # one-sentence statement of the rule applied
        self.obs = []
        self.stats = {}
        self.broken = []           # analysis-broken messages (anchor vanished ...)

    def add(self, *a, **kw):
        ob = Ob(self.rule, *a, **kw)
        self.obs.append(ob)
        return ob

    def count(self, verdict):
        return sum(1 for o in self.obs if o.verdict == verdict)

    def instances(self):
        return len(self.obs)


def load_known_findings():
    findings, fixed = [], []
    if not os.path.exists(KNOWN_FINDINGS):
        return findings, fixed
    for raw in open(KNOWN_FINDINGS):
        line = raw.strip()
        if not line or line.startswith("#"):
            continue
        if line.startswith("finding:"):
            m = re.match(r"finding:\s+property=(\S+)\s+rule=(\S+)\s+key=(\S+)\s+(.*)", line)
            if m:
                findings.append({"property": m.group(1), "rule": m.group(2), "key": m.group(3), "what": m.group(4)})
        elif line.startswith("fixed:"):
            m = re.match(r"fixed:\s+property=(\S+)\s+(\S+)\s+(.*)", line)
            if m:
                fixed.append({"property": m.group(1), "commit": m.group(2), "what": m.group(3)})
    return findings, fixed


def load_floors():
    if os.path.exists(FLOORS):
        return json.load(open(FLOORS))
    return {}


def write_replay(prop, ob, context):
    d = os.path.join(OUT_DIR, prop)
    os.makedirs(d, exist_ok=True)
    h = hashlib.sha1(ob.key.encode()).hexdigest()[:12]
    path = os.path.join(d, "%s_%s.json" % (ob.rule, h))
    j = ob.to_json()
    j["property"] = prop
    j.update(context)
    with open(path, "w") as fh:
        json.dump(j, fh, indent=1)
    return path


def write_evidence(prop, tier, level, coverage, assumptions, wall_s, violations):
    os.makedirs(EVIDENCE_DIR, exist_ok=True)
    seed = 0
    try:
        seed = int(os.environ.get("VERIF_SEED", "0"))
    except ValueError:
        seed = 0
    ev = {"property_id": prop, "tier": tier, "seed": seed, "level": level, "coverage": coverage,
          "assumptions": assumptions, "wall_s": round(wall_s, 3), "violations": violations}
    path = os.path.join(EVIDENCE_DIR, "%s.json" % prop)
    tmp = path + ".tmp.%d" % os.getpid()
    with open(tmp, "w") as fh:
        json.dump(ev, fh, indent=1)
        fh.write("\n")
    os.replace(tmp, path)
    return path
