"""Rebuild the analysed program from the repository's *current* working tree.

  * instantiates <gen>/dsplib/defs.h from cmake/defs.h.in the way configure_file() does
  * writes a compile database for every lib/**/*.cpp (the CMake glob) plus the generated coverage unit
  * runs /verif/build/dsplint on all units in parallel (one json per unit)
Facts are cached under /verif/build/facts/<key>/, keyed by a hash of every input (sources, tool, flags),
so several property checks on the same tree share one extraction; nothing is trusted across different trees.
"""
import fcntl
import glob
import hashlib
import json
import os
import re
import shutil
import subprocess
import sys
import time
from concurrent.futures import ThreadPoolExecutor

VERIF = os.path.dirname(os.path.dirname(os.path.abspath(__file__)))
BUILD = os.path.join(VERIF, "build")
TOOL_SRC = os.path.join(VERIF, "tool", "dsplint.cc")
TOOL_BIN = os.path.join(BUILD, "dsplint")
LLVM_LIBS = ["/usr/lib/llvm-14/lib/libclang-cpp.so.14", "/usr/lib/llvm-14/lib/libLLVM-14.so"]


class AnalysisBroken(Exception):
    """exit 2: the analysis could not be carried out (never a pass, never a violation)"""


def repo_root():
    return os.environ.get("DSPLINT_REPO", "/repo")


def sh(cmd, **kw):
    return subprocess.run(cmd, stdout=subprocess.PIPE, stderr=subprocess.PIPE, universal_newlines=True, **kw)


def build_tool(force=False):
    os.makedirs(BUILD, exist_ok=True)
    if (not force and os.path.exists(TOOL_BIN)
            and os.path.getmtime(TOOL_BIN) >= os.path.getmtime(TOOL_SRC)):
        return
    lock = open(os.path.join(BUILD, ".tool.lock"), "w")
    fcntl.flock(lock, fcntl.LOCK_EX)
    try:
        if (not force and os.path.exists(TOOL_BIN)
                and os.path.getmtime(TOOL_BIN) >= os.path.getmtime(TOOL_SRC)):
            return
        cxxflags = sh(["llvm-config-14", "--cxxflags"]).stdout.split()
        tmp = TOOL_BIN + ".tmp.%d" % os.getpid()
        r = sh(["clang++"] + cxxflags + ["-fno-rtti", "-O1", TOOL_SRC, "-o", tmp] + LLVM_LIBS)
        if r.returncode != 0:
            raise AnalysisBroken("dsplint does not build:\n" + r.stderr[-3000:])
        os.replace(tmp, TOOL_BIN)
    finally:
        fcntl.flock(lock, fcntl.LOCK_UN)
        lock.close()


def resource_dir():
    return sh(["clang++", "-print-resource-dir"]).stdout.strip()


class Config:
    def __init__(self, float32=False, no_exceptions=False, cache_size=None):
        self.float32 = float32
        self.no_exceptions = no_exceptions
        self.cache_size = cache_size   # None: the CMake default

    @property
    def name(self):
        return "%s-%s-c%s" % ("f32" if self.float32 else "f64", "noexc" if self.no_exceptions else "exc",
                              "d" if self.cache_size is None else self.cache_size)


def parse_cmake(root):
    """project version, default cache size and the compile-definition wiring, from CMakeLists.txt"""
    path = os.path.join(root, "CMakeLists.txt")
    try:
        txt = open(path).read()
    except OSError as e:
        raise AnalysisBroken("anchor vanished: %s (%s)" % (path, e))
    m = re.search(r"project\s*\(\s*dsplib[^)]*VERSION\s+([0-9]+)\.([0-9]+)\.([0-9]+)", txt)
    if not m:
        raise AnalysisBroken("anchor vanished: project(dsplib ... VERSION x.y.z) in CMakeLists.txt")
    ver = m.groups()
    m = re.search(r'set\s*\(\s*DSPLIB_FFT_CACHE_SIZE\s+"?([^"\s)]+)"?\s+CACHE', txt)
    if not m:
        raise AnalysisBroken("anchor vanished: set(DSPLIB_FFT_CACHE_SIZE ... CACHE ...) in CMakeLists.txt")
    default_cache = m.group(1)
    m = re.search(r'target_compile_definitions\s*\(\s*\$\{PROJECT_NAME\}\s+\w+\s+"?([^")]+)"?\s*\)', txt, re.S)
    if not m:
        raise AnalysisBroken("anchor vanished: target_compile_definitions(${PROJECT_NAME} ...) in CMakeLists.txt")
    defs = m.group(1).split()
    return {"version": ver, "default_cache": default_cache, "definitions": defs, "text": txt}


def gen_defs_h(root, cfg, gen_dir, cm):
    src = os.path.join(root, "cmake", "defs.h.in")
    try:
        txt = open(src, newline="").read()
    except OSError as e:
        raise AnalysisBroken("anchor vanished: %s (%s)" % (src, e))
    values = {"DSPLIB_NO_EXCEPTIONS": cfg.no_exceptions, "DSPLIB_USE_FLOAT32": cfg.float32}

    def cmakedefine(m):
        name = m.group(1)
        rest = m.group(2) or ""
        if values.get(name):
            return "#define %s%s" % (name, rest)
        return "/* #undef %s */" % name

    txt = re.sub(r"#cmakedefine\s+(\w+)([^\r\n]*)", cmakedefine, txt)
    ver = cm["version"]
    subst = {"CMAKE_PROJECT_VERSION": ".".join(ver), "CMAKE_PROJECT_VERSION_MAJOR": ver[0],
             "CMAKE_PROJECT_VERSION_MINOR": ver[1], "CMAKE_PROJECT_VERSION_PATCH": ver[2]}
    txt = re.sub(r"@(\w+)@", lambda m: subst.get(m.group(1), ""), txt)
    os.makedirs(os.path.join(gen_dir, "dsplib"), exist_ok=True)
    with open(os.path.join(gen_dir, "dsplib", "defs.h"), "w", newline="") as fh:
        fh.write(txt)


def lib_units(root):
    units = sorted(glob.glob(os.path.join(root, "lib", "**", "*.cpp"), recursive=True))
    if len(units) < 20:
        raise AnalysisBroken("only %d library units under %s/lib (expected >= 20)" % (len(units), root))
    return units


def flags_for(root, cfg, gen_dir, cm):
    fl = ["-std=c++17", "-UNDEBUG", "-I" + os.path.join(root, "include"), "-I" + gen_dir,
          "-I" + os.path.join(root, "lib"), "-Wno-everything", "-ferror-limit=0"]
    for d in cm["definitions"]:
        d = d.strip('"')
        if "DSPLIB_FFT_CACHE_SIZE" in d:
            val = cm["default_cache"] if cfg.cache_size is None else str(cfg.cache_size)
            d = d.replace("${DSPLIB_FFT_CACHE_SIZE}", val)
        fl.append("-D" + d)
    if cfg.no_exceptions:
        fl.append("-fno-exceptions")
    return fl


COVERAGE_HEADER = r"""// generated by /verif/dsplint/build.py -- instantiates what no library unit instantiates
#include <dsplib.h>
#include <dsplib/delay.h>
#include <dsplib/indexing.h>
#include <dsplib/slice.h>
%(lib_includes)s
#include <complex>
#include <memory>
#include <vector>

namespace dsplib {
template class base_array<real_t>;
template class base_array<cmplx_t>;
template class const_slice_t<real_t>;
template class const_slice_t<cmplx_t>;
template class slice_t<real_t>;
template class slice_t<cmplx_t>;
template struct SliceIterator<real_t>;
template struct SliceIterator<cmplx_t>;
template struct SliceIterator<const real_t>;
template struct SliceIterator<const cmplx_t>;
template class LmsFilter<real_t>;
template class LmsFilter<cmplx_t>;
template class RlsFilter<real_t>;
template class RlsFilter<cmplx_t>;
template class FirFilter<real_t>;
template class FirFilter<cmplx_t>;
template class Delay<real_t>;
template class Delay<cmplx_t>;
template class MAFilter<real_t>;
template class MAFilter<cmplx_t>;
template class LRUCache<int, std::shared_ptr<BaseFftPlanC>>;
template class LRUCache<int, std::shared_ptr<BaseFftPlanR>>;
}   // namespace dsplib

namespace dsplint_coverage {
using namespace dsplib;
"""


def coverage_unit_text(root):
    lib_headers = sorted(glob.glob(os.path.join(root, "lib", "**", "*.h"), recursive=True))
    incs = "\n".join('#include "%s"' % os.path.relpath(h, os.path.join(root, "lib")) for h in lib_headers)
    out = [COVERAGE_HEADER % {"lib_includes": incs}]
    arrays = [("arr_real", "ar"), ("arr_cmplx", "ac")]
    scalars = ["real_t", "cmplx_t", "int", "float", "std::complex<double>", "std::complex<float>"]
    n = 0
    for op in ["+", "-", "*", "/"]:
        for (a, _) in arrays:
            for (b, _) in arrays:
                out.append("auto use_%d(const %s& a, const %s& b) { return a %s b; }" % (n, a, b, op)); n += 1
                if not (a == "arr_real" and b == "arr_cmplx"):   # "the operation changes the type": T1's compile-fail witness
                    out.append("void use_%d(%s& a, const %s& b) { a %s= b; }" % (n, a, b, op)); n += 1
            for s in scalars:
                out.append("auto use_%d(const %s& a, const %s& b) { return a %s b; }" % (n, a, s, op)); n += 1
                out.append("auto use_%d(const %s& a, const %s& b) { return a %s b; }" % (n, s, a, op)); n += 1
                if not (a == "arr_real" and ("cmplx" in s or "complex" in s)):
                    out.append("void use_%d(%s& a, const %s& b) { a %s= b; }" % (n, a, s, op)); n += 1
    for (a, _) in arrays:
        for (b, _) in arrays:
            out.append("auto use_%d(const %s& a, const %s& b) { return a | b; }" % (n, a, b)); n += 1
            if not (a == "arr_real" and b == "arr_cmplx"):
                out.append("void use_%d(%s& a, const %s& b) { a |= b; }" % (n, a, b)); n += 1
        out.append("auto use_%d(const %s& a) { return -a; }" % (n, a)); n += 1
        out.append("auto use_%d(const %s& a) { return +a; }" % (n, a)); n += 1
        out.append("auto use_%d(%s& a, const std::vector<int>& i) { return a[i]; }" % (n, a)); n += 1
        out.append("auto use_%d(%s& a, const std::vector<bool>& i) { return a[i]; }" % (n, a)); n += 1
        out.append("auto use_%d(const %s& a) { return a.slice(0, 1); }" % (n, a)); n += 1
        out.append("auto use_%d(%s& a) { return a.slice(0, 1); }" % (n, a)); n += 1
        out.append("auto use_%d(const %s& a) { return a.apply([](auto v) { return v; }); }" % (n, a)); n += 1
        out.append("auto use_%d(const %s& a) { return a.to_vec(); }" % (n, a)); n += 1
        out.append("auto use_%d(const %s& a) { return zeropad(a, 8); }" % (n, a)); n += 1
        out.append("auto use_%d(const %s& a) { return delayseq(a, 1); }" % (n, a)); n += 1
        out.append("auto use_%d(const %s& a) { return concatenate(a, a); }" % (n, a)); n += 1
    out.append("}   // namespace dsplint_coverage\n")
    return "\n".join(out)


def source_hash(root, extra):
    h = hashlib.sha256()
    pats = ["CMakeLists.txt", "cmake/defs.h.in", "include/**/*.h", "lib/**/*.h", "lib/**/*.cpp"]
    files = []
    for p in pats:
        files += glob.glob(os.path.join(root, p), recursive=True)
    for f in sorted(set(files)):
        h.update(os.path.relpath(f, root).encode())
        h.update(b"\0")
        with open(f, "rb") as fh:
            h.update(fh.read())
        h.update(b"\0")
    for x in extra:
        h.update(str(x).encode())
        h.update(b"\0")
    return h.hexdigest()[:24]


def _run_unit(args):
    unit, out, root, flags, also = args
    cmd = [TOOL_BIN, "--root=" + root, "--out=" + out]
    for a in also:
        cmd.append("--also=" + a)
    cmd += [unit, "--"] + flags + ["-resource-dir", resource_dir_cached()]
    t0 = time.time()
    r = sh(cmd)
    return unit, out, r.returncode, r.stderr[-2000:], time.time() - t0


_RES = None


def resource_dir_cached():
    global _RES
    if _RES is None:
        _RES = resource_dir()
    return _RES


def extract(cfg=None, root=None, extra_units=(), extra_flags=(), tag="lib", tolerate_errors_in=("coverage.cc",),
            also_roots=(), with_library=True):
    """Returns (list of fact json paths, info dict).  Raises AnalysisBroken on any unit that does not parse."""
    cfg = cfg or Config()
    root = root or repo_root()
    build_tool()
    cm = parse_cmake(root)
    tool_stamp = "%d" % os.path.getmtime(TOOL_BIN)
    units_extra = [os.path.abspath(u) for u in extra_units]
    extra_hash = []
    for u in units_extra:
        with open(u, "rb") as fh:
            extra_hash.append(hashlib.sha256(fh.read()).hexdigest())
    cov_text = coverage_unit_text(root) if with_library else ""
    gen_probe = flags_for(root, cfg, "<gen>", cm)
    key = source_hash(root, [root, cfg.name, tool_stamp, tag, with_library, hashlib.sha256(cov_text.encode()).hexdigest()]
                      + gen_probe + list(extra_flags) + extra_hash + list(also_roots))
    fdir = os.path.join(BUILD, "facts", key)
    done = os.path.join(fdir, "DONE.json")
    os.makedirs(os.path.join(BUILD, "facts"), exist_ok=True)
    lock = open(os.path.join(BUILD, "facts", ".lock"), "w")
    fcntl.flock(lock, fcntl.LOCK_EX)
    try:
        if os.path.exists(done):
            info = json.load(open(done))
            info["cached"] = True
            return [os.path.join(fdir, f) for f in info["files"]], info
        _gc_facts(keep=key)
        if os.path.isdir(fdir):
            shutil.rmtree(fdir)
        os.makedirs(fdir)
        gen = os.path.join(fdir, "gen")
        gen_defs_h(root, cfg, gen, cm)
        flags = flags_for(root, cfg, gen, cm) + list(extra_flags)
        units = []
        if with_library:
            units += lib_units(root)
            cov = os.path.join(fdir, "coverage.cc")
            with open(cov, "w") as fh:
                fh.write(cov_text)
            units.append(cov)
        units += units_extra
        # compile database (also handy for cross-reference linters)
        db = [{"directory": fdir, "file": u, "arguments": ["clang++"] + flags + ["-c", u]} for u in units]
        with open(os.path.join(fdir, "compile_commands.json"), "w") as fh:
            json.dump(db, fh, indent=1)
        jobs = []
        for i, u in enumerate(units):
            out = os.path.join(fdir, "u%03d_%s.json" % (i, re.sub(r"[^A-Za-z0-9]+", "_", os.path.basename(u))))
            jobs.append((u, out, root, flags, list(also_roots) + [fdir]))
        t0 = time.time()
        with ThreadPoolExecutor(max_workers=min(16, os.cpu_count() or 4)) as ex:
            results = list(ex.map(_run_unit, jobs))
        files = []
        unit_diags = {}
        for (u, out, rc, err, dt) in results:
            if not os.path.exists(out):
                raise AnalysisBroken("dsplint produced no facts for %s (rc=%d)\n%s" % (u, rc, err))
            j = json.load(open(out))
            if j.get("diags"):
                if os.path.basename(u) in tolerate_errors_in:
                    unit_diags[u] = j["diags"]
                else:
                    d0 = j["diags"][0]
                    raise AnalysisBroken("unit does not parse: %s: %s:%s: %s" % (u, d0.get("file"), d0.get("line"), d0.get("msg")))
            files.append(os.path.basename(out))
        info = {"key": key, "config": cfg.name, "root": root, "units": [os.path.relpath(u, root) if u.startswith(root) else os.path.basename(u) for u in units],
                "files": files, "flags": flags, "extract_s": round(time.time() - t0, 2), "tolerated_diags": unit_diags,
                "cached": False, "dir": fdir}
        with open(done, "w") as fh:
            json.dump(info, fh, indent=1)
        return [os.path.join(fdir, f) for f in files], info
    finally:
        fcntl.flock(lock, fcntl.LOCK_UN)
        lock.close()


def _gc_facts(keep, max_dirs=40):
    base = os.path.join(BUILD, "facts")
    dirs = [d for d in glob.glob(os.path.join(base, "*")) if os.path.isdir(d) and os.path.basename(d) != keep]
    dirs.sort(key=os.path.getmtime)
    while len(dirs) >= max_dirs:
        shutil.rmtree(dirs.pop(0), ignore_errors=True)


def syntax_only(source_text, cfg=None, root=None, name="w.cc", workdir=None, extra_flags=()):
    """compile one generated unit with clang++ -fsyntax-only against the repo headers; returns (rc, stderr)"""
    cfg = cfg or Config()
    root = root or repo_root()
    cm = parse_cmake(root)
    workdir = workdir or os.path.join(BUILD, "witness")
    gen = os.path.join(workdir, "gen-" + cfg.name)
    if not os.path.exists(os.path.join(gen, "dsplib", "defs.h")):
        gen_defs_h(root, cfg, gen, cm)
    path = os.path.join(workdir, name)
    with open(path, "w") as fh:
        fh.write(source_text)
    flags = flags_for(root, cfg, gen, cm)
    flags = [f for f in flags if f != "-Wno-everything"]
    r = sh(["clang++", "-fsyntax-only", "-ferror-limit=0", "-w"] + flags + list(extra_flags) + [path])
    return r.returncode, r.stderr
