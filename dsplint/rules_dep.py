"""D1 ARG-INFLUENCE: a two-sample statistic depends on the contents of both samples  (C16)"""
import re

from .core import RuleResult, DISCHARGED, VIOLATED, UNMODELLED
from .flow import Flow, is_container_type
from .rules_state import fkey

# confirmed table: functions of lib/corr.cpp whose value is a statistic of all their array parameters
D1_TABLE = re.compile(r"^dsplib::(\(anonymous namespace\)::)?(_pearson_corr|_spearman_corr|_kendall_corr|_get_ranks|corr)$")


def rule_D1(prog, fixture=False):
    res = RuleResult("D1", "the value returned by each correlation kernel (per return statement) may-depends on the contents of "
                           "every array parameter; size()/empty() are shape uses and do not count.  May-dependence "
                           "over-approximates, so an absent dependence is definite")
    funcs = sorted([f for f in prog.functions.values() if D1_TABLE.match(f.qn) and not f.get("implicit")],
                   key=lambda f: (f.file, f.line))
    if not funcs:
        res.broken.append("anchor vanished: none of _pearson_corr/_spearman_corr/_kendall_corr/corr found")
        return res
    for f in funcs:
        arrays = [p for p in f.params if is_container_type(p.get("t", "")) or p.get("tc") == "ptr"]
        if not arrays:
            continue
        flow = Flow(f, prog, control=True)
        rets = [n for n in f.walk() if n.k == "ReturnStmt" and n.c and not any(a.k == "LambdaExpr" for a in n.ancestors())]
        idx = 0
        for r in rets:
            deps = flow.deps(r.c[0]) | flow._control_atoms(r)
            # the switch selector / guards of corr() are control context of every arm; they only involve sizes and the enum
            content = {a[1] for a in deps if a[0] == "parm" and a[2] == "content"}
            any_array = {a[1] for a in deps if a[0] == "parm" and a[1] in {p["n"] for p in arrays}}
            direct = flow.deps(r.c[0])
            if not any(a[0] == "parm" and a[2] == "content" for a in direct) and not any(a[0] == "parm" for a in direct):
                continue      # constant return (default arm)
            idx += 1
            key = "D1:%s:return%d" % (fkey(f), idx)
            where = "%s:%d" % (prog.rel(f.file), r.line)
            what = "%s in %s" % (r.text(), f.short)
            missing = [p["n"] for p in arrays if p["n"] not in content]
            if missing:
                res.add(key, VIOLATED, where, what,
                        "the returned value does not depend on the contents of %s (only on %s): the statistic is a function of "
                        "the other sample alone" % (", ".join(missing), ", ".join(sorted("%s.%s" % (a[1], a[2]) for a in deps if a[0] == "parm")) or "nothing"),
                        func=f.name)
            else:
                res.add(key, DISCHARGED, where, what, "depends on the contents of %s" % ", ".join(p["n"] for p in arrays), func=f.name)
    res.stats["kernels"] = [f.short for f in funcs]
    return res
