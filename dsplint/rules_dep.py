"""D1 ARG-INFLUENCE: a two-sample statistic depends on the contents of both samples  (C16)"""
import re

from .core import RuleResult, DISCHARGED, VIOLATED, UNMODELLED
from .flow import Flow, is_container_type
from .rules_state import fkey

# confirmed table: functions of lib/corr.cpp whose value is a statistic of all their array parameters
D1_TABLE = re.compile(r"^dsplib::(\(anonymous namespace\)::)?(_pearson_corr|_spearman_corr|_kendall_corr|_get_ranks|corr)$")


def rule_D1(prog, fixture=False):
    res = RuleResult("D1", "the value returned by each correlation kernel (per return statement) may-depends on the contents of "
                           "every array parameter; size()/empty() are shape uses and do not count.  May-dependence "
                           "over-approximates, so an absent dependence is definite")
    funcs = sorted([f for f in prog.functions.values() if D1_TABLE.match(f.qn) and not f.get("implicit")],
                   key=lambda f: (f.file, f.line))
    if not funcs:
        res.broken.append("anchor vanished: none of _pearson_corr/_spearman_corr/_kendall_corr/corr found")
        return res
    for f in funcs:
        arrays = [p for p in f.params if is_container_type(p.get("t", "")) or p.get("tc") == "ptr"]
        if not arrays:
            continue
        flow = Flow(f, prog, control=True)
        rets = [n for n in f.walk() if n.k == "ReturnStmt" and n.c and not any(a.k == "LambdaExpr" for a in n.ancestors())]
        idx = 0
        for r in rets:
            deps = flow.deps(r.c[0]) | flow._control_atoms(r)
            # the switch selector / guards of corr() are control context of every arm; they only involve sizes and the enum
            content = {a[1] for a in deps if a[0] == "parm" and a[2] == "content"}
            any_array = {a[1] for a in deps if a[0] == "parm" and a[1] in {p["n"] for p in arrays}}
            direct = flow.deps(r.c[0])
            if not any(a[0] == "parm" and a[2] == "content" for a in direct) and not any(a[0] == "parm" for a in direct):
                continue      # constant return (default arm)
            idx += 1
            key = "D1:%s:return%d" % (fkey(f), idx)
            where = "%s:%d" % (prog.rel(f.file), r.line)
            what = "%s in %s" % (r.text(), f.short)
            missing = [p["n"] for p in arrays if p["n"] not in content]
            if missing:
                res.add(key, VIOLATED, where, what,
                        "the returned value does not depend on the contents of %s (only on %s): the statistic is a function of "
                        "the other sample alone" % (", ".join(missing), ", ".join(sorted("%s.%s" % (a[1], a[2]) for a in deps if a[0] == "parm")) or "nothing"),
                        func=f.name)
            else:
                res.add(key, DISCHARGED, where, what, "depends on the contents of %s" % ", ".join(p["n"] for p in arrays), func=f.name)
    res.stats["kernels"] = [f.short for f in funcs]
    return res


# =================================================================================================
# D2 SENTINEL-INFLUENCE: the end iterator of a strided range is a function of where the range starts  (C04, C05)
SLICE_CLASS = re.compile(r"^dsplib::(base_slice_t|const_slice_t|slice_t)<")


def _ret_fields(prog, f, depth=0):
    """members of *this the returned value may depend on, member functions called on *this resolved (depth 3)"""
    flow = Flow(f, prog, control=True)
    deps = flow.return_deps()
    fields = {a[1] for a in deps if a[0] == "this" and a[1] != "*"}
    if any(a[0] == "this" and a[1] == "*" for a in deps):
        for n in f.walk():
            if n.k != "CXXMemberCallExpr" or not n.callee:
                continue
            obj = n.call_object()
            if obj is not None and obj.strip_all().k != "CXXThisExpr":
                continue
            g = prog.functions.get(n.callee.get("usr"))
            if g is None or depth >= 3 or g.usr == f.usr:
                fields.add("*")
            else:
                fields |= _ret_fields(prog, g, depth + 1)
    return fields


def rule_D2(prog, fixture=False):
    res = RuleResult("D2", "the iterator returned by end() of every slice class may-depends on every integer member begin() depends on "
                           "(start and step) and on a member that carries the extent: the walk from begin() advances by the step, so a "
                           "sentinel that is not a function of the start cannot be the position the walk arrives at")
    ends = sorted([f for f in prog.functions.values() if f.cls and (SLICE_CLASS.match(f.cls) or (fixture and "slice" in f.cls.lower()))
                   and f.name.rsplit("::", 1)[-1] in ("end", "cend") and not f.get("implicit")], key=lambda f: (f.cls, f.line, f.name))
    if not ends and not fixture:
        res.broken.append("anchor vanished: no end() member of a slice class")
        return res
    for f in ends:
        cj = prog.classes.get(f.cls) or {}
        ints = {x["name"] for x in cj.get("fields", []) if re.match(r"^(const )?(int|long|unsigned int|unsigned long|size_t)$", x["ctype"])}
        # fields of base classes
        for b in cj.get("bases", []):
            bj = prog.classes.get(b.get("type")) or {}
            ints |= {x["name"] for x in bj.get("fields", []) if re.match(r"^(const )?(int|long|unsigned int|unsigned long|size_t)$", x["ctype"])}
        begins = [g for g in prog.functions.values() if g.cls == f.cls and g.name.rsplit("::", 1)[-1] in ("begin", "cbegin")
                  and bool(g.get("const")) == bool(f.get("const"))]
        if not begins:
            begins = [g for g in prog.functions.values() if g.cls == f.cls and g.name.rsplit("::", 1)[-1] in ("begin", "cbegin")]
        key = "D2:%s%s" % (fkey(f), ":const" if f.get("const") else "")
        where = "%s:%d" % (prog.rel(f.file), f.line)
        what = "%s%s" % (f.short, " const" if f.get("const") else "")
        extra = {"props": ["C04", "C05"]}
        if not begins:
            res.add(key, UNMODELLED, where, what, "no begin() to compare with", func=f.name, extra=extra)
            continue
        start = _ret_fields(prog, begins[0]) & ints
        mine = _ret_fields(prog, f)
        if "*" in mine:
            res.add(key, UNMODELLED, where, what, "calls on *this that are not resolved", func=f.name, extra=extra)
            continue
        missing = sorted(start - mine)
        extent = (mine & ints) - start
        if missing:
            res.add(key, VIOLATED, where, what,
                    "the returned iterator does not depend on %s (it depends on %s), but begin() does: for a step other than +-1 the "
                    "walk from begin() steps over this sentinel and runs past the storage" % (", ".join(missing), ", ".join(sorted(mine)) or "nothing"),
                    func=f.name, extra=extra)
        elif not extent:
            res.add(key, VIOLATED, where, what, "the returned iterator depends on no member that carries the extent of the slice (only on %s)"
                    % ", ".join(sorted(mine)), func=f.name, extra=extra)
        else:
            res.add(key, DISCHARGED, where, what, "depends on the start/step members {%s} and on the extent {%s}" % (
                ", ".join(sorted(start)), ", ".join(sorted(extent))), func=f.name, extra=extra)
    return res
