"""A2 LEMMA-GROUNDING: what the call-chain prover assumes about a repository predicate is established from its body (C02, C05)

The prover of chain.py (used by A1, Z2 and G7) closes its fact sets under two lemmas about repository predicates:
    ispow2(e)  holds  =>  e >= 1          isprime(e)  holds  =>  e >= 2
so `if (!ispow2(n)) throw` counts as a check that rejects n <= 0.  The lemmas are statements about the bodies of those
functions; this rule decides them from the bodies:

  * proof: every return statement that can yield `true` either lies behind branch outcomes that bound the parameter from below
    by the lemma's bound, or returns a conjunction with a conjunct that does (a comparison with a literal, or an equality with
    an expression that is positive by construction: a literal, `1 << x`);
  * refutation: constant propagation with the parameter bound to a value below the bound (0, -1, ...) through the body and the
    repository functions it calls; a run that folds to `true` is a definite counterexample.  Only integer arithmetic on
    constants is folded, with C++'s conversion rules; anything else (containers, library calls, signed overflow) is unknown;
  * an unsigned parameter has finitely many values below the bound; if all of them fold to `false` the lemma holds.
"""
from .core import RuleResult, DISCHARGED, VIOLATED, UNMODELLED
from .guards import as_comparison
from .ir import atoms_of

LEMMAS = [
    ("dsplib::ispow2", 1, "ispow2(m) implies m >= 1"),
    ("dsplib::isprime", 2, "isprime(n) implies n >= 2"),
]


class Unknown(Exception):
    pass


class _Return(Exception):
    def __init__(self, v):
        self.v = v


class _Break(Exception):
    pass


class _Continue(Exception):
    pass


def _wrap(v, n):
    """value of type of node n (width/signedness from the typed AST); signed overflow is undefined -> Unknown"""
    if isinstance(v, bool) or n.tc == "bool":
        return bool(v)
    if n.tc != "int" and n.tc != "enum":
        raise Unknown("non-integer type %s" % n.type)
    w = n.get("w") or 32
    if n.get("u"):
        return v & ((1 << w) - 1)
    if not (-(1 << (w - 1)) <= v < (1 << (w - 1))):
        raise Unknown("signed overflow")
    return v


def _convert(v, n):
    """implicit / explicit integral conversion to the type of n (modular also for signed targets: implementation-defined
    before C++20, two's complement on every supported target)"""
    if n.tc == "bool":
        return bool(v)
    if n.tc not in ("int", "enum"):
        raise Unknown("conversion to %s" % n.type)
    w = n.get("w") or 32
    v = int(v) & ((1 << w) - 1)
    if not n.get("u") and v >= (1 << (w - 1)):
        v -= (1 << w)
    return v


class Folder:
    """constant propagation over the structured AST of integer functions"""

    def __init__(self, prog, fuel=20000):
        self.prog = prog
        self.fuel = fuel
        self.trace = []

    def call(self, f, args, depth=0):
        if depth > 6:
            raise Unknown("call depth")
        body = f.body()
        if body is None:
            raise Unknown("no body for %s" % f.qn)
        env = {}
        for p, a in zip(f.params, args):
            env[p["id"]] = a
        if len(args) != len(f.params):
            raise Unknown("default arguments")
        try:
            self.stmt(body, env, depth)
        except _Return as r:
            return r.v
        raise Unknown("fell off the end of %s" % f.qn)

    # --- statements ---------------------------------------------------------------------
    def stmt(self, s, env, depth):
        self.fuel -= 1
        if self.fuel < 0:
            raise Unknown("step budget exhausted")
        k = s.k
        if k == "CompoundStmt":
            for c in s.c:
                self.stmt(c, env, depth)
        elif k == "ReturnStmt":
            raise _Return(self.expr(s.c[0], env, depth) if s.c else None)
        elif k == "IfStmt":
            cond, then, els = s.role("cond"), s.role("then"), s.role("else")
            if cond is None or then is None or s.role("init") is not None or s.role("condvar") is not None:
                raise Unknown("if with init/var")
            if self.expr(cond, env, depth):
                self.stmt(then, env, depth)
            elif els is not None:
                self.stmt(els, env, depth)
        elif k == "WhileStmt":
            cond, body = s.role("cond"), s.role("body")
            if cond is None or body is None:
                raise Unknown("while shape")
            while self.expr(cond, env, depth):
                self.fuel -= 1
                if self.fuel < 0:
                    raise Unknown("step budget exhausted")
                try:
                    self.stmt(body, env, depth)
                except _Break:
                    break
                except _Continue:
                    pass
        elif k == "DoStmt":
            cond, body = s.role("cond"), s.role("body")
            if cond is None or body is None:
                raise Unknown("do shape")
            while True:
                self.fuel -= 1
                if self.fuel < 0:
                    raise Unknown("step budget exhausted")
                try:
                    self.stmt(body, env, depth)
                except _Break:
                    break
                except _Continue:
                    pass
                if not self.expr(cond, env, depth):
                    break
        elif k == "ForStmt":
            init, cond, inc, body = s.role("init"), s.role("cond"), s.role("inc"), s.role("body")
            if body is None:
                raise Unknown("for shape")
            if init is not None:
                self.stmt(init, env, depth)
            while cond is None or self.expr(cond, env, depth):
                self.fuel -= 1
                if self.fuel < 0:
                    raise Unknown("step budget exhausted")
                try:
                    self.stmt(body, env, depth)
                except _Break:
                    break
                except _Continue:
                    pass
                if inc is not None:
                    self.expr(inc, env, depth)
        elif k == "DeclStmt":
            for c in s.c:
                self.stmt(c, env, depth)
        elif k == "VarDecl":
            if not s.decl or s.decl.get("k") != "local" or s.tc not in ("int", "bool", "enum"):
                raise Unknown("declaration of %s" % s.type)
            if s.decl.get("sl"):
                raise Unknown("static local")
            env[s.decl["id"]] = _convert(self.expr(s.c[0], env, depth), s) if s.c else None
        elif k == "BreakStmt":
            raise _Break()
        elif k == "ContinueStmt":
            raise _Continue()
        elif k == "NullStmt":
            pass
        elif k in ("CXXThrowExpr",):
            raise Unknown("throws")
        else:
            self.expr(s, env, depth)

    # --- expressions --------------------------------------------------------------------
    def lvalue(self, e, env):
        e = e.strip_all() if hasattr(e, "strip_all") else e
        if e.k == "DeclRefExpr" and e.decl and e.decl.get("k") in ("local", "parm") and e.decl.get("id") in env:
            return e.decl["id"]
        raise Unknown("store to %s" % e.k)

    def expr(self, e, env, depth):
        self.fuel -= 1
        if self.fuel < 0:
            raise Unknown("step budget exhausted")
        k = e.k
        if k == "IntegerLiteral":
            return _convert(int(e.get("v")), e)
        if k == "CXXBoolLiteralExpr":
            return bool(e.get("v") in (True, "true", "1", 1))
        if k in ("ParenExpr", "ExprWithCleanups", "ConstantExpr", "MaterializeTemporaryExpr", "CXXBindTemporaryExpr"):
            return self.expr(e.c[0], env, depth)
        if k in ("ImplicitCastExpr", "CStyleCastExpr", "CXXFunctionalCastExpr", "CXXStaticCastExpr"):
            ck = e.get("ck")
            if not e.c:
                raise Unknown("cast shape")
            inner = e.c[-1]
            if ck in ("LValueToRValue", "NoOp"):
                return self.expr(inner, env, depth)
            if ck in ("IntegralCast", "IntegralToBoolean", "BooleanToSignedIntegral") or (ck is None and e.tc in ("int", "bool")):
                return _convert(self.expr(inner, env, depth), e)
            raise Unknown("cast %s" % ck)
        if k == "DeclRefExpr":
            d = e.decl or {}
            if d.get("k") in ("local", "parm") and d.get("id") in env:
                v = env[d["id"]]
                if v is None:
                    raise Unknown("uninitialised %s" % d.get("n"))
                return v
            raise Unknown("reference to %s" % d.get("n"))
        if k == "UnaryOperator":
            op = e.op
            if op in ("++", "--"):
                key = self.lvalue(e.c[0], env)
                old = env[key]
                if old is None:
                    raise Unknown("uninitialised")
                new = _wrap(old + (1 if op == "++" else -1), e.c[0])
                env[key] = new
                return old if e.get("postfix") else new
            v = self.expr(e.c[0], env, depth)
            if op == "!":
                return not v
            if op == "-":
                return _wrap(-int(v), e)
            if op == "+":
                return _wrap(int(v), e)
            if op == "~":
                return _convert(~int(v), e)
            raise Unknown("unary %s" % op)
        if k == "BinaryOperator":
            op = e.op
            if op == "&&":
                return bool(self.expr(e.c[0], env, depth)) and bool(self.expr(e.c[1], env, depth))
            if op == "||":
                return bool(self.expr(e.c[0], env, depth)) or bool(self.expr(e.c[1], env, depth))
            if op == ",":
                self.expr(e.c[0], env, depth)
                return self.expr(e.c[1], env, depth)
            if op == "=":
                key = self.lvalue(e.c[0], env)
                env[key] = _convert(self.expr(e.c[1], env, depth), e.c[0])
                return env[key]
            a = self.expr(e.c[0], env, depth)
            b = self.expr(e.c[1], env, depth)
            return self.binop(op, int(a), int(b), e, e.c[0])
        if k == "CompoundAssignOperator":
            key = self.lvalue(e.c[0], env)
            if env[key] is None:
                raise Unknown("uninitialised")
            b = self.expr(e.c[1], env, depth)
            # the computation type is not recorded: fold only when both operands already have the target's type
            l, r = e.c[0], e.c[1]
            if (l.get("w"), bool(l.get("u"))) != (r.get("w"), bool(r.get("u"))) and e.op[:-1] not in ("<<", ">>"):
                raise Unknown("mixed compound assignment")
            env[key] = self.binop(e.op[:-1], int(env[key]), int(b), l, l)
            return env[key]
        if k == "ConditionalOperator":
            return self.expr(e.c[1] if self.expr(e.c[0], env, depth) else e.c[2], env, depth)
        if k == "CallExpr" and e.callee and e.callee.get("repo") and not e.callee.get("virt"):
            g = self.prog.functions.get(e.callee.get("usr"))
            if g is None:
                raise Unknown("call of %s (no body)" % e.callee.get("qn"))
            args = []
            for a, p in zip(e.call_args(), g.params):
                if p.get("ref") or p.get("ptr") or p.get("tc") not in ("int", "bool", "enum"):
                    raise Unknown("call with non-integer parameter")
                args.append(self.expr(a, env, depth))
            if len(args) != len(g.params):
                raise Unknown("call arity")
            return self.call(g, args, depth + 1)
        raise Unknown("expression %s" % k)

    def binop(self, op, a, b, e, lhs):
        if op in ("==", "!=", "<", "<=", ">", ">="):
            return {"==": a == b, "!=": a != b, "<": a < b, "<=": a <= b, ">": a > b, ">=": a >= b}[op]
        if op == "+":
            return _wrap(a + b, e)
        if op == "-":
            return _wrap(a - b, e)
        if op == "*":
            return _wrap(a * b, e)
        if op in ("/", "%"):
            if b == 0:
                raise Unknown("division by zero")
            q = abs(a) // abs(b)
            if (a < 0) != (b < 0):
                q = -q
            return _wrap(q if op == "/" else a - q * b, e)
        if op in ("&", "|", "^"):
            v = {"&": a & b, "|": a | b, "^": a ^ b}[op]
            return _convert(v, e)
        if op in ("<<", ">>"):
            w = e.get("w") or 32
            if b < 0 or b >= w:
                raise Unknown("shift amount out of range")
            if op == ">>":
                return _convert(a >> b, e)       # arithmetic for negative signed values on every supported target
            if a < 0:
                raise Unknown("left shift of a negative value")
            return _wrap(a << b, e)
        raise Unknown("operator %s" % op)


# ---- proof side --------------------------------------------------------------------------------------
def _param_ref(n, pid):
    n = n.strip_all()
    return n.k == "DeclRefExpr" and n.decl and n.decl.get("k") == "parm" and n.decl.get("id") == pid


def _literal(n):
    n = n.strip_all()
    if n.k == "IntegerLiteral":
        return int(n.get("v"))
    if n.k == "UnaryOperator" and n.op == "-" and n.c and n.c[0].strip_all().k == "IntegerLiteral":
        return -int(n.c[0].strip_all().get("v"))
    return None


def _min_positive(n):
    """a lower bound >= 1 that the expression has by construction (barring undefined behaviour), else None"""
    n = n.strip_all()
    v = _literal(n)
    if v is not None:
        return v if v >= 1 else None
    if n.k == "BinaryOperator" and n.op == "<<" and len(n.c) == 2:
        base = _min_positive(n.c[0])
        if base is not None and not n.get("u"):
            return base           # a defined signed left shift of a positive value does not decrease it
    return None


def _lower_bound(cond, pol, pid):
    """the lower bound on the parameter that (cond == pol) implies, or None"""
    cmp_ = as_comparison(cond)
    if cmp_ is None:
        return None
    l, op, r = cmp_
    if not pol:
        op = {"==": "!=", "!=": "==", "<": ">=", "<=": ">", ">": "<=", ">=": "<"}[op]
    if _param_ref(r, pid) and not _param_ref(l, pid):
        l, r = r, l
        op = {"<": ">", "<=": ">=", ">": "<", ">=": "<=", "==": "==", "!=": "!="}[op]
    if not _param_ref(l, pid):
        return None
    v = _literal(r)
    if v is not None:
        return {">": v + 1, ">=": v, "==": v}.get(op)
    if op == "==":
        return _min_positive(r)
    return None


def _written(f, pid):
    for x in f.walk():
        if x.k in ("BinaryOperator", "CompoundAssignOperator") and x.op and x.op.endswith("=") and x.op not in ("==", "!=", "<=", ">=") and x.c:
            if _param_ref(x.c[0], pid):
                return True
        if x.k == "UnaryOperator" and x.op in ("++", "--", "&") and x.c and _param_ref(x.c[0], pid):
            return True
    return False


def rule_A2(prog, fixture=False):
    res = RuleResult("A2", "the lemmas the call-chain prover assumes about repository predicates (ispow2(m) => m >= 1, "
                           "isprime(n) => n >= 2) follow from the bodies of those predicates: by the branch outcomes on the way to "
                           "each return and the conjuncts of the returned expression, or they are refuted by constant propagation "
                           "of a value below the bound")
    found = 0
    for (qn, lb, text) in LEMMAS:
        funcs = [f for f in prog.functions.values() if f.qn == qn and not f.get("implicit") and f.body() is not None and len(f.params) == 1]
        for f in sorted(funcs, key=lambda f: (f.file, f.line)):
            found += 1
            p = f.params[0]
            pid = p["id"]
            key = "A2:%s" % qn
            where = "%s:%d" % (prog.rel(f.file), f.line)
            # ---- proof
            open_returns = []
            rets = [n for n in f.walk() if n.k == "ReturnStmt" and n.c and not any(a.k == "LambdaExpr" for a in n.ancestors())]
            stable = not _written(f, pid)
            for r in rets:
                e = r.c[0].strip()
                if e.k == "CXXBoolLiteralExpr" and e.get("v") in (False, "false", "0", 0):
                    continue
                best = None
                if stable:
                    for fact in f.facts_at(r):
                        if fact.belief:
                            continue
                        for (c, pol) in atoms_of(fact.cond, fact.pol):
                            b = _lower_bound(c, pol, pid)
                            if b is not None:
                                best = b if best is None else max(best, b)
                    for (c, pol) in atoms_of(e, True):
                        b = _lower_bound(c, pol, pid)
                        if b is not None:
                            best = b if best is None else max(best, b)
                if p.get("u") and (best is None or best < 0):
                    best = 0
                if best is None or best < lb:
                    open_returns.append((r, best))
            if not open_returns:
                res.add(key, DISCHARGED, where, text,
                        "each of the %d return statements that can yield true is reached only with, or returns a conjunction "
                        "containing, a lower bound >= %d on '%s'" % (len(rets), lb, p["n"]), func=f.name)
                continue
            # ---- refutation / finite enumeration
            if p.get("u"):
                values, exhaustive = list(range(lb - 1, -1, -1)), True
            else:
                w = p.get("w") or 32
                values, exhaustive = [lb - 1, lb - 2, lb - 3, -(1 << (w - 1)) + 1], False
            witness, unknown = None, []
            for v in values:
                try:
                    out = Folder(prog).call(f, [v])
                except Unknown as u:
                    unknown.append("%s = %d: %s" % (p["n"], v, u))
                    continue
                if out is True or (out not in (False, None) and out):
                    witness = v
                    break
            r0 = open_returns[0][0]
            if witness is not None:
                res.add(key, VIOLATED, "%s:%d" % (prog.rel(f.file), r0.line), text,
                        "%s(%d) folds to true: `%s` accepts a value below %d, while every check of the form `if (!%s(x)) throw` is "
                        "counted by the prover as rejecting such values (plan constructors then size their tables with it)"
                        % (f.short, witness, r0.text()[:100], lb, f.short), func=f.name)
            elif exhaustive and not unknown:
                res.add(key, DISCHARGED, where, text,
                        "every value of the unsigned parameter below %d (%s) folds to false" % (lb, ", ".join(map(str, values))), func=f.name)
            else:
                res.add(key, UNMODELLED, "%s:%d" % (prog.rel(f.file), r0.line), text,
                        "neither proved nor refuted: `%s` carries no recognisable lower bound%s" % (r0.text()[:100], ("; " + "; ".join(unknown[:2])) if unknown else ""),
                        func=f.name)
    if not found and not fixture:
        res.broken.append("anchor vanished: neither dsplib::ispow2 nor dsplib::isprime has a body in the analysed units")
    res.stats["lemmas"] = found
    return res
