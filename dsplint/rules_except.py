"""E1 NOEXCEPT-ESCAPE: a function that promises not to throw cannot reach a library throw  (C04, C05)"""
import os
import re
from collections import deque

from .core import RuleResult, DISCHARGED, VIOLATED, UNMODELLED, VERIF
from .rules_state import fkey

SUPPRESSIONS = os.path.join(VERIF, "rules", "e1_suppressions.txt")

# files whose noexcept functions are reported under C04 (slices); everything is reported under C05
C04_FILES = re.compile(r"include/dsplib/(slice|iterator|indexing)\.h$")


def load_suppressions():
    out = {}
    if not os.path.exists(SUPPRESSIONS):
        return out
    for raw in open(SUPPRESSIONS):
        line = raw.strip()
        if not line or line.startswith("#"):
            continue
        sym, _, reason = line.partition(" | ")
        out[sym] = reason.strip()
    return out


def throw_sites(f):
    out = []
    for n in f.walk():
        if n.k == "CXXThrowExpr":
            if any(a.k == "CXXTryStmt" for a in n.ancestors()):
                continue
            msg = ""
            for x in n.walk():
                if x.k == "StringLiteral" and x.get("v") and x.get("v") != "dsplib: ":
                    msg = x.get("v")
            out.append((n.line, msg))
    return out


def rule_E1(prog, fixture=False):
    res = RuleResult("E1", "no function with a non-throwing exception specification reaches, through resolved calls "
                           "(virtual calls fanned out to all overriders, standard-library bodies traversed), a throw site of "
                           "the library without an intervening handler: misuse must be reported by exception, not by std::terminate")
    throwers = {}
    for f in prog.functions.values():
        ts = throw_sites(f)
        if ts:
            throwers[f.usr] = ts
    res.stats["functions_with_throw"] = len(throwers)
    res.stats["throw_sites"] = sum(len(v) for v in throwers.values())
    cfg = getattr(prog, "config", None)
    if cfg is not None and cfg.no_exceptions:
        res.stats["note"] = "DSPLIB_NO_EXCEPTIONS configuration: DSPLIB_THROW aborts, there is nothing to escape"
        return res
    if not throwers and not fixture:
        res.broken.append("anchor vanished: no throw site found in the library")
        return res

    def nothrow(u):
        f = prog.functions.get(u)
        if f is not None:
            return bool(f.get("nothrow_spec"))
        e = prog.ext_edges.get(u)
        if e is not None:
            return bool(e.get("nothrow"))
        return False

    supp_all = {} if fixture else load_suppressions()
    supp = {k: v for k, v in supp_all.items() if " -> " not in k}
    # edge suppressions "caller -> callee": the call cannot take the throwing path (reason in the file)
    edge_supp = {}
    for k, v in supp_all.items():
        if " -> " in k:
            a, b = k.split(" -> ", 1)
            edge_supp[(a.strip(), b.strip())] = v
    used_edges = set()

    def qn_of(u):
        g = prog.functions.get(u)
        if g is None:
            return None
        q, depth, out = g.qn, 0, []
        for ch in q:                      # drop template arguments: base_array<double>::operator[] -> base_array::operator[]
            if ch == "<" and not "".join(out).endswith("operator"):
                depth += 1
            elif ch == ">" and depth > 0:
                depth -= 1
            elif depth == 0:
                out.append(ch)
        return "".join(out)
    _orig_resolved = prog.resolved_callees

    def resolved(u):
        out = []
        cq = qn_of(u)
        for (c, l) in _orig_resolved(u):
            k = (cq, qn_of(c))
            if cq is not None and k in edge_supp:
                used_edges.add(k)
                continue
            out.append((c, l))
        return out
    prog_view = _ProgView(prog, resolved)
    used_supp = set()
    n_noexcept = 0
    for f in sorted(prog.functions.values(), key=lambda f: (f.file, f.line, f.name)):
        if not f.get("nothrow_spec"):
            continue
        if f.file.endswith("coverage.cc"):
            continue
        explicit = bool(f.get("noexcept"))
        if not explicit and f.kind != "dtor":
            continue        # implicit specs of defaulted members are computed from their callees
        n_noexcept += 1
        # BFS over callees; an intermediate non-throwing function stops propagation (it is its own obligation)
        path = _find_throw_path(prog_view, f.usr, throwers, nothrow)
        rel = prog.rel(f.file)
        props = ["C05"] + (["C04"] if (C04_FILES.search(rel) or "slice" in f.name.rsplit("::", 1)[-1]) else [])
        if rel.endswith("include/dsplib/array.h") or rel.endswith("include/dsplib/types.h"):
            props.append("C03")       # a length mismatch of the element-wise operators is to be rejected by an exception, not std::terminate
        key = "E1:" + fkey(f)
        where = "%s:%d" % (rel, f.line)
        what = "%s noexcept" % f.short
        if path is None:
            res.add(key, DISCHARGED, where, what, "no library throw site reachable", func=f.name, extra={"props": props})
            continue
        paths = _all_throw_paths(prog_view, f.usr, throwers, nothrow)
        parts = []
        chain = []
        for pth in paths[:6]:
            tf = prog.functions[pth[-1][0]]
            ch = []
            for (u, line) in pth:
                g = prog.functions.get(u)
                ch.append("%s%s" % ((g.short if g else _ext_name(u)), (" (called at line %d)" % line) if line else ""))
            if not chain:
                chain = ch
            sites = ", ".join("\"%s\" (%s:%d)" % (m, prog.rel(tf.file), l) for (l, m) in throwers[tf.usr][:4])
            parts.append("throw %s via %s" % (sites, " -> ".join(ch)))
        reason = "reaches %d throwing function(s): " % len(paths) + " || ".join(parts)
        sym = f.qn
        if sym in supp:
            used_supp.add(sym)
            res.add(key, DISCHARGED, where, what, "suppressed by symbol (%s); over-approximate path: %s" % (supp[sym], reason),
                    func=f.name, extra={"props": props, "suppressed": True})
            continue
        res.add(key, VIOLATED, where, what, reason, func=f.name, path=chain, extra={"props": props})
    # a suppression that no longer matches anything is noted in the evidence; it cannot hide a report, so it is not an error
    res.stats["unused_suppressions"] = sorted([sym for sym in supp if sym not in used_supp] + ["%s -> %s" % k for k in edge_supp if k not in used_edges])
    res.stats["suppressed_edges"] = sorted("%s -> %s" % k for k in used_edges)
    res.stats["noexcept_functions"] = n_noexcept
    return res


class _ProgView:
    """the program with some call edges removed (edge suppressions)"""

    def __init__(self, prog, resolved):
        self._p = prog
        self.resolved_callees = resolved

    def __getattr__(self, name):
        return getattr(self._p, name)


def _ext_name(usr):
    m = re.findall(r"@F@([A-Za-z_0-9~]+)", usr)
    return "std::" + m[-1] if m else usr[:40]


def _all_throw_paths(prog, start, throwers, nothrow):
    """one shortest path to every reachable function that contains a throw"""
    out = []
    prev = {start: None}
    dq = deque([start])
    if start in throwers:
        out.append([(start, 0)])
    while dq:
        u = dq.popleft()
        for (c, line) in prog.resolved_callees(u):
            if c in prev or nothrow(c):
                continue
            prev[c] = (u, line)
            if c in throwers:
                path = []
                x = c
                while x is not None:
                    p = prev[x]
                    path.append((x, p[1] if p else 0))
                    x = p[0] if p else None
                path.reverse()
                out.append(path)
            if c in prog.functions or c in prog.ext_edges:
                dq.append(c)
    return out


def _find_throw_path(prog, start, throwers, nothrow):
    """shortest call path start -> ... -> function containing a throw; does not pass through non-throwing callees"""
    if start in throwers:
        return [(start, 0)]
    prev = {start: None}
    dq = deque([start])
    while dq:
        u = dq.popleft()
        for (c, line) in prog.resolved_callees(u):
            if c in prev:
                continue
            if nothrow(c):
                continue
            prev[c] = (u, line)
            if c in throwers:
                # rebuild
                path = []
                x = c
                while x is not None:
                    p = prev[x]
                    path.append((x, p[1] if p else 0))
                    x = p[0] if p else None
                path.reverse()
                return path
            if c in prog.functions or c in prog.ext_edges:
                dq.append(c)
    return None


# =================================================================================================
# E2 MACRO-BODY: a multi-statement macro is never the unbraced body of a control statement  (C04 C05 C11)
MULTI_STATEMENT_MACROS = ("DSPLIB_THROW", "DSPLIB_ASSUME")


def rule_E2(prog, fixture=False):
    from .core import RuleResult, DISCHARGED, VIOLATED
    from .rules_state import fkey
    res = RuleResult("E2", "DSPLIB_THROW (under DSPLIB_NO_EXCEPTIONS: `std::cerr << ...; std::abort();`) and DSPLIB_ASSUME (`assert(c); "
                           "__builtin_assume(c)`) expand to more than one statement: as the unbraced body of an if / else / for / while only "
                           "the first statement is guarded - in the no-exceptions build the abort() behind `if (bad) DSPLIB_THROW(...)` runs "
                           "on every call")
    n = 0
    bad = 0
    for f in sorted(prog.functions.values(), key=lambda f: (f.file, f.line, f.name)):
        if f.get("implicit") or f.file.endswith("coverage.cc"):
            continue
        rel = prog.rel(f.file)
        if not fixture and not (rel.startswith("lib/") or rel.startswith("include/")):
            continue
        for x in f.walk():
            if not x.macros or not any(m in MULTI_STATEMENT_MACROS for m in x.macros):
                continue
            # the outermost node of this expansion
            top = x
            while top.parent is not None and top.parent.macros and any(m in MULTI_STATEMENT_MACROS for m in top.parent.macros):
                top = top.parent
            if top.id != x.id:
                continue
            n += 1
            par = top.parent
            while par is not None and par.k in ("ExprWithCleanups", "ImplicitCastExpr", "ParenExpr"):
                top, par = par, par.parent
            if par is None or par.k == "CompoundStmt":
                continue
            if par.k in ("IfStmt", "ForStmt", "WhileStmt", "DoStmt", "CXXForRangeStmt"):
                roles = [par.role(r) for r in ("then", "else", "body")]
                if any(r is not None and r.id == top.id for r in roles):
                    # DSPLIB_ASSERT wraps its DSPLIB_THROW in braces itself: an expansion inside another macro's own braces is fine
                    bad += 1
                    res.add("E2:%s:%d" % (fkey(f), x.line), VIOLATED, "%s:%d" % (rel, x.line), "%s in %s" % (x.macros[0], f.short),
                            "%s is the unbraced body of the %s at line %d: with DSPLIB_NO_EXCEPTIONS only `std::cerr << ...` is guarded and "
                            "std::abort() runs unconditionally (for DSPLIB_ASSUME: the compiler assumption holds on every path)"
                            % (x.macros[0], par.k, par.line), func=f.name, extra={"props": ["C05", "C04", "C11"]})
    res.add("E2:all", DISCHARGED, "-", "%d expansions of DSPLIB_THROW / DSPLIB_ASSUME" % n,
            "each is a statement of a braced block" if not bad else "%d unbraced" % bad, extra={"props": ["C05", "C04", "C11"]})
    res.stats["expansions"] = n
    if not n and not fixture:
        res.broken.append("anchor vanished: no expansion of DSPLIB_THROW / DSPLIB_ASSUME found")
    return res
