"""Rules added after the first round of independently seeded changes:
   G6 RAW-OFFSET-DIFFERENCE (C05), N3 NARROW-PRODUCT-IN-REAL (C16), N2s SHIFT-IN-LOOP-BOUND (C15), V1 STALE-VIEW (C14)"""
import re

from .core import RuleResult, DISCHARGED, VIOLATED, UNMODELLED
from .flow import Flow
from .guards import GuardCtx, as_comparison
from .ir import atoms_of, _single_def
from .rules_arith import _is_constant, _is_int
from .rules_state import fkey

RAW_COPY = {"memcpy", "memmove", "memset", "std::memcpy", "std::memmove", "std::memset"}


def _strip_up(n):
    p = n.parent
    while p is not None and p.k == "ImplicitCastExpr":
        p = p.parent
    return p


# =================================================================================================
def rule_G6(prog, fixture=False):
    res = RuleResult("G6", "a raw pointer offset or raw copy length computed as a difference a - b, where a and b are taken from "
                           "different objects (a parameter and object state, or two parameters), is dominated by a live comparison "
                           "of a and b: the difference can be negative, and memcpy/pointer arithmetic do not check")
    n_sites = 0
    for f in sorted(prog.functions.values(), key=lambda f: (f.file, f.line, f.name)):
        if f.get("implicit") or f.file.endswith("coverage.cc"):
            continue
        ctx = None
        idx = 0
        for x in f.walk():
            if not (x.k == "BinaryOperator" and x.op == "-" and x.tc == "int" and len(x.c) == 2):
                continue
            par = _strip_up(x)
            # look through one level of integer scaling ( (a - b) * sizeof(T) )
            use = None
            node_for_guard = x
            if par is not None and par.k == "BinaryOperator" and par.op in ("+", "-") and par.tc == "ptr":
                use = "pointer offset"
            elif par is not None and par.k == "BinaryOperator" and par.op == "*":
                gp = _strip_up(par)
                if gp is not None and gp.is_call() and gp.callee and gp.callee.get("qn") in RAW_COPY:
                    use = "copy length"
            elif par is not None and par.is_call() and par.callee and par.callee.get("qn") in RAW_COPY:
                use = "copy length"
            if use is None:
                continue
            if ctx is None:
                ctx = GuardCtx(prog, f, group_params=False)
            idx += 1
            n_sites += 1
            key = "G6:%s:diff%d" % (fkey(f), idx)
            where = "%s:%d" % (prog.rel(f.file), x.line)
            what = "%s used as %s in %s" % (x.text(), use, f.short)
            oa = ctx.objs(x.c[0], ("size", "val"))
            ob = ctx.objs(x.c[1], ("size", "val"))
            if _is_constant(x.c[1]) or _is_constant(x.c[0]) or not oa or not ob:
                res.add(key, DISCHARGED, where, what, "difference with a constant / literal operand", func=f.name)
                continue
            if oa <= ob or ob <= oa:
                res.add(key, DISCHARGED, where, what, "both operands are taken from the same object(s) %s" % sorted("/".join(o) for o in (oa | ob)), func=f.name)
                continue
            # need a live comparison whose two sides cover the two operand groups
            guard = None
            for fact in f.facts_at(x):
                if fact.belief:
                    continue
                for (c, p) in atoms_of(fact.cond, fact.pol):
                    cmp_ = as_comparison(c)
                    if cmp_ is None:
                        continue
                    l, op, r = cmp_
                    ol, orr = ctx.objs(l, ("size", "val")), ctx.objs(r, ("size", "val"))
                    if (ol & oa and orr & ob) or (ol & ob and orr & oa):
                        guard = c
            if guard is None and _g6_internal(prog, f):
                via = _g6_guard_in_callers(prog, f, oa, ob)
                if via:
                    res.add(key, DISCHARGED, where, what, "every caller of this internal helper compares the two quantities first (%s)" % via, func=f.name)
                    continue
            if guard is not None:
                res.add(key, DISCHARGED, where, what, "dominated by the live comparison %s" % guard.text(), func=f.name)
            else:
                res.add(key, VIOLATED, where, what,
                        "the operands come from different objects (%s vs %s) and no live comparison of them dominates the use: "
                        "when the first is smaller the %s is negative and memory before the buffer is touched"
                        % (sorted("/".join(o) for o in oa), sorted("/".join(o) for o in ob), use), func=f.name)
    res.stats["raw_difference_sites"] = n_sites
    return res


def _g6_internal(prog, f):
    if f.get("access") in ("private", "protected") or f.get("static_linkage") or "(anonymous namespace)" in f.qn:
        return True
    from .rules_assume import _is_internal
    try:
        return bool(_is_internal(f))
    except Exception:
        return False


def _g6_guard_in_callers(prog, f, oa, ob):
    """the helper's operands are a parameter and object state (or two parameters): every call site is dominated by a live
    comparison of what is passed for the one with what stands for the other.  -> description, or ''"""
    callers = [(c, call) for (c, call) in prog.callers_of(f.usr) if not c.file.endswith("coverage.cc")]
    if not callers:
        return ""
    pidx = {p["n"]: i for i, p in enumerate(f.params)}
    names = []
    for (caller, call) in callers:
        cn = caller.nodes.get(call["node"])
        if cn is None:
            return ""
        cctx = GuardCtx(prog, caller, group_params=False)
        args = cn.call_args()

        def translate(objs):
            out = set()
            for o in objs:
                if o[0] == "parm":
                    i = pidx.get(o[1])
                    if i is None or i >= len(args):
                        return None
                    out |= cctx.objs(args[i], ("size", "val"))
                elif o == ("this",):
                    obj = cn.call_object()
                    if obj is None or obj.strip_all().k == "CXXThisExpr":
                        out.add(("this",))
                    else:
                        out |= cctx.objs(obj, ("size", "val")) | cctx.base_objs(obj)
                else:
                    out.add(o)
            return out
        ta, tb = translate(oa), translate(ob)
        if not ta or not tb:
            return ""
        caller.blocks
        found = False
        for fact in caller.facts_at(cn):
            if fact.belief:
                continue
            for (c, p) in atoms_of(fact.cond, fact.pol):
                cmp_ = as_comparison(c)
                if cmp_ is None:
                    continue
                l, op, r = cmp_
                ol, orr = cctx.objs(l, ("size", "val")), cctx.objs(r, ("size", "val"))
                if (ol & ta and orr & tb) or (ol & tb and orr & ta):
                    found = True
        if not found:
            return ""
        names.append(caller.short)
    return ", ".join(sorted(set(names))[:3])


# =================================================================================================
N3_FILES = re.compile(r"lib/corr\.cpp$|include/dsplib/tuner\.h$|lib/hilbert\.cpp$|lib/window\.cpp$|lib/fir\.cpp$|lib/snr\.cpp$|lib/awgn\.cpp$")
N3_C19 = re.compile(r"lib/window\.cpp$|lib/snr\.cpp$|lib/awgn\.cpp$")
N3_C11 = re.compile(r"lib/window\.cpp$|lib/fir\.cpp$")
N3_C14 = re.compile(r"include/dsplib/tuner\.h$|lib/hilbert\.cpp$")


def rule_N3(prog, fixture=False):
    res = RuleResult("N3", "in the correlation kernels and in the tuner / hilbert code no product of two non-constant 32-bit integers "
                           "(sample counts, ranks, frequency x phase counter) is formed in integer arithmetic and then converted to "
                           "floating point: n*n overflows at 46341, n*n*n at 1291, f*k at fs*f >= 2^31")
    n_sites = 0
    for f in sorted(prog.functions.values(), key=lambda f: (f.file, f.line, f.name)):
        if f.get("implicit") or not (N3_FILES.search(prog.rel(f.file)) or fixture):
            continue
        idx = 0
        for x in f.walk():
            if not (x.k == "BinaryOperator" and x.op == "*" and x.tc == "int" and len(x.c) == 2):
                continue
            idx += 1
            n_sites += 1
            key = "N3:%s:mul%d" % (fkey(f), idx)
            where = "%s:%d" % (prog.rel(f.file), x.line)
            what = "%s in %s" % (x.text(), f.short)
            rel_ = prog.rel(f.file)
            n3p = {"props": ["C14"] if N3_C14.search(rel_) else (["C11"] if N3_C11.search(rel_) else ([] if N3_C19.search(rel_) else ["C16"]))}
            if N3_C19.search(rel_):
                n3p["props"] = n3p["props"] + ["C19"]      # thd / sinad / snr weigh the record with window::kaiser
            if _is_constant(x.c[0]) or _is_constant(x.c[1]) or (x.get("w") or 0) > 32:
                res.add(key, DISCHARGED, where, what, "constant factor or 64-bit arithmetic", func=f.name, extra=n3p)
                continue
            par = x.parent
            hit = None
            while par is not None:
                if par.k == "ImplicitCastExpr" and par.get("ck") == "IntegralToFloating":
                    hit = par
                    break
                if par.k == "ImplicitCastExpr" and par.get("ck") in ("IntegralCast", "NoOp", "LValueToRValue"):
                    par = par.parent
                    continue
                if par.k == "BinaryOperator" and par.op in ("+", "-", "*", "%") and _is_int(par):
                    par = par.parent
                    continue
                if par.k == "UnaryOperator" and par.op in ("-", "+"):
                    par = par.parent
                    continue
                if par.k == "VarDecl" and par.tc == "int":
                    # const int k = a * b;  ...  k flows into a real formula: follow the variable once
                    uses = [u for u in f.walk() if u.k == "DeclRefExpr" and u.decl and u.decl.get("id") == par.decl["id"]]
                    for u in uses:
                        q = u.parent
                        while q is not None and q.k == "ImplicitCastExpr" and q.get("ck") in ("LValueToRValue", "NoOp", "IntegralCast"):
                            q = q.parent
                        while q is not None and q.k == "BinaryOperator" and q.op in ("+", "-", "*", "%") and _is_int(q):
                            q = q.parent
                        if q is not None and q.k == "ImplicitCastExpr" and q.get("ck") == "IntegralToFloating":
                            hit = q
                    break
                if par.k in ("CXXStaticCastExpr", "CXXFunctionalCastExpr", "CStyleCastExpr") and par.tc == "float":
                    hit = par
                    break
                if par.k == "CallExpr" and par.tc == "float" and par.callee and re.match(
                        r"^(std::)?(sqrt|cbrt|pow|exp|exp2|log|log2|log10|sin|cos|tan|atan|atan2|floor|ceil|round|fabs|abs|hypot)$", par.callee.get("qn") or ""):
                    hit = par          # std::sqrt(i * (n - i)): the integral overload converts its argument to double
                    break
                break
            if hit is not None:
                res.add(key, VIOLATED, where, what,
                        "the product is computed in %s and only then converted to floating point (%s): it wraps for realistic "
                        "sample counts / rates" % (x.type, hit.parent.text() if hit.parent is not None else hit.text()), func=f.name, extra=n3p)
            else:
                res.add(key, DISCHARGED, where, what, "integer product stays in integer context", func=f.name, extra=n3p)
    res.stats["integer_products"] = n_sites
    return res


# =================================================================================================
N2S_FUNCS = re.compile(r"^dsplib::(nextpow2|ispow2|isprime|factor|nextprime|primes)$")


def rule_N2s(prog, fixture=False):
    res = RuleResult("N2s", "in nextpow2/ispow2 and the prime helpers a loop condition does not contain a left shift of a 32-bit "
                            "signed value by a loop-varying count: for arguments above 2^30 the shift reaches bit 31 (undefined, "
                            "and the loop cannot terminate)")
    funcs = [f for f in prog.functions.values() if N2S_FUNCS.match(f.qn)]
    if not funcs and not fixture:
        res.broken.append("anchor vanished: nextpow2/ispow2 not found")
        return res
    for f in sorted(funcs, key=lambda f: (f.file, f.line)):
        # a 32-bit integer does not fit the 24-bit significand of float: log2f(m), float(m) ... round m itself
        for x in f.walk():
            if x.k in ("ImplicitCastExpr", "CXXStaticCastExpr", "CStyleCastExpr", "CXXFunctionalCastExpr") and x.get("ck") == "IntegralToFloating" \
                    and x.type == "float" and x.c and (x.c[0].strip().get("w") or 0) >= 32 and not _is_constant(x.c[0]):
                res.add("N2s:%s:int-to-float" % fkey(f), VIOLATED, "%s:%d" % (prog.rel(f.file), x.line), "%s in %s" % (x.text(), f.short),
                        "a %s is converted to single-precision float (24-bit significand): arguments above 2^24 are rounded before the "
                        "computation, so exact integer questions (power of two? next exponent?) get wrong answers" % x.c[0].strip().type, func=f.name)
        idx = 0
        shifts = [x for x in f.walk() if x.k == "BinaryOperator" and x.op == "<<" and len(x.c) == 2 and x.tc == "int"]
        key0 = "N2s:" + fkey(f)
        where = "%s:%d" % (prog.rel(f.file), f.line)
        if not shifts:
            res.add(key0, DISCHARGED, where, f.short, "no left shift", func=f.name)
            continue
        for x in shifts:
            idx += 1
            key = "%s:shl%d" % (key0, idx)
            wx = "%s:%d" % (prog.rel(f.file), x.line)
            what = "%s in %s" % (x.text(), f.short)
            wide = (x.get("w") or 32) > 32
            loop = None
            in_cond = False
            for a in x.ancestors():
                if a.k in ("WhileStmt", "ForStmt", "DoStmt"):
                    c = a.role("cond")
                    if c is not None and any(y.id == x.id for y in c.walk()):
                        loop, in_cond = a, True
                    break
            count_const = _is_constant(x.c[1])
            if wide or count_const or not in_cond:
                res.add(key, DISCHARGED, wx, what, "64-bit shift" if wide else ("constant count" if count_const else "not part of a loop condition: the count is bounded by the loop that computed it"), func=f.name)
                continue
            # is the count modified in the loop?
            cnt_ids = {y.decl["id"] for y in x.c[1].walk() if y.k == "DeclRefExpr" and y.decl and y.decl.get("k") in ("local", "parm")}
            varying = False
            for y in loop.walk():
                if y.k in ("UnaryOperator",) and y.op in ("++", "--") and y.c:
                    t = y.c[0].strip_all()
                    if t.k == "DeclRefExpr" and t.decl.get("id") in cnt_ids:
                        varying = True
                if y.k in ("BinaryOperator", "CompoundAssignOperator") and y.op and y.op.endswith("=") and y.op not in ("==", "!=", "<=", ">=") and y.c:
                    t = y.c[0].strip_all()
                    if t.k == "DeclRefExpr" and t.decl.get("id") in cnt_ids:
                        varying = True
            # a bound on the count in the same condition (p < 31 && ...) discharges
            bounded = False
            c = loop.role("cond")
            for y in c.walk():
                cmp_ = as_comparison(y)
                if cmp_ is not None:
                    l, op, r = cmp_
                    if l.strip_all().k == "DeclRefExpr" and l.strip_all().decl.get("id") in cnt_ids and _is_constant(r) and op in ("<", "<="):
                        bounded = True
            if varying and not bounded:
                res.add(key, VIOLATED, wx, what,
                        "the loop exits only when the shifted value reaches the argument; for arguments above 2^30 that needs a "
                        "shift into the sign bit of %s" % x.type, func=f.name)
            else:
                res.add(key, DISCHARGED, wx, what, "count is loop-invariant or bounded in the condition", func=f.name)
    # the helpers take `int` and terminate for non-negative arguments only: no call hands them an unsigned 32/64-bit value
    n_calls = 0
    for g in sorted(prog.functions.values(), key=lambda f: (f.file, f.line, f.name)):
        if g.file.endswith("coverage.cc") or g.get("implicit"):
            continue
        ci = 0
        for x in g.walk():
            if not (x.k == "CallExpr" and x.callee and x.callee.get("qn") in ("dsplib::nextpow2", "dsplib::ispow2") and x.call_args()):
                continue
            n_calls += 1
            a0 = x.call_args()[0]
            while a0.k == "ImplicitCastExpr" and a0.get("ck") in ("LValueToRValue", "NoOp") and a0.c:
                a0 = a0.c[0]
            src = a0.c[0] if (a0.k == "ImplicitCastExpr" and a0.get("ck") == "IntegralCast" and a0.c) else None
            if src is not None and src.get("u") and (src.get("w") or 0) >= 32:
                ci += 1
                res.add("N2s:%s:unsigned-arg%d" % (fkey(g), ci), VIOLATED, "%s:%d" % (prog.rel(g.file), x.line), "%s in %s" % (x.text()[:50], g.short),
                        "%s (%s) is converted implicitly to the int parameter: values from 2^31 on become negative, and the shift loop of "
                        "%s never terminates for a negative argument" % (src.text()[:30], src.type, x.callee.get("qn").rsplit("::", 1)[-1]), func=g.name)
    res.add("N2s:callers", DISCHARGED, "-", "%d calls of nextpow2 / ispow2" % n_calls, "counted; every unsigned argument is reported separately")
    return res


# =================================================================================================
V1_FILES = re.compile(r"include/dsplib/(delay|hilbert|tuner)\.h$|lib/hilbert\.cpp$")       # reported under C14 (and C06)
V1_STREAM_FILES = re.compile(r"include/dsplib/(delay|hilbert|tuner|fir|lms|rls|medfilt|agc|resample)\.h$|include/dsplib/audio/[^/]+\.h$|"
                             r"lib/(hilbert|fir|medfilt|agc|detector)\.cpp$|lib/ma-filter\.h$|lib/resample/[^/]+\.cpp$")   # C06
VIEW_TYPE = re.compile(r"dsplib::(const_)?slice_t<")


def rule_V1(prog, fixture=False):
    res = RuleResult("V1", "a local slice view is not read after the array it denotes has been written: slices are lazy views and "
                           "materialise their elements only when they are converted or assigned")
    n_views = 0
    for f in sorted(prog.functions.values(), key=lambda f: (f.file, f.line, f.name)):
        rel = prog.rel(f.file)
        if f.get("implicit") or not (V1_FILES.search(rel) or V1_STREAM_FILES.search(rel) or fixture):
            continue
        v1_props = (["C14"] if (V1_FILES.search(rel) or fixture) else []) + ["C06"]
        flow = None
        for v in f.walk():
            if not (v.k == "VarDecl" and v.decl and v.decl.get("k") == "local" and VIEW_TYPE.search(v.type or "") and v.c):
                continue
            if flow is None:
                flow = Flow(f, prog)
                f.blocks
            n_views += 1
            roots = {r for r in flow.roots.get(v.decl["id"], set()) if r[0] in ("this", "parm", "local", "global")}
            key = "V1:%s:%s" % (fkey(f), v.decl["n"])
            where = "%s:%d" % (rel, v.line)
            what = "view '%s' in %s" % (v.decl["n"], f.short)
            if not roots:
                res.add(key, UNMODELLED, where, what, "the viewed array could not be identified", func=f.name, extra={"props": v1_props})
                continue
            uses = [u for u in f.walk() if u.k == "DeclRefExpr" and u.decl and u.decl.get("id") == v.decl["id"]]
            writes = []
            for n in f.walk():
                lhs = None
                if n.k in ("BinaryOperator", "CompoundAssignOperator") and n.op and n.op.endswith("=") and n.op not in ("==", "!=", "<=", ">=") and n.c:
                    lhs = n.c[0]
                elif n.k == "CXXOperatorCallExpr" and n.op and n.op.endswith("=") and n.op not in ("==", "!=", "<=", ">=") and len(n.c) > 1:
                    lhs = n.c[1]
                elif n.is_call() and n.callee and n.callee.get("qn") in ("memcpy", "memmove", "std::memcpy", "std::memmove", "std::copy", "std::fill") and n.call_args():
                    lhs = n.call_args()[0] if n.callee.get("qn") not in ("std::copy",) else n.call_args()[-1]
                if lhs is None:
                    continue
                lr = {r for r in flow.root(lhs) if r[0] in ("this", "parm", "local", "global")}
                # writing the view variable itself is not a write of the array
                l0 = lhs.strip_all()
                if l0.k == "DeclRefExpr" and l0.decl and l0.decl.get("id") == v.decl["id"]:
                    continue
                if lr & roots:
                    writes.append(n)
            bad = None
            vl = f.block_of(v)
            for w in writes:
                wl = f.block_of(w)
                if wl is None or vl is None:
                    continue
                # the write happens after the view was taken ...
                after_init = (wl[0] == vl[0] and wl[1] > vl[1]) or (wl[0] != vl[0] and wl[0] in f.reachable(vl[0]))
                if not after_init:
                    continue
                reach = set()
                for s_ in f.blocks[wl[0]].succs:
                    if s_ is not None:
                        reach |= f.reachable(s_)
                for u in uses:
                    ul = f.block_of(u)
                    if ul is None:
                        continue
                    # ... and the view is read after the write (the write statement's own operands are evaluated before it)
                    if (ul[0] == wl[0] and ul[1] > wl[1]) or (ul[0] != wl[0] and ul[0] in reach):
                        bad = (w, u)
                        break
                if bad:
                    break
            if bad:
                w, u = bad
                res.add(key, VIOLATED, "%s:%d" % (rel, u.line), what,
                        "the view of %s taken at line %d is read at line %d after %s (line %d) modified that array: it yields "
                        "the new contents, not the ones it was taken from" % (sorted("/".join(r) for r in roots), v.line, u.line, w.text(), w.line),
                        func=f.name, extra={"props": v1_props})
            else:
                res.add(key, DISCHARGED, where, what, "no write of the viewed array between taking the view and its last read",
                        func=f.name, extra={"props": v1_props})
    res.stats["slice_view_locals"] = n_views
    return res


# =================================================================================================
PROCESS_NAMES = {"process", "operator()"}


def _write_sources(f, flow, field, depth=0):
    """[(node, atoms the written value may depend on)] for every write of this->field in f"""
    from .rules_order import _is_assign
    out = []
    for n in f.walk():
        # a member function called on *this that writes the member (the hand-over hoisted into _save_history(x, nx))
        if n.k == "CXXMemberCallExpr" and n.callee and n.callee.get("cls") == f.cls and depth < 2 and flow.program is not None:
            obj = n.call_object()
            g = flow.program.functions.get(n.callee.get("usr"))
            if (obj is None or obj.strip_all().k == "CXXThisExpr") and g is not None and g.usr != f.usr and not g.get("const"):
                gws = _write_sources(g, Flow(g, flow.program), field, depth + 1)
                if gws:
                    args = n.call_args()
                    deps = set()
                    for (_, gd) in gws:
                        for a in gd:
                            if a[0] == "parm":
                                idx = [i for i, prm in enumerate(g.params) if prm["n"] == a[1]]
                                if idx and idx[0] < len(args):
                                    deps |= flow.deps(args[idx[0]])
                            else:
                                deps.add(a)
                    out.append((n, deps))
                    continue
        lhs = _is_assign(n)
        if lhs is not None:
            if any(r == ("this", field) for r in flow.root(lhs)):
                rhs_nodes = n.c[1:] if n.k != "CXXOperatorCallExpr" else n.c[2:]
                deps = set()
                for r in rhs_nodes:
                    deps |= flow.deps(r)
                l0 = lhs.strip_all()
                if not (l0.k == "MemberExpr" and l0.decl and l0.decl.get("n") == field):
                    # element write (_d[i] = v, *p = v): every other element keeps its previous value
                    deps |= {("this", field, "content")}
                if n.k == "CompoundAssignOperator" or (n.op not in ("=",) and n.op is not None):
                    deps |= flow.deps(lhs)
                if n.k == "UnaryOperator":
                    deps |= flow.deps(lhs)
                out.append((n, deps))
            continue
        if n.is_call() and n.callee:
            qn = n.callee.get("qn", "")
            args = n.call_args()
            if qn in ("memcpy", "memmove", "std::memcpy", "std::memmove", "std::copy", "std::copy_n", "std::copy_backward", "std::move",
                      "std::move_backward", "std::transform", "std::fill", "std::fill_n", "memset", "std::memset") and args:
                dst = args[-1] if qn in ("std::copy", "std::copy_n", "std::copy_backward", "std::move", "std::move_backward", "std::transform") else args[0]
                if any(r == ("this", field) for r in flow.root(dst)):
                    deps = set()
                    for a in args:
                        if a.id != dst.id:
                            deps |= flow.deps(a)
                    d0 = dst.strip_all()
                    if (d0.k == "BinaryOperator" and d0.op in ("+", "-")) or (d0.k == "CXXOperatorCallExpr" and d0.op in ("+", "-")) \
                            or qn in ("std::copy_backward", "std::move_backward"):
                        # written from an offset inside the array: the elements in front of it keep their previous values
                        deps |= {("this", field, "content")}
                    if qn in ("memmove", "std::memmove"):
                        pass
                    out.append((n, deps))
            else:
                # a pointer to the member handed to a writing helper ( _update_sort(_s.data(), ...) )
                pm = n.callee.get("pm", [])
                for i, a in enumerate(args):
                    if i < len(pm) and pm[i] in ("ptr", "ref") and any(r == ("this", field) for r in flow.root(a)):
                        deps = set()
                        for b in args:
                            deps |= flow.deps(b)
                        out.append((n, deps))
                obj = n.call_object()
                if obj is not None and "cls" in n.callee and not n.callee.get("const") and not n.callee.get("static") and n.k != "CXXConstructExpr":
                    nm = qn.rsplit("::", 1)[-1]
                    if nm not in ("operator[]", "operator()", "data", "begin", "end", "slice", "operator*", "operator->", "at", "front", "back") and not nm.endswith("="):
                        if any(r == ("this", field) for r in flow.root(obj)):
                            deps = flow.deps(obj)
                            for b in args:
                                deps |= flow.deps(b)
                            out.append((n, deps))
    return out


def rule_H1(prog, fixture=False):
    from .flow import is_container_type
    res = RuleResult("H1", "in the process method of every streaming block processor each array-valued state member that is "
                           "rewritten (delay line, history, overlap tail) receives a value that depends on its own previous contents "
                           "AND on the contents of the input frame, and the returned output depends on the input and on that state: "
                           "necessary for a history longer than the frame to survive (framing invariance for short frames)")
    n_proc = 0
    for f in sorted(prog.functions.values(), key=lambda f: (f.file, f.line, f.name)):
        if f.get("implicit") or f.file.endswith("coverage.cc") or not f.cls or f.kind != "method":
            continue
        if f.qn.rsplit("::", 1)[-1] != "process":
            continue
        cj = prog.classes.get(f.cls)
        if not cj:
            continue
        inputs = [p for p in f.params if is_container_type(p.get("t", ""))]
        if not inputs:
            continue
        arrays = [x["name"] for x in cj["fields"] if is_container_type(x["ctype"]) and not x["const"]]
        scalars = [x["name"] for x in cj["fields"] if not x["const"] and not is_container_type(x["ctype"]) and re.match(r"^(unsigned |signed )?(int|long|short|double|float|size_t|unsigned long|unsigned int|dsplib::cmplx_t)$", x["ctype"])]
        if not arrays and not scalars:
            continue
        flow = Flow(f, prog, control=False)
        rel = prog.rel(f.file)
        written = []
        for fld in arrays:
            ws = _write_sources(f, flow, fld)
            if ws:
                written.append((fld, ws))
        if not written and not any(_write_sources(f, flow, sname) for sname in scalars):
            continue
        n_proc += 1
        h1_props = ["C06"] + (["C08"] if "lib/resample/" in rel else []) + (["C20"] if ("/audio/" in rel or rel.endswith("agc.cpp")) else []) \
            + (["C14"] if (rel.endswith("dsplib/delay.h") or rel.endswith("lib/hilbert.cpp") or rel.endswith("dsplib/tuner.h")) else [])
        in_names = {p["n"] for p in inputs}
        for (fld, ws) in written:
            key = "H1:%s:%s" % (fkey(f), fld)
            where = "%s:%d" % (rel, ws[0][0].line)
            what = "%s carries %s across calls" % (f.short, fld)
            # all writes together form the new value (memmove + element write, two memcpys ...)
            deps = set()
            for (_, d) in ws:
                deps |= d
            dep_self = any(a[0] == "this" and ((a[1] == fld and a[2] == "content") or a[1] == "*") for a in deps)
            dep_in = any(a[0] == "parm" and a[1] in in_names and a[2] == "content" for a in deps)
            extra = {"props": h1_props}
            if dep_self and dep_in:
                res.add(key, DISCHARGED, where, what, "new contents depend on the previous contents and on the input frame (%d write site(s))" % len(ws),
                        func=f.name, extra=extra)
            elif dep_in and not dep_self:
                res.add(key, VIOLATED, where, what,
                        "%s is rebuilt from the input frame alone (%s): when the frame is shorter than the history the older samples are "
                        "lost or read from outside the frame" % (fld, ws[0][0].text()), func=f.name, extra=extra)
            elif dep_self and not dep_in:
                res.add(key, UNMODELLED, where, what, "new contents depend only on the previous contents (coefficient-like state)", func=f.name, extra=extra)
            else:
                res.add(key, UNMODELLED, where, what, "write sources not understood", func=f.name, extra=extra)
        # integer position / counter state (ring index, phase counter, fill level) continues from its previous value
        for fld in [x for x in cj["fields"] if not x["const"] and re.match(r"^(unsigned |signed )?(int|long|short|size_t|unsigned long|unsigned int)$", x["ctype"])]:
            ws = _write_sources(f, flow, fld["name"])
            if not ws:
                continue
            deps = set()
            for (_, d) in ws:
                deps |= d
            key = "H1:%s:%s" % (fkey(f), fld["name"])
            where = "%s:%d" % (rel, ws[0][0].line)
            what = "%s carries the position %s across calls" % (f.short, fld["name"])
            if any(a[0] == "this" and a[1] == fld["name"] for a in deps):
                res.add(key, DISCHARGED, where, what, "the new value depends on the previous one", func=f.name, extra={"props": h1_props})
            else:
                res.add(key, VIOLATED, where, what,
                        "%s is set from %s alone (%s): the position in the stream restarts with every call, so the result depends on "
                        "how the stream is framed" % (fld["name"], ", ".join(sorted({"%s.%s" % (a[1], a[2]) for a in deps if a[0] == "parm"})) or "constants",
                                                      ws[-1][0].text()), func=f.name, extra={"props": h1_props})
        # a ring position and the line it indexes change together: where process() addresses an array member through an integer
        # position member ( _buffer[_pos] ), every other write of that array either goes through the position as well or sits on
        # a path that also sets the position (a bulk path that rewrites the line in time order has to reset / rotate by it)
        for parr in arrays:
            for pfld in [x for x in cj["fields"] if not x["const"] and re.match(r"^(unsigned |signed )?(int|long|short|size_t|unsigned long|unsigned int)$", x["ctype"])]:
                pname = pfld["name"]
                pw = [wn for (wn, _) in _write_sources(f, flow, pname)]
                if not pw:
                    continue

                def via_position(node):
                    for x in node.walk():
                        if x.k == "CXXOperatorCallExpr" and x.op in ("[]", "()") and len(x.c) == 3:
                            b0 = x.c[1].strip_all()
                            if b0.k == "MemberExpr" and b0.decl and b0.decl.get("n") == parr and any(a[0] == "this" and a[1] == pname for a in flow.deps(x.c[2])):
                                return True
                    return False
                if not any(via_position(x) for x in [f.body()] if x is not None):
                    continue
                f.blocks
                for (wn, _) in _write_sources(f, flow, parr):
                    lhs_ok = via_position(wn)
                    if lhs_ok:
                        continue
                    paired = any(f.precedes(q, wn) or f.precedes(wn, q) for q in pw)
                    key = "H1:%s:%s:position-%s" % (fkey(f), parr, pname)
                    if not paired:
                        res.add(key, VIOLATED, "%s:%d" % (rel, wn.line), "%s keeps %s and %s consistent" % (f.short, parr, pname),
                                "`%s` rewrites %s without going through the position %s and on a path that does not set %s either, while "
                                "other paths address %s[%s]: after this path the position no longer says where the oldest sample is, and "
                                "the next frame is read out rotated" % (wn.text()[:70], parr, pname, pname, parr, pname), func=f.name, extra={"props": h1_props})
                        break
                else:
                    res.add("H1:%s:%s:position-%s" % (fkey(f), parr, pname), DISCHARGED, "%s:%d" % (rel, f.line), "%s keeps %s and %s consistent" % (f.short, parr, pname),
                            "every write of %s goes through %s or is paired with a write of it" % (parr, pname), func=f.name, extra={"props": h1_props})
        # no data-dependent shortcut around the state update: a return that is reached only for certain sample values, on a
        # path that has not written the recursive state, lets the state miss those samples
        all_rets = [n for n in f.walk() if n.k == "ReturnStmt" and not any(a.k == "LambdaExpr" for a in n.ancestors())]
        state_writes = []
        for x in cj["fields"]:
            if x["const"]:
                continue
            for (wn, wd) in _write_sources(f, flow, x["name"]):
                state_writes.append((x["name"], wn))
        f.blocks
        for ri, r in enumerate(all_rets):
            rl = f.block_of(r)
            if rl is None or not state_writes:
                continue
            data_conds = []
            for fact in f.facts_at(r):
                if fact.belief:
                    continue
                for (c, pol) in atoms_of(fact.cond, fact.pol):
                    if any(a[0] == "parm" and a[1] in in_names and a[2] == "content" for a in flow.deps(c)):
                        data_conds.append(c)
            if not data_conds:
                continue
            # which state members have no write that can reach this return?
            missed = []
            for fld in sorted({n_ for (n_, _) in state_writes}):
                reached = False
                for (n_, wn) in state_writes:
                    if n_ != fld:
                        continue
                    wl = f.block_of(wn)
                    if wl is None:
                        continue
                    if (wl[0] == rl[0] and wl[1] < rl[1]) or (wl[0] != rl[0] and rl[0] in f.reachable(wl[0])):
                        reached = True
                if not reached:
                    missed.append(fld)
            key = "H1:%s:shortcut%d" % (fkey(f), ri + 1)
            if missed:
                res.add(key, VIOLATED, "%s:%d" % (rel, r.line), "%s updates its state for every frame" % f.short,
                        "the return at line %d is taken only when %s holds for the samples of the frame, and no write of %s lies on the way "
                        "to it: frames selected by their contents bypass the state update" % (r.line, data_conds[0].text(), ", ".join(missed)),
                        func=f.name, extra={"props": h1_props})
        # output uses the input and the state
        rets = [n for n in f.walk() if n.k == "ReturnStmt" and n.c and not any(a.k == "LambdaExpr" for a in n.ancestors())]
        if rets:
            deps = set()
            for r in rets:
                deps |= flow.deps(r.c[0])
            key = "H1:%s:output" % fkey(f)
            dep_in = any(a[0] == "parm" and a[1] in in_names and a[2] == "content" for a in deps)
            state_fields = [fld for (fld, _) in written] + [sname for sname in scalars if _write_sources(f, flow, sname)]
            dep_state = [fld for fld in state_fields if any(a[0] == "this" and a[1] in (fld, "*") for a in deps)]
            if dep_in and dep_state:
                res.add(key, DISCHARGED, "%s:%d" % (rel, rets[0].line), "%s output" % f.short,
                        "depends on the input frame and on the carried state %s" % ", ".join(dep_state), func=f.name, extra={"props": h1_props})
            elif not dep_in:
                res.add(key, VIOLATED, "%s:%d" % (rel, rets[0].line), "%s output" % f.short, "the returned frame does not depend on the contents of the input",
                        func=f.name, extra={"props": h1_props})
            else:
                res.add(key, VIOLATED, "%s:%d" % (rel, rets[0].line), "%s output" % f.short,
                        "the returned frame does not depend on any carried state (%s): every call starts from rest, a transient appears at "
                        "each frame boundary" % ", ".join(state_fields), func=f.name, extra={"props": h1_props})
    # the same shortcut clause for processors written as a free function over an implementation struct
    # ( _process(AgcImpl& agc, const base_array<T>& x) behind Agc::process ): the state is what the reference parameter points to
    n_free = 0
    for f in sorted(prog.functions.values(), key=lambda f: (f.file, f.line, f.name)):
        if f.get("implicit") or f.file.endswith("coverage.cc") or f.kind != "function" or f.get("lambda"):
            continue
        rel = prog.rel(f.file)
        if not fixture and not (rel.startswith("lib/") or rel.startswith("include/")):
            continue
        inputs = [q for q in f.params if is_container_type(q.get("t", ""))]
        states = [q for q in f.params if q.get("ref") and not re.search(r"\bconst\b", q.get("t", "")) and not is_container_type(q.get("t", ""))
                  and re.sub(r"\s*&$", "", q.get("t", "")).strip() in prog.classes]
        if not inputs or not states:
            continue
        in_names = {q["n"] for q in inputs}
        flow = Flow(f, prog, control=False)
        for st in states:
            writes = _param_state_writes(f, st["id"])
            if not writes:
                continue
            n_free += 1
            h1_props = ["C06"] + (["C20"] if ("/audio/" in rel or rel.endswith("agc.cpp")) else [])
            f.blocks
            all_rets = [n for n in f.walk() if n.k == "ReturnStmt" and not any(a.k == "LambdaExpr" for a in n.ancestors())]
            for ri, r in enumerate(all_rets):
                rl = f.block_of(r)
                if rl is None:
                    continue
                data_conds = []
                for fact in f.facts_at(r):
                    if fact.belief:
                        continue
                    for (c, pol) in atoms_of(fact.cond, fact.pol):
                        if any(a[0] == "parm" and a[1] in in_names and a[2] == "content" for a in flow.deps(c)):
                            data_conds.append(c)
                key = "H1:%s:%s:shortcut%d" % (fkey(f), st["n"], ri + 1)
                if not data_conds:
                    continue
                reached = False
                for wn in writes:
                    wl = f.block_of(wn)
                    if wl is None:
                        continue
                    if (wl[0] == rl[0] and wl[1] < rl[1]) or (wl[0] != rl[0] and rl[0] in f.reachable(wl[0])):
                        reached = True
                if not reached:
                    res.add(key, VIOLATED, "%s:%d" % (rel, r.line), "%s updates the state behind '%s' for every frame" % (f.short, st["n"]),
                            "the return at line %d is taken only when %s holds for the samples of the frame, and nothing on the way to it "
                            "writes the state behind '%s' (written at line %d on the other paths): frames selected by their contents "
                            "bypass the state update, so the result depends on how the stream is framed"
                            % (r.line, data_conds[0].text()[:80], st["n"], writes[0].line), func=f.name, extra={"props": h1_props})
                else:
                    res.add(key, DISCHARGED, "%s:%d" % (rel, r.line), "%s updates the state behind '%s' for every frame" % (f.short, st["n"]),
                            "the data-dependent return lies behind a state write", func=f.name, extra={"props": h1_props})
    res.stats["stream_processors"] = n_proc
    res.stats["free_function_processors"] = n_free
    if n_proc == 0 and not fixture:
        res.broken.append("anchor vanished: no process() method with array-valued state")
    return res


def _param_state_writes(f, pid):
    """nodes that write the object a reference parameter points to: assignments to its members, non-const member calls on them"""
    def rooted(e):
        e = e.strip_all()
        while e.k in ("MemberExpr", "ArraySubscriptExpr") and e.c:
            e = e.c[0].strip_all()
        return e.k == "DeclRefExpr" and e.decl and e.decl.get("id") == pid
    out = []
    for n in f.walk():
        if any(a.k == "LambdaExpr" for a in n.ancestors()):
            continue
        if n.k in ("BinaryOperator", "CompoundAssignOperator") and n.op and n.op.endswith("=") and n.op not in ("==", "!=", "<=", ">=") and n.c:
            l = n.c[0].strip_all()
            if l.k == "MemberExpr" and rooted(l):
                out.append(n)
        elif n.k == "UnaryOperator" and n.op in ("++", "--") and n.c and n.c[0].strip_all().k == "MemberExpr" and rooted(n.c[0]):
            out.append(n)
        elif n.k in ("CXXMemberCallExpr", "CXXOperatorCallExpr") and n.callee and "cls" in n.callee and not n.callee.get("const") and not n.callee.get("static"):
            obj = n.call_object() if n.k == "CXXMemberCallExpr" else (n.c[1] if len(n.c) > 1 else None)
            if obj is not None and obj.strip_all().k == "MemberExpr" and rooted(obj):
                out.append(n)
    return out


# =================================================================================================
# R1 DOCUMENTED-REJECTION: must-pass-through of a live throwing guard, interprocedural
def _must_reject(prog, f, pred, memo, parm_objs=None, depth=0):
    return _reject_analysis(prog, f, pred, memo, parm_objs, depth)[0]


def _reject_analysis(prog, f, pred, memo, parm_objs=None, depth=0):
    """-> (True iff on every path from f's entry to a normal return a live, throwing test accepted by `pred` has been passed on
    its surviving edge - in f itself, or inside a repository function called on that path (closure over the call graph).
    pred(ctx, cond, pol) decides whether the surviving outcome (cond == pol) is the documented check;
    a predicate (block, index) -> "the check has been passed on every path to this point")"""
    key = (f.usr, tuple(sorted((k, tuple(sorted(v))) for k, v in (parm_objs or {}).items())))
    never = (lambda loc: False)
    if key in memo:
        return memo[key]
    memo[key] = (False, never)
    if depth > 4:
        return (False, never)
    ctx = GuardCtx(prog, f, group_params=False, parm_objs=parm_objs)
    blocks = f.blocks
    nodes = f.nodes
    if not blocks:
        return (False, never)
    edge_ok = {}
    for (b, si, s_, cn, pol) in f.branch_edges():
        tn = nodes.get(b.term) if b.term is not None else None
        if (tn is not None and tn.is_belief()) or cn.is_belief():
            continue
        other = b.succs[1 - si]
        if other is None or f.normal_exit_reachable_from(other):
            continue          # the rejecting side must not be able to return normally
        ats = atoms_of(cn, pol)
        for (c, p) in ats:
            if pred(ctx, c, p) or any(pred(hc, c2, p2) for (hc, c2, p2) in _predicate_helper_atoms(prog, ctx, c, p)):
                edge_ok[(b.id, si)] = True
        # an equality spelled as two one-sided outcomes on the same edge:  !(rem > 0) && !(rem < 0),  !(nwin < ntaps) && !(ntaps < nwin)
        if (b.id, si) not in edge_ok and pred in (_pred_granularity, _pred_window_length):
            sides = {}
            for (c, p) in ats:
                cmp_ = as_comparison(c)
                if cmp_ is None:
                    continue
                l, op, r = cmp_
                if not p:
                    op = {"<": ">=", ">=": "<", ">": "<=", "<=": ">", "==": "!=", "!=": "=="}[op]
                if op not in ("<=", ">="):
                    continue
                lt, rt = l.strip_all().text(), r.strip_all().text()
                if lt > rt:          # one orientation per operand pair
                    lt, rt, op = rt, lt, {"<=": ">=", ">=": "<="}[op]
                sides.setdefault((lt, rt), {})[op] = c
            for txt, d in sides.items():
                if "<=" in d and ">=" in d and pred(ctx, d["<="], True, as_eq=True):
                    edge_ok[(b.id, si)] = True
    call_pos = {}
    for n in f.walk():
        if not (n.is_call() and n.callee and n.callee.get("repo")) or n.k in ("CXXConstructExpr", "CXXTemporaryObjectExpr"):
            continue
        targets = [prog.functions[u] for u in (prog.overriders(n.callee["usr"]) if n.callee.get("virt") else [n.callee["usr"]]) if u in prog.functions]
        if not targets:
            continue
        args = n.call_args()
        ok = True
        for g in targets:
            pmap = {}
            for i, prm in enumerate(g.params):
                if i < len(args):
                    pmap[prm["n"]] = ctx.objs(args[i]) | ctx.base_objs(args[i])
            if not _must_reject(prog, g, pred, memo, pmap, depth + 1):
                ok = False
                break
        if ok:
            loc = f.block_of(n)
            if loc:
                call_pos.setdefault(loc[0], []).append(loc[1])
    tb = f.throw_blocks()
    IN = {bid: True for bid in blocks}
    IN[f.entry] = False
    changed, it = True, 0
    while changed and it < 60:
        changed = False
        it += 1
        for bid, b in blocks.items():
            if bid == f.entry:
                continue
            preds = []
            for pid in b.preds:
                if pid in tb:
                    continue
                pb = blocks[pid]
                out = IN[pid] or bool(call_pos.get(pid))
                for si, sx in enumerate(pb.succs):
                    if sx == bid:
                        preds.append(out or edge_ok.get((pid, si), False))
            new = all(preds) if preds else (bid != f.exit and IN[bid])
            if bid == f.exit and not preds:
                new = True          # no normal return at all
            if new != IN[bid]:
                IN[bid] = new
                changed = True
    def at(loc):
        bid, idx = loc
        if IN.get(bid, False):
            return True
        return any(g < idx for g in call_pos.get(bid, []))
    memo[key] = (bool(IN.get(f.exit, False)), at)
    return memo[key]


def _predicate_helper_atoms(prog, ctx, c, pol, depth=0):
    """the test is a call of a repository predicate `bool g(args) { return <expr>; }`: the atoms of <expr> (under the same
    polarity), each with a context in which g's parameters stand for the caller's arguments"""
    c0 = c.strip_all()
    if depth > 2 or not (c0.is_call() and c0.callee and c0.callee.get("repo")) or c0.k in ("CXXConstructExpr", "CXXTemporaryObjectExpr"):
        return []
    g = prog.functions.get(c0.callee.get("usr"))
    if g is None or c0.callee.get("virt") or g.get("nodes", 0) > 200:
        return []
    rets = [x for x in g.walk() if x.k == "ReturnStmt"]
    if len(rets) != 1 or not rets[0].c or rets[0].c[0].strip().tc != "bool":
        return []
    args = c0.call_args()
    pmap = {}
    for i, prm in enumerate(g.params):
        if i < len(args):
            pmap[prm["n"]] = ctx.objs(args[i]) | ctx.base_objs(args[i])
    hctx = GuardCtx(prog, g, group_params=False, parm_objs=pmap)
    obj = c0.call_object()
    if obj is not None and "cls" in c0.callee and not c0.callee.get("static"):
        hctx.this_objs = ctx.objs(obj) | ctx.base_objs(obj)
    out = []
    for (c2, p2) in atoms_of(rets[0].c[0], pol):
        out.append((hctx, c2, p2))
        out.extend(_predicate_helper_atoms(prog, hctx, c2, p2, depth + 1))
    return out


def _pred_granularity(ctx, c, pol, as_eq=False):
    """(input size) % (object state) == 0 holds on the surviving edge"""
    cmp_ = as_comparison(c)
    if cmp_ is None:
        return False
    l, op, r = cmp_
    if not pol:
        op = {"==": "!=", "!=": "=="}.get(op, op)
    if as_eq:
        op = "=="
    for a, b in ((l, r), (r, l)):
        a0, b0 = a.strip_all(), b.strip_all()
        if a0.k == "DeclRefExpr" and a0.decl and a0.decl.get("k") == "local":
            d = _single_def(a0)           # const int rem = len % decim; if (rem != 0) throw
            if d is not None:
                a0 = d.strip_all()
        if a0.k == "BinaryOperator" and a0.op == "%" and len(a0.c) == 2 and b0.k == "IntegerLiteral" and b0.get("v") == "0" and op == "==":
            oa = ctx.objs(a0.c[0], ("size", "val"))
            ob = ctx.objs(a0.c[1], ("size", "val"))
            if any(o[0] == "parm" for o in oa) and (("this",) in ob):
                return True
        # std::div(nx, M).rem == 0   (directly, or through `const auto blocks = std::div(nx, M);`)
        if a0.k == "MemberExpr" and a0.decl and a0.decl.get("n") == "rem" and a0.c and b0.k == "IntegerLiteral" and b0.get("v") == "0" and op == "==":
            q = a0.c[0].strip_all()
            if q.k == "DeclRefExpr" and q.decl and q.decl.get("k") == "local":
                dq = _single_def(q)
                q = dq.strip_all() if dq is not None else q
            while q.k in ("CXXConstructExpr", "MaterializeTemporaryExpr", "ExprWithCleanups") and len(q.c) == 1:
                q = q.c[0].strip_all()
            if q.k == "CallExpr" and (q.callee or {}).get("qn") in ("std::div", "div", "std::ldiv", "ldiv") and len(q.call_args()) == 2:
                oa = ctx.objs(q.call_args()[0], ("size", "val"))
                ob = ctx.objs(q.call_args()[1], ("size", "val"))
                if any(o[0] == "parm" for o in oa) and (("this",) in ob):
                    return True
        # the same test written with a quotient:  (nx / M) * M == nx,  np * M == nx with np = nx / M
        if op == "==":
            oa = ctx.objs(a0, ("size", "val"))
            ob = ctx.objs(b0, ("size", "val"))
            has_arith = any(x.k == "BinaryOperator" and x.op in ("*", "/") for x in a0.walk())
            if has_arith and any(o[0] == "parm" for o in oa) and (("this",) in oa) and any(o[0] == "parm" for o in ob) and ("this",) not in ob:
                return True
    return False


def _pred_window_length(ctx, c, pol, as_eq=False):
    """win.size() == f(n) holds on the surviving edge (win and n are parameters)"""
    cmp_ = as_comparison(c)
    if cmp_ is None:
        return False
    l, op, r = cmp_
    if not pol:
        op = {"==": "!=", "!=": "=="}.get(op, op)
    if as_eq:
        op = "=="
    if op != "==":
        return False
    ol, orr = ctx.objs(l, ("size",)), ctx.objs(r, ("size", "val"))
    ol2, orr2 = ctx.objs(r, ("size",)), ctx.objs(l, ("size", "val"))
    for (sz, other) in ((ol, orr), (ol2, orr2)):
        if ("parm", "win") in sz and ("parm", "n") in other:
            return True
    return False


def _state_writes_before(prog, f, at, pred, memo, depth):
    """[(function, node, field)] writes of members of *this at points the rejecting check does not dominate"""
    out = []
    cj = prog.classes.get(f.cls) if f.cls else None
    if cj is None:
        return out
    flow = Flow(f, prog)
    for fld in [x["name"] for x in cj.get("fields", [])]:
        for (n, _) in _write_sources(f, flow, fld):
            loc = f.block_of(n)
            if loc is not None and not at(loc):
                out.append((f, n, fld))
    # member functions called on *this before the check: their writes count, unless they validate first themselves
    for n in f.walk():
        if n.k != "CXXMemberCallExpr" or not n.callee or n.callee.get("const") or n.callee.get("cls") != f.cls:
            continue
        obj = n.call_object()
        if obj is not None and obj.strip_all().k != "CXXThisExpr":
            continue
        loc = f.block_of(n)
        if loc is None or at(loc) or depth > 1:
            continue
        g = prog.functions.get(n.callee.get("usr"))
        if g is None:
            continue
        gflow_at = _reject_analysis(prog, g, pred, memo, None, depth + 1)[1]
        out += _state_writes_before(prog, g, gflow_at, pred, memo, depth + 1)
    return sorted(out, key=lambda w: (w[0].file, w[1].line))


R1_TABLE = [
    # (property, qualified-name regex, parameter filter, predicate, what is rejected)
    ("C08", re.compile(r"^dsplib::(FIRDecimator|FIRRateConverter)::process$"), None, _pred_granularity,
     "a frame whose length is not a multiple of the decimation factor"),
    ("C11", re.compile(r"^dsplib::fir1$"), "win", _pred_window_length, "a custom window whose length does not match the order"),
]


def rule_R1(prog, fixture=False):
    res = RuleResult("R1", "every rejection the property statements document is implemented as a live, throwing check that lies on "
                           "every path from the entry point to a normal return - in the function itself or in a function it calls on "
                           "that path")
    memo_by_pred = {}
    n = 0
    for (prop, rx, need_param, pred, what) in R1_TABLE:
        funcs = [f for f in prog.functions.values() if rx.match(f.qn) and not f.get("implicit")]
        if need_param:
            funcs = [f for f in funcs if any(p["n"] == need_param for p in f.params)]
        if not funcs and not fixture:
            res.broken.append("anchor vanished: no function matching %s%s" % (rx.pattern, (" with a parameter '%s'" % need_param) if need_param else ""))
            continue
        for f in sorted(funcs, key=lambda f: (f.file, f.line)):
            n += 1
            memo = memo_by_pred.setdefault(pred.__name__, {})
            pmap = {p["n"]: {("parm", p["n"])} for p in f.params}
            ok = _must_reject(prog, f, pred, memo, pmap)
            key = "R1:%s:%s" % (prop, fkey(f))
            where = "%s:%d" % (prog.rel(f.file), f.line)
            desc = "%s rejects %s" % (f.short, what)
            extra = {"props": [prop]}
            if ok and prop == "C08":
                # a rejected frame must leave the converter as it was: no member is written before the check has been passed
                early = _state_writes_before(prog, f, _reject_analysis(prog, f, pred, memo, pmap)[1], pred, memo, 0)
                okey = "R1:%s:before-state:%s" % (prop, fkey(f))
                if early:
                    w = early[0]
                    res.add(okey, VIOLATED, "%s:%d" % (prog.rel(w[0].file), w[1].line), "%s rejects before it touches its state" % f.short,
                            "%s writes member '%s' on a path that has not yet passed the frame-length check: a frame that is then "
                            "rejected has already been shifted into the converter's state, and the frames accepted afterwards are "
                            "filtered against it" % (w[1].text()[:80], w[2]), func=f.name, extra=extra,
                            path=["%s:%d %s" % (prog.rel(x[0].file), x[1].line, x[1].text()[:80]) for x in early[:6]])
                else:
                    res.add(okey, DISCHARGED, where, "%s rejects before it touches its state" % f.short,
                            "no member is written before the frame-length check has been passed", func=f.name, extra=extra)
            if ok:
                res.add(key, DISCHARGED, where, desc, "a live throwing check lies on every path to a normal return", func=f.name, extra=extra)
            else:
                res.add(key, VIOLATED, where, desc,
                        "some path from the entry to a normal return passes no live throwing check of that condition (neither here "
                        "nor in a callee on that path): the input is processed instead of being rejected", func=f.name, extra=extra)
    # C08: resample(x, p, q) returns x itself when the reduced ratio is 1
    for f in sorted([f for f in prog.functions.values() if f.qn == "dsplib::resample"], key=lambda f: f.line):
        n += 1
        key = "R1:C08:identity:%s" % fkey(f)
        where = "%s:%d" % (prog.rel(f.file), f.line)
        x = f.params[0]["n"] if f.params else None
        found = None
        for s_ in f.walk():
            if s_.k != "IfStmt":
                continue
            c = s_.role("cond")
            cmp_ = as_comparison(c) if c is not None else None
            if cmp_ is None or cmp_[1] != "==":
                continue
            then = s_.role("then")
            rets = [r for r in (then.walk() if then is not None else []) if r.k == "ReturnStmt" and r.c]
            for r in rets:
                e = r.c[0].strip_all()
                while e.k == "CXXConstructExpr" and len(e.c) == 1:
                    e = e.c[0].strip_all()
                if e.k == "DeclRefExpr" and e.decl and e.decl.get("k") == "parm" and e.decl.get("n") == x:
                    found = s_
        if found is not None:
            res.add(key, DISCHARGED, "%s:%d" % (prog.rel(f.file), found.line), "%s returns x itself when p = q" % f.short,
                    "branch %s returns the input parameter" % found.role("cond").text(), func=f.name, extra={"props": ["C08"]})
        else:
            res.add(key, VIOLATED, where, "%s returns x itself when p = q" % f.short,
                    "no branch on equality of the reduced ratio returns the input parameter unchanged", func=f.name, extra={"props": ["C08"]})
    res.stats["documented_rejections"] = n
    return res


# =================================================================================================
# S2 LOST-UPDATE: a stateful member is advanced in place, not on a copy that is then dropped  (C06, C08, C12, C14, C20)
def _stateful_classes(prog):
    """repository classes with a non-const member function that writes a member (processors with history)"""
    out = {}
    for f in prog.functions.values():
        if not f.cls or f.kind != "method" or f.get("const") or f.get("implicit") or f.get("static"):
            continue
        if any(k[0] == "field" and k[1] != "*" for (_, _, k) in f._writes()):
            out.setdefault(f.cls, set()).add(f.usr)
    # members that only forward to such a member of the same class
    changed = True
    while changed:
        changed = False
        for f in prog.functions.values():
            if not f.cls or f.kind != "method" or f.get("const") or f.get("implicit") or f.usr in out.get(f.cls, ()):
                continue
            for c in f.get("calls", []):
                if c["usr"] in out.get(f.cls, ()):
                    out.setdefault(f.cls, set()).add(f.usr)
                    changed = True
                    break
    return out


def _s2_props(rel):
    props = ["C06"]
    if "lib/resample/" in rel or rel.endswith("resample.h"):
        props.append("C08")
    if rel.endswith("lms.h") or rel.endswith("rls.h"):
        props.append("C12")
    if rel.endswith("hilbert.cpp") or rel.endswith("hilbert.h") or rel.endswith("tuner.h"):
        props.append("C14")
    if "/audio/" in rel or rel.endswith("agc.cpp") or rel.endswith("agc.h"):
        props.append("C20")
    return props


def rule_S2(prog, fixture=False):
    from .rules_assume import canon
    res = RuleResult("S2", "a local that names a stateful member object (a filter, delay line, averager held by the object or reached "
                           "through a reference parameter) and on which a state-advancing member function is called is bound by "
                           "reference, or is written back: otherwise the update is applied to a copy and the member keeps its old state "
                           "- every call starts from the state of the first one")
    stateful = _stateful_classes(prog)
    n = 0
    for f in sorted(prog.functions.values(), key=lambda f: (f.file, f.line, f.name)):
        if f.get("implicit") or f.file.endswith("coverage.cc"):
            continue
        rel = prog.rel(f.file)
        for v in f.walk():
            if v.k != "VarDecl" or not v.decl or v.decl.get("k") != "local" or not v.c:
                continue
            ty = re.sub(r"^const\s+|\s*&+$|\s+const$", "", v.decl.get("dt") or v.type or "").strip()
            cls = ty if ty in stateful else ("dsplib::" + ty if ("dsplib::" + ty) in stateful else None)
            if cls is None or cls.startswith("dsplib::base_array<") or cls.startswith("dsplib::cmplx_t") or "slice_t" in cls:
                continue          # value containers: a copy of an array is a value, not a processor with history
            init = v.c[0].strip_all()
            is_ref = (v.decl.get("dt") or v.type or "").rstrip().endswith("&")
            src = init
            while src.k in ("CXXConstructExpr", "MaterializeTemporaryExpr", "CXXBindTemporaryExpr", "ExprWithCleanups") and len(src.c) == 1:
                src = src.c[0].strip_all()
            # the source must be an lvalue that outlives the call: a member of *this, or a member of / the referent of a parameter
            root = src
            while root.k == "MemberExpr" and root.c:
                root = root.c[0].strip_all()
            rooted = (src.k == "MemberExpr" and (root.k == "CXXThisExpr" or (root.k == "DeclRefExpr" and root.decl and root.decl.get("k") == "parm"))) \
                or (src.k == "DeclRefExpr" and src.decl and src.decl.get("k") == "parm" and src.id != init.id)
            if not rooted or not src.get("lv", True):
                continue
            sty = re.sub(r"^const\s+|\s*&+$|\s+const$", "", src.type or "").strip()
            if sty != ty and "dsplib::" + sty != cls and sty != cls:
                continue          # constructed from something else (a size, a coefficient vector): not a copy of state
            n += 1
            key = "S2:%s:%s" % (fkey(f), v.decl["n"])
            where = "%s:%d" % (rel, v.line)
            what = "%s %s = %s in %s" % (short_ty(v), v.decl["n"], src.text(), f.short)
            extra = {"props": _s2_props(rel)}
            if is_ref:
                res.add(key, DISCHARGED, where, what, "bound by reference: calls advance the member itself", func=f.name, extra=extra)
                continue
            vid = v.decl["id"]
            advancing, escapes, written_back = [], False, False
            src_c = canon(src)
            for x in f.walk():
                if x.k in ("CXXMemberCallExpr", "CXXOperatorCallExpr") and x.callee and x.callee.get("usr") in stateful[cls]:
                    o = x.call_object() if x.k == "CXXMemberCallExpr" else (x.c[1] if len(x.c) > 1 else None)
                    o = o.strip_all() if o is not None else None
                    if o is not None and o.k == "DeclRefExpr" and o.decl and o.decl.get("id") == vid:
                        advancing.append(x)
                        continue
                if x.k == "ReturnStmt" and any(y.k == "DeclRefExpr" and y.decl and y.decl.get("id") == vid for y in x.walk()):
                    escapes = True
                if x.is_call() and x.k != "CXXMemberCallExpr":
                    for a in x.call_args():
                        a0 = a.strip_all()
                        while a0.k in ("CXXConstructExpr", "MaterializeTemporaryExpr") and len(a0.c) == 1:
                            a0 = a0.c[0].strip_all()
                        if a0.k == "DeclRefExpr" and a0.decl and a0.decl.get("id") == vid and not (x.k == "CXXOperatorCallExpr" and x.c and len(x.c) > 1 and x.c[1].strip_all().id == a0.id):
                            if x.k == "CXXOperatorCallExpr" and x.op == "=":
                                continue
                            escapes = True
                if (x.k == "BinaryOperator" and x.op == "=" and len(x.c) == 2) or (x.k == "CXXOperatorCallExpr" and x.op == "=" and len(x.c) == 3):
                    l, r = (x.c[0], x.c[1]) if x.k == "BinaryOperator" else (x.c[1], x.c[2])
                    if canon(l) == src_c and any(y.k == "DeclRefExpr" and y.decl and y.decl.get("id") == vid for y in r.walk()):
                        written_back = True
            if not advancing:
                res.add(key, DISCHARGED, where, what, "the copy is never advanced (read-only snapshot)", func=f.name, extra=extra)
            elif written_back:
                res.add(key, DISCHARGED, where, what, "the advanced copy is assigned back to %s" % src.text(), func=f.name, extra=extra)
            elif escapes:
                res.add(key, UNMODELLED, where, what, "the advanced copy is returned or handed to another function: a deliberate copy", func=f.name, extra=extra)
            else:
                a = advancing[0]
                res.add(key, VIOLATED, "%s:%d" % (rel, a.line), what,
                        "%s advances a copy of %s; the copy is dropped at the end of %s and %s keeps the state it had before the "
                        "call: the next call starts from there again" % (a.text()[:70], src.text(), f.short, src.text()), func=f.name, extra=extra)
    # S2c: running state kept in locals for the duration of a call (copy in, work, copy out): where a member function uses the
    # idiom - some local initialised from a member is assigned back to that member - every local initialised from a member and
    # modified on the way is assigned back as well
    for f in sorted(prog.functions.values(), key=lambda f: (f.file, f.line, f.name)):
        if f.get("implicit") or f.file.endswith("coverage.cc") or not f.cls or f.get("const") or f.get("static") or f.kind != "method":
            continue
        rel = prog.rel(f.file)
        copies = []       # (VarDecl node, field name)
        for v in f.walk():
            if v.k != "VarDecl" or not v.decl or v.decl.get("k") != "local" or not v.c or v.tc not in ("int", "float", "bool", "enum"):
                continue
            dt = (v.decl.get("dt") or v.type or "")
            if dt.startswith("const ") or dt.rstrip().endswith("&"):
                continue
            i0 = v.c[0].strip_all()
            if i0.k == "MemberExpr" and i0.decl and i0.decl.get("k") == "field" and (not i0.c or i0.c[0].strip_all().k == "CXXThisExpr") \
                    and not (i0.decl.get("dt") or "").startswith("const "):
                copies.append((v, i0.decl["n"]))
        if len(copies) < 2:
            continue

        def uses(e, vid):
            return any(y.k == "DeclRefExpr" and y.decl and y.decl.get("id") == vid for y in e.walk())
        back, modified = set(), {}
        for x in f.walk():
            if x.k in ("BinaryOperator", "CompoundAssignOperator") and x.op and x.op.endswith("=") and x.op not in ("==", "!=", "<=", ">=") and len(x.c) == 2:
                l0 = x.c[0].strip_all()
                for (v, fld) in copies:
                    if l0.k == "MemberExpr" and l0.decl and l0.decl.get("n") == fld and (not l0.c or l0.c[0].strip_all().k == "CXXThisExpr") \
                            and uses(x.c[1], v.decl["id"]):
                        back.add(v.decl["id"])
                    if l0.k == "DeclRefExpr" and l0.decl and l0.decl.get("id") == v.decl["id"]:
                        modified.setdefault(v.decl["id"], x)
            elif x.k == "UnaryOperator" and x.op in ("++", "--") and x.c:
                l0 = x.c[0].strip_all()
                for (v, fld) in copies:
                    if l0.k == "DeclRefExpr" and l0.decl and l0.decl.get("id") == v.decl["id"]:
                        modified.setdefault(v.decl["id"], x)
            elif x.is_call() and x.callee:
                pm = x.callee.get("pm", [])
                for i, a in enumerate(x.call_args()):
                    if (pm[i] if i < len(pm) else "val") in ("ref", "ptr"):
                        a0 = a.strip_all()
                        if a0.k == "UnaryOperator" and a0.op == "&" and a0.c:
                            a0 = a0.c[0].strip_all()
                        for (v, fld) in copies:
                            if a0.k == "DeclRefExpr" and a0.decl and a0.decl.get("id") == v.decl["id"] and not (a.type or "").startswith("const "):
                                modified.setdefault(v.decl["id"], x)
        if not back:
            continue
        # a member that a constructor sets from its arguments is a setting; a working copy of a setting is not running state
        settings = set()
        cname = f.cls.rsplit("::", 1)[-1].split("<")[0]
        for g in prog.functions.values():
            if g.cls != f.cls or g.name.rsplit("::", 1)[-1] != cname:
                continue
            for ci in g.ctor_inits():
                if ci.get("member") and any(y.k == "DeclRefExpr" and y.decl and y.decl.get("k") == "parm" for y in ci.walk()):
                    settings.add(ci.get("member"))
            for x in g.walk():
                if x.k == "BinaryOperator" and x.op == "=" and len(x.c) == 2:
                    l0 = x.c[0].strip_all()
                    if l0.k == "MemberExpr" and l0.decl and l0.decl.get("k") == "field" and \
                            any(y.k == "DeclRefExpr" and y.decl and y.decl.get("k") == "parm" for y in x.c[1].walk()):
                        settings.add(l0.decl["n"])
        for (v, fld) in copies:
            vid = v.decl["id"]
            if fld in settings and vid not in back:
                continue
            key = "S2c:%s:%s" % (fkey(f), v.decl["n"])
            where = "%s:%d" % (rel, v.line)
            what = "%s = %s in %s" % (v.decl["n"], fld, f.short)
            extra = {"props": _s2_props(rel)}
            if vid in back:
                res.add(key, DISCHARGED, where, what, "copied in and assigned back", func=f.name, extra=extra)
            elif vid not in modified:
                res.add(key, DISCHARGED, where, what, "a read-only snapshot", func=f.name, extra=extra)
            else:
                m = modified[vid]
                res.add(key, VIOLATED, "%s:%d" % (rel, m.line), what,
                        "%s keeps its running state in locals and assigns them back (%s), but %s - initialised from %s and changed on the "
                        "way (%s) - is never assigned back: %s keeps the value it had before the call, every call restarts from it"
                        % (f.short, ", ".join(sorted(ff for (vv, ff) in copies if vv.decl["id"] in back)), v.decl["n"], fld, m.text()[:60], fld),
                        func=f.name, extra=extra)
    res.stats["stateful_classes"] = len(stateful)
    res.stats["locals_naming_state"] = n
    return res


def short_ty(v):
    return (v.decl.get("dt") or v.type or "?")


# =================================================================================================
# R2 DOMAIN-ACCEPTED: no argument check rejects a value the property quantifies over
R2_TABLE = [
    # (property, qualified-name regex of the entry point, parameter, lowest admissible, highest admissible, where the range is stated)
    ("C20", r"^dsplib::(Compressor|Limiter)::(Compressor|Limiter)$", "threshold", -50, 0, "thresholds -50..0 dB"),
    ("C20", r"^dsplib::NoiseGate::NoiseGate$", "threshold", -50, 0, "thresholds -50..0 dB"),
    ("C20", r"^dsplib::Compressor::Compressor$", "ratio", 1, 50, "ratios 1..50"),
    ("C20", r"^dsplib::(Compressor|Limiter)::(Compressor|Limiter)$", "knee_width", 0, 20, "knee widths 0..20 dB"),
    ("C20", r"^dsplib::(Compressor|Limiter|NoiseGate)::(Compressor|Limiter|NoiseGate)$", "attack_time", 0, 4, "attack/release 0..4 s"),
    ("C20", r"^dsplib::(Compressor|Limiter|NoiseGate)::(Compressor|Limiter|NoiseGate)$", "release_time", 0, 4, "attack/release 0..4 s"),
    ("C20", r"^dsplib::(Compressor|Limiter|NoiseGate)::(Compressor|Limiter|NoiseGate)$", "sample_rate", 8000, 192000, "sample rates 8k..192k"),
    ("C20", r"^dsplib::Agc::Agc$", "average_len", 1, 1000, "averaging lengths 1..1000"),
    ("C20", r"^dsplib::Agc::Agc$", "target_level", 0.01, 100, "AGC targets 0.01..100"),
    ("C12", r"^dsplib::RlsFilter<.*>::RlsFilter$", "forget_factor", 0.9, 1, "forgetting factors 0.9..1"),
    ("C12", r"^dsplib::RlsFilter<.*>::RlsFilter$", "diag_load", 1e-2, 1e4, "diagonal loads 1e-2..1e4"),
    ("C12", r"^dsplib::RlsFilter<.*>::RlsFilter$", "filter_len", 2, 64, "filter lengths 2..64"),
    ("C12", r"^dsplib::LmsFilter<.*>::LmsFilter$", "len", 2, 64, "filter lengths 2..64"),
    ("C12", r"^dsplib::LmsFilter<.*>::LmsFilter$", "leak", 0, 1, "leakage 1 and < 1"),
    ("C11", r"^dsplib::window::tukey$", "r", -0.5, 1.5, "tukey r in [-0.5, 1.5]"),
    ("C11", r"^dsplib::window::kaiser$", "beta", 0, 40, "kaiser beta in [0, 40]"),
    ("C11", r"^dsplib::window::gauss$", "alpha", 0.5, 6, "gauss alpha in [0.5, 6]"),
    ("C11", r"^dsplib::window::(hann|hamming|blackman|blackmanharris|gauss|cosine|tukey|kaiser)$", "n", 3, 100000, "all lengths 3..512 and sampled to 10^5"),
    ("C11", r"^dsplib::fir1$", "n", 2, 2000, "all orders n in 2..256 and sampled to 2000"),
    ("C11", r"^dsplib::fir1$", "wn", 0.02, 0.98, "cut-offs on a fine grid of (0.02, 0.98)"),
    ("C08", r"^dsplib::(FIRDecimator)::\1$", "decim", 1, 16, "L, M in 1..16"),
    ("C08", r"^dsplib::(FIRInterpolator)::\1$", "interp", 1, 16, "L, M in 1..16"),
    ("C08", r"^dsplib::(FIRRateConverter)::\1$", "interp", 1, 16, "L, M in 1..16"),
    ("C08", r"^dsplib::(FIRRateConverter)::\1$", "decim", 1, 16, "L, M in 1..16"),
    ("C14", r"^dsplib::Tuner::Tuner$", "sample_rate", 8, 100000, "Tuner sample rates 8..10^5"),
    ("C14", r"^dsplib::HilbertFilter::HilbertFilter$", "flen", 31, 401, "HilbertFilter lengths 31..401"),
    ("C14", r"^dsplib::HilbertFilter::HilbertFilter$", "tw", 0.005, 0.1, "transition widths 0.005..0.1"),
    ("C16", r"^dsplib::MedianFilter::MedianFilter$", "n", 3, 33, "orders 3..33"),
    ("C02", r"^dsplib::IfftPlanR::IfftPlanR$", "n", 2, 2048, "all even n in 2..2048 for irfft"),
    ("C02", r"^dsplib::IfftPlan::IfftPlan$", "n", 1, 2048, "all n in 1..2048 for ifft"),
]
NUM_INF = float("inf")


def _num_const(n):
    x = n.strip_all()
    while x.k in ("CXXFunctionalCastExpr", "CXXStaticCastExpr", "CStyleCastExpr") and x.c:
        x = x.c[0].strip_all()
    if x.k == "IntegerLiteral":
        return float(int(x.get("v")))
    if x.k == "FloatingLiteral":
        return float(x.get("v"))
    if x.k == "UnaryOperator" and x.op in ("-", "+") and x.c:
        v = _num_const(x.c[0])
        return None if v is None else (-v if x.op == "-" else v)
    return None


def _is_param_ref(n, name):
    x = n.strip_all()
    while x.k in ("CXXFunctionalCastExpr", "CXXStaticCastExpr", "CStyleCastExpr") and x.c:
        x = x.c[0].strip_all()
    return x.k == "DeclRefExpr" and x.decl and x.decl.get("k") == "parm" and x.decl.get("n") == name


def _surviving_set(c, pol, name):
    """(lo, lo_open, hi, hi_open, hole) of the values of parameter `name` for which the outcome (c == pol) is possible, or None
    when the condition is not a comparison of the parameter with a constant"""
    cmp_ = as_comparison(c)
    if cmp_ is None:
        return None
    l, op, r = cmp_
    flip = {"<": ">", "<=": ">=", ">": "<", ">=": "<=", "==": "==", "!=": "!="}
    neg = {"<": ">=", "<=": ">", ">": "<=", ">=": "<", "==": "!=", "!=": "=="}
    if _is_param_ref(l, name) and _num_const(r) is not None:
        k = _num_const(r)
    elif _is_param_ref(r, name) and _num_const(l) is not None:
        k, op = _num_const(l), flip[op]
    else:
        return None
    if not pol:
        op = neg[op]
    return {"<": (-NUM_INF, True, k, True, None), "<=": (-NUM_INF, True, k, False, None), ">": (k, True, NUM_INF, True, None),
            ">=": (k, False, NUM_INF, True, None), "==": (k, False, k, False, None), "!=": (-NUM_INF, True, NUM_INF, True, k)}[op]


def _rejected_point(sv, lo, hi):
    """a value of [lo, hi] outside the surviving set, or None"""
    a, ao, b, bo, hole = sv
    if lo < a or (lo == a and ao):
        return lo
    if hi > b or (hi == b and bo):
        return hi
    if hole is not None and lo <= hole <= hi:
        return hole
    return None


def rule_R2(prog, fixture=False):
    res = RuleResult("R2", "no live, throwing argument check of an entry point rejects a parameter value inside the range the property "
                           "quantifies over (checks of the parameter against numeric constants, in the entry point or in a function it "
                           "calls before returning; other forms of check are listed as unmodelled)")
    n = 0
    for (prop, rx, pname, lo, hi, src) in R2_TABLE:
        crx = re.compile(rx)
        funcs = [f for f in prog.functions.values() if crx.match(f.qn) and not f.get("implicit") and any(p["n"] == pname for p in f.params)
                 and not f.file.endswith("coverage.cc")]
        for f in sorted(funcs, key=lambda f: (f.file, f.line, f.name)):
            n += 1
            f.blocks
            key = "R2:%s:%s:%s" % (prop, fkey(f), pname)
            where = "%s:%d" % (prog.rel(f.file), f.line)
            what = "%s accepts %s in [%g, %g]" % (f.short, pname, lo, hi)
            extra = {"props": [prop], "stated_as": src}
            checks, other = [], []
            frames = [(f, pname)]
            # a constructor that forwards the parameter unchanged to another constructor / helper: look there as well (depth 1)
            for c in f.walk():
                if c.is_call() and c.callee and c.callee.get("repo") and c.callee.get("usr") in prog.functions:
                    g = prog.functions[c.callee["usr"]]
                    for i, a in enumerate(c.call_args()):
                        if _is_param_ref(a, pname) and i < len(g.params) and g.usr != f.usr:
                            frames.append((g, g.params[i]["n"]))
            for (g, gp) in frames:
                g.blocks
                if not g.blocks:
                    continue
                for fact in g.facts_at_block(g.exit, normal_exit=True):
                    if fact.belief or not fact.rejects_by_throw:
                        continue
                    for (c, p) in atoms_of(fact.cond, fact.pol):
                        sv = _surviving_set(c, p, gp)
                        if sv is not None:
                            checks.append((g, c, p, sv))
                        elif any(x.k == "DeclRefExpr" and x.decl and x.decl.get("k") == "parm" and x.decl.get("n") == gp for x in c.walk()):
                            other.append((g, c))
            bad = None
            for (g, c, p, sv) in checks:
                v = _rejected_point(sv, lo, hi)
                if v is not None:
                    bad = (g, c, p, v)
                    break
            if bad:
                g, c, p, v = bad
                res.add(key, VIOLATED, "%s:%d" % (prog.rel(g.file), c.line), what,
                        "%s = %g is rejected: the check %s must %s for the call to return, but the property ranges over %s"
                        % (pname, v, c.text(), "hold" if p else "fail", src), func=f.name, extra=extra)
            elif other and not checks:
                res.add(key, UNMODELLED, where, what, "checked in a form outside this rule (%s)" % other[0][1].text()[:80], func=f.name, extra=extra)
            else:
                res.add(key, DISCHARGED, where, what, "%d constant range check(s) on the parameter, none excludes a value of the range%s" % (
                    len(checks), "; also checked as %s" % other[0][1].text()[:60] if other else ""), func=f.name, extra=extra)
    # a relational domain: Tuner accepts every f with |f| <= fs/2, the boundary included (C14 ranges over f in [-fs/2, fs/2])
    for f in sorted([f for f in prog.functions.values() if re.match(r"^dsplib::Tuner::Tuner$", f.qn) and not f.get("implicit")
                     and not f.file.endswith("coverage.cc")], key=lambda f: (f.file, f.line)):
        f.blocks
        flow = Flow(f, prog, control=False)
        key = "R2:C14:%s:freq-boundary" % fkey(f)
        where = "%s:%d" % (prog.rel(f.file), f.line)
        what = "%s accepts |freq| == sample_rate / 2" % f.short
        extra = {"props": ["C14"]}
        strict = None
        seen = 0

        def names(e):
            out = set()
            for x in e.walk():
                if x.k == "DeclRefExpr" and x.decl and x.decl.get("k") == "parm":
                    out.add(x.decl.get("n"))
                if x.k == "MemberExpr" and x.decl and x.decl.get("k") == "field":
                    out.add(x.decl.get("n"))
            return out
        fq = {"freq", "_freq"}
        fsn = {"sample_rate", "_fs", "fs"}
        for fact in f.facts_at_block(f.exit, normal_exit=True):
            if fact.belief or not fact.rejects_by_throw:
                continue
            for (c, pol) in atoms_of(fact.cond, fact.pol):
                cmp_ = as_comparison(c)
                if cmp_ is None:
                    continue
                l, op, r = cmp_
                nl, nr = names(l), names(r)
                if not ((nl & fq and nr & fsn and not (nl & fsn) and not (nr & fq)) or (nr & fq and nl & fsn and not (nr & fsn) and not (nl & fq))):
                    continue
                seen += 1
                if not pol:
                    op = {"<": ">=", ">=": "<", ">": "<=", "<=": ">", "==": "!=", "!=": "=="}[op]
                if op in ("<", ">"):
                    strict = c
        if strict is not None:
            res.add(key, VIOLATED, "%s:%d" % (prog.rel(f.file), strict.line), what,
                    "the surviving side of `%s` is a strict comparison of the frequency with half the sample rate: f = +-fs/2, the end "
                    "points of the range the property quantifies over, is rejected" % strict.text()[:80], func=f.name, extra=extra)
        elif seen:
            res.add(key, DISCHARGED, where, what, "%d range check(s) of the frequency against the sample rate, none strict" % seen, func=f.name, extra=extra)
        n += 1 if seen else 0
    res.stats["entry_point_parameters"] = n
    if not n and not fixture:
        res.broken.append("anchor vanished: none of the tabulated entry points / parameters exists")
    return res


# =================================================================================================
# N4 NARROW-CURSOR: a running position is not kept in an integer type narrower than int  (C05, C08)
def rule_N4(prog, fixture=False):
    res = RuleResult("N4", "a local integer that is advanced inside a loop (+=, ++, or x = x + e) and used as a subscript or pointer offset "
                           "has at least the width of int: a 16- or 8-bit cursor (typically deduced by `auto` from a table of small "
                           "integers) wraps at 65536 / 256 and the accesses start again from the front of the buffer")
    n = 0
    for f in sorted(prog.functions.values(), key=lambda f: (f.file, f.line, f.name)):
        if f.get("implicit") or f.file.endswith("coverage.cc"):
            continue
        rel = prog.rel(f.file)
        if not fixture and not (rel.startswith("lib/") or rel.startswith("include/")):
            continue
        for v in f.walk():
            if v.k != "VarDecl" or not v.decl or v.decl.get("k") != "local" or v.tc != "int":
                continue
            w = v.get("w")
            if w is None or w >= 32:
                continue
            vid = v.decl["id"]
            advanced, used = None, None
            for x in f.walk():
                in_loop = any(a.k in ("ForStmt", "WhileStmt", "DoStmt", "CXXForRangeStmt") for a in x.ancestors())
                if in_loop and x.k in ("CompoundAssignOperator", "UnaryOperator") and x.op in ("+=", "-=", "++", "--") and x.c:
                    t = x.c[0].strip_all()
                    if t.k == "DeclRefExpr" and t.decl and t.decl.get("id") == vid:
                        advanced = x
                if in_loop and x.k == "BinaryOperator" and x.op == "=" and len(x.c) == 2:
                    t = x.c[0].strip_all()
                    if t.k == "DeclRefExpr" and t.decl and t.decl.get("id") == vid and \
                            any(y.k == "DeclRefExpr" and y.decl and y.decl.get("id") == vid for y in x.c[1].walk()):
                        advanced = x
                is_sub = (x.k == "ArraySubscriptExpr" and len(x.c) == 2) or (x.k == "CXXOperatorCallExpr" and x.op == "[]" and len(x.c) == 3) \
                    or (x.k == "BinaryOperator" and x.op in ("+", "-") and x.tc == "ptr")
                if is_sub:
                    idx = x.c[-1] if x.k != "BinaryOperator" else (x.c[1] if x.c[0].strip().tc == "ptr" else x.c[0])
                    if any(y.k == "DeclRefExpr" and y.decl and y.decl.get("id") == vid for y in idx.walk()):
                        used = x
            if advanced is None:
                continue
            n += 1
            key = "N4:%s:%s" % (fkey(f), v.decl["n"])
            where = "%s:%d" % (rel, v.line)
            what = "%s %s in %s" % (v.decl.get("dt") or v.type, v.decl["n"], f.short)
            extra = {"props": ["C05", "C08", "C06"]}
            if used is not None:
                res.add(key, VIOLATED, "%s:%d" % (rel, advanced.line), what,
                        "%s advances a %d-bit variable that indexes storage (%s): it wraps after %d steps of one and the access "
                        "restarts at the front" % (advanced.text()[:50], w, used.text()[:50], 2 ** w), func=f.name, extra=extra)
            else:
                res.add(key, DISCHARGED, where, what, "advanced in a loop but never used as an index or pointer offset", func=f.name, extra=extra)
    res.stats["narrow_cursors"] = n
    return res
