"""Rules added after the first round of independently seeded changes:
   G6 RAW-OFFSET-DIFFERENCE (C05), N3 NARROW-PRODUCT-IN-REAL (C16), N2s SHIFT-IN-LOOP-BOUND (C15), V1 STALE-VIEW (C14)"""
import re

from .core import RuleResult, DISCHARGED, VIOLATED, UNMODELLED
from .flow import Flow
from .guards import GuardCtx, as_comparison
from .ir import atoms_of
from .rules_arith import _is_constant, _is_int
from .rules_state import fkey

RAW_COPY = {"memcpy", "memmove", "memset", "std::memcpy", "std::memmove", "std::memset"}


def _strip_up(n):
    p = n.parent
    while p is not None and p.k == "ImplicitCastExpr":
        p = p.parent
    return p


# =================================================================================================
def rule_G6(prog, fixture=False):
    res = RuleResult("G6", "a raw pointer offset or raw copy length computed as a difference a - b, where a and b are taken from "
                           "different objects (a parameter and object state, or two parameters), is dominated by a live comparison "
                           "of a and b: the difference can be negative, and memcpy/pointer arithmetic do not check")
    n_sites = 0
    for f in sorted(prog.functions.values(), key=lambda f: (f.file, f.line, f.name)):
        if f.get("implicit") or f.file.endswith("coverage.cc"):
            continue
        ctx = None
        idx = 0
        for x in f.walk():
            if not (x.k == "BinaryOperator" and x.op == "-" and x.tc == "int" and len(x.c) == 2):
                continue
            par = _strip_up(x)
            # look through one level of integer scaling ( (a - b) * sizeof(T) )
            use = None
            node_for_guard = x
            if par is not None and par.k == "BinaryOperator" and par.op in ("+", "-") and par.tc == "ptr":
                use = "pointer offset"
            elif par is not None and par.k == "BinaryOperator" and par.op == "*":
                gp = _strip_up(par)
                if gp is not None and gp.is_call() and gp.callee and gp.callee.get("qn") in RAW_COPY:
                    use = "copy length"
            elif par is not None and par.is_call() and par.callee and par.callee.get("qn") in RAW_COPY:
                use = "copy length"
            if use is None:
                continue
            if ctx is None:
                ctx = GuardCtx(prog, f, group_params=False)
            idx += 1
            n_sites += 1
            key = "G6:%s:diff%d" % (fkey(f), idx)
            where = "%s:%d" % (prog.rel(f.file), x.line)
            what = "%s used as %s in %s" % (x.text(), use, f.short)
            oa = ctx.objs(x.c[0], ("size", "val"))
            ob = ctx.objs(x.c[1], ("size", "val"))
            if _is_constant(x.c[1]) or _is_constant(x.c[0]) or not oa or not ob:
                res.add(key, DISCHARGED, where, what, "difference with a constant / literal operand", func=f.name)
                continue
            if oa <= ob or ob <= oa:
                res.add(key, DISCHARGED, where, what, "both operands are taken from the same object(s) %s" % sorted("/".join(o) for o in (oa | ob)), func=f.name)
                continue
            # need a live comparison whose two sides cover the two operand groups
            guard = None
            for fact in f.facts_at(x):
                if fact.belief:
                    continue
                for (c, p) in atoms_of(fact.cond, fact.pol):
                    cmp_ = as_comparison(c)
                    if cmp_ is None:
                        continue
                    l, op, r = cmp_
                    ol, orr = ctx.objs(l, ("size", "val")), ctx.objs(r, ("size", "val"))
                    if (ol & oa and orr & ob) or (ol & ob and orr & oa):
                        guard = c
            if guard is not None:
                res.add(key, DISCHARGED, where, what, "dominated by the live comparison %s" % guard.text(), func=f.name)
            else:
                res.add(key, VIOLATED, where, what,
                        "the operands come from different objects (%s vs %s) and no live comparison of them dominates the use: "
                        "when the first is smaller the %s is negative and memory before the buffer is touched"
                        % (sorted("/".join(o) for o in oa), sorted("/".join(o) for o in ob), use), func=f.name)
    res.stats["raw_difference_sites"] = n_sites
    return res


# =================================================================================================
N3_FILES = re.compile(r"lib/corr\.cpp$")


def rule_N3(prog, fixture=False):
    res = RuleResult("N3", "in the correlation kernels no product of two non-constant 32-bit integers (sample counts, ranks) is "
                           "formed in integer arithmetic and then converted to floating point: n*n overflows at 46341 samples, "
                           "n*n*n at 1291")
    n_sites = 0
    for f in sorted(prog.functions.values(), key=lambda f: (f.file, f.line, f.name)):
        if f.get("implicit") or not (N3_FILES.search(prog.rel(f.file)) or fixture):
            continue
        idx = 0
        for x in f.walk():
            if not (x.k == "BinaryOperator" and x.op == "*" and x.tc == "int" and len(x.c) == 2):
                continue
            idx += 1
            n_sites += 1
            key = "N3:%s:mul%d" % (fkey(f), idx)
            where = "%s:%d" % (prog.rel(f.file), x.line)
            what = "%s in %s" % (x.text(), f.short)
            if _is_constant(x.c[0]) or _is_constant(x.c[1]) or (x.get("w") or 0) > 32:
                res.add(key, DISCHARGED, where, what, "constant factor or 64-bit arithmetic", func=f.name)
                continue
            par = x.parent
            hit = None
            while par is not None:
                if par.k == "ImplicitCastExpr" and par.get("ck") == "IntegralToFloating":
                    hit = par
                    break
                if par.k == "ImplicitCastExpr" and par.get("ck") in ("IntegralCast", "NoOp", "LValueToRValue"):
                    par = par.parent
                    continue
                if par.k == "BinaryOperator" and par.op in ("+", "-", "*") and _is_int(par):
                    par = par.parent
                    continue
                if par.k == "UnaryOperator" and par.op in ("-", "+"):
                    par = par.parent
                    continue
                if par.k in ("CXXStaticCastExpr", "CXXFunctionalCastExpr", "CStyleCastExpr") and par.tc == "float":
                    hit = par
                    break
                break
            if hit is not None:
                res.add(key, VIOLATED, where, what,
                        "the product is computed in %s and only then converted to floating point (%s): it wraps for realistic "
                        "sample counts" % (x.type, hit.parent.text() if hit.parent is not None else hit.text()), func=f.name)
            else:
                res.add(key, DISCHARGED, where, what, "integer product stays in integer context", func=f.name)
    res.stats["integer_products"] = n_sites
    return res


# =================================================================================================
N2S_FUNCS = re.compile(r"^dsplib::(nextpow2|ispow2|isprime|factor|nextprime|primes)$")


def rule_N2s(prog, fixture=False):
    res = RuleResult("N2s", "in nextpow2/ispow2 and the prime helpers a loop condition does not contain a left shift of a 32-bit "
                            "signed value by a loop-varying count: for arguments above 2^30 the shift reaches bit 31 (undefined, "
                            "and the loop cannot terminate)")
    funcs = [f for f in prog.functions.values() if N2S_FUNCS.match(f.qn)]
    if not funcs and not fixture:
        res.broken.append("anchor vanished: nextpow2/ispow2 not found")
        return res
    for f in sorted(funcs, key=lambda f: (f.file, f.line)):
        idx = 0
        shifts = [x for x in f.walk() if x.k == "BinaryOperator" and x.op == "<<" and len(x.c) == 2 and x.tc == "int"]
        key0 = "N2s:" + fkey(f)
        where = "%s:%d" % (prog.rel(f.file), f.line)
        if not shifts:
            res.add(key0, DISCHARGED, where, f.short, "no left shift", func=f.name)
            continue
        for x in shifts:
            idx += 1
            key = "%s:shl%d" % (key0, idx)
            wx = "%s:%d" % (prog.rel(f.file), x.line)
            what = "%s in %s" % (x.text(), f.short)
            wide = (x.get("w") or 32) > 32
            loop = None
            in_cond = False
            for a in x.ancestors():
                if a.k in ("WhileStmt", "ForStmt", "DoStmt"):
                    c = a.role("cond")
                    if c is not None and any(y.id == x.id for y in c.walk()):
                        loop, in_cond = a, True
                    break
            count_const = _is_constant(x.c[1])
            if wide or count_const or not in_cond:
                res.add(key, DISCHARGED, wx, what, "64-bit shift" if wide else ("constant count" if count_const else "not part of a loop condition: the count is bounded by the loop that computed it"), func=f.name)
                continue
            # is the count modified in the loop?
            cnt_ids = {y.decl["id"] for y in x.c[1].walk() if y.k == "DeclRefExpr" and y.decl and y.decl.get("k") in ("local", "parm")}
            varying = False
            for y in loop.walk():
                if y.k in ("UnaryOperator",) and y.op in ("++", "--") and y.c:
                    t = y.c[0].strip_all()
                    if t.k == "DeclRefExpr" and t.decl.get("id") in cnt_ids:
                        varying = True
                if y.k in ("BinaryOperator", "CompoundAssignOperator") and y.op and y.op.endswith("=") and y.op not in ("==", "!=", "<=", ">=") and y.c:
                    t = y.c[0].strip_all()
                    if t.k == "DeclRefExpr" and t.decl.get("id") in cnt_ids:
                        varying = True
            # a bound on the count in the same condition (p < 31 && ...) discharges
            bounded = False
            c = loop.role("cond")
            for y in c.walk():
                cmp_ = as_comparison(y)
                if cmp_ is not None:
                    l, op, r = cmp_
                    if l.strip_all().k == "DeclRefExpr" and l.strip_all().decl.get("id") in cnt_ids and _is_constant(r) and op in ("<", "<="):
                        bounded = True
            if varying and not bounded:
                res.add(key, VIOLATED, wx, what,
                        "the loop exits only when the shifted value reaches the argument; for arguments above 2^30 that needs a "
                        "shift into the sign bit of %s" % x.type, func=f.name)
            else:
                res.add(key, DISCHARGED, wx, what, "count is loop-invariant or bounded in the condition", func=f.name)
    return res


# =================================================================================================
V1_FILES = re.compile(r"include/dsplib/(delay|hilbert|tuner)\.h$|lib/hilbert\.cpp$")
VIEW_TYPE = re.compile(r"dsplib::(const_)?slice_t<")


def rule_V1(prog, fixture=False):
    res = RuleResult("V1", "a local slice view is not read after the array it denotes has been written: slices are lazy views and "
                           "materialise their elements only when they are converted or assigned")
    n_views = 0
    for f in sorted(prog.functions.values(), key=lambda f: (f.file, f.line, f.name)):
        rel = prog.rel(f.file)
        if f.get("implicit") or not (V1_FILES.search(rel) or fixture):
            continue
        flow = None
        for v in f.walk():
            if not (v.k == "VarDecl" and v.decl and v.decl.get("k") == "local" and VIEW_TYPE.search(v.type or "") and v.c):
                continue
            if flow is None:
                flow = Flow(f, prog)
                f.blocks
            n_views += 1
            roots = {r for r in flow.roots.get(v.decl["id"], set()) if r[0] in ("this", "parm", "local", "global")}
            key = "V1:%s:%s" % (fkey(f), v.decl["n"])
            where = "%s:%d" % (rel, v.line)
            what = "view '%s' in %s" % (v.decl["n"], f.short)
            if not roots:
                res.add(key, UNMODELLED, where, what, "the viewed array could not be identified", func=f.name, extra={"props": ["C14"]})
                continue
            uses = [u for u in f.walk() if u.k == "DeclRefExpr" and u.decl and u.decl.get("id") == v.decl["id"]]
            writes = []
            for n in f.walk():
                lhs = None
                if n.k in ("BinaryOperator", "CompoundAssignOperator") and n.op and n.op.endswith("=") and n.op not in ("==", "!=", "<=", ">=") and n.c:
                    lhs = n.c[0]
                elif n.k == "CXXOperatorCallExpr" and n.op and n.op.endswith("=") and n.op not in ("==", "!=", "<=", ">=") and len(n.c) > 1:
                    lhs = n.c[1]
                elif n.is_call() and n.callee and n.callee.get("qn") in ("memcpy", "memmove", "std::memcpy", "std::memmove", "std::copy", "std::fill") and n.call_args():
                    lhs = n.call_args()[0] if n.callee.get("qn") not in ("std::copy",) else n.call_args()[-1]
                if lhs is None:
                    continue
                lr = {r for r in flow.root(lhs) if r[0] in ("this", "parm", "local", "global")}
                # writing the view variable itself is not a write of the array
                l0 = lhs.strip_all()
                if l0.k == "DeclRefExpr" and l0.decl and l0.decl.get("id") == v.decl["id"]:
                    continue
                if lr & roots:
                    writes.append(n)
            bad = None
            vl = f.block_of(v)
            for w in writes:
                wl = f.block_of(w)
                if wl is None or vl is None:
                    continue
                # the write happens after the view was taken ...
                after_init = (wl[0] == vl[0] and wl[1] > vl[1]) or (wl[0] != vl[0] and wl[0] in f.reachable(vl[0]))
                if not after_init:
                    continue
                reach = set()
                for s_ in f.blocks[wl[0]].succs:
                    if s_ is not None:
                        reach |= f.reachable(s_)
                for u in uses:
                    ul = f.block_of(u)
                    if ul is None:
                        continue
                    # ... and the view is read after the write (the write statement's own operands are evaluated before it)
                    if (ul[0] == wl[0] and ul[1] > wl[1]) or (ul[0] != wl[0] and ul[0] in reach):
                        bad = (w, u)
                        break
                if bad:
                    break
            if bad:
                w, u = bad
                res.add(key, VIOLATED, "%s:%d" % (rel, u.line), what,
                        "the view of %s taken at line %d is read at line %d after %s (line %d) modified that array: it yields "
                        "the new contents, not the ones it was taken from" % (sorted("/".join(r) for r in roots), v.line, u.line, w.text(), w.line),
                        func=f.name, extra={"props": ["C14"]})
            else:
                res.add(key, DISCHARGED, where, what, "no write of the viewed array between taking the view and its last read",
                        func=f.name, extra={"props": ["C14"]})
    res.stats["slice_view_locals"] = n_views
    return res
