"""G3 SLICE-ASSIGN-GUARD, G3b ALIAS-COPY, G4 SLICE-COPY-AGREE, G5 SLICE-RANGE-GUARD  (C04, C05)"""
import re

from .core import RuleResult, DISCHARGED, VIOLATED, UNMODELLED, INHERITS
from .guards import GuardCtx, as_comparison, NEG, FLIP
from .ir import atoms_of
from .rules_state import fkey

THIS = ("this",)
FORWARD_COPY = {"memcpy", "std::memcpy", "std::copy", "std::copy_n", "std::uninitialized_copy", "std::copy_if"}
ANY_COPY = FORWARD_COPY | {"memmove", "std::memmove", "std::copy_backward", "std::move", "std::move_backward"}
SLICE_CLASS = re.compile(r"^dsplib::slice_t<")
ANY_SLICE_CLASS = re.compile(r"^dsplib::(const_)?slice_t<")


def _short(qn):
    return (qn or "").rsplit("::", 1)[-1]


def _param_kind(p):
    t = p.get("t", "")
    if "slice_t<" in t:
        return "slice"
    if "base_array<" in t:
        return "array"
    if "initializer_list<" in t:
        return "list"
    if "std::vector<" in t:
        return "vector"
    return "scalar"


# =================================================================================================
def rule_G3(prog, fixture=False):
    res = RuleResult("G3", "every slice_t::operator= whose source can hold more than one element passes, on every path to a "
                           "write through the slice, a live throwing guard relating the slice's element count to the source's – "
                           "or delegates to an overload that does")
    ops = sorted([f for f in prog.functions.values() if f.cls and SLICE_CLASS.match(f.cls) and _short(f.qn) == "operator="
                  and not f.get("implicit")], key=lambda f: (f.cls, f.line))
    if not ops:
        res.broken.append("anchor vanished: no slice_t<T>::operator= found")
        return res
    memo = {}

    def analyse(f):
        if f.usr in memo:
            return memo[f.usr] or {"bad": [], "inherits": [], "guard": None, "sinks": 0}
        memo[f.usr] = None
        src = f.params[0] if f.params else None
        kind = _param_kind(src) if src else "scalar"
        ctx = GuardCtx(prog, f, group_params=False)
        bad, inherits = [], []
        guard = None
        sinks = 0
        if kind == "scalar":
            r = {"bad": [], "inherits": [], "guard": None, "sinks": 0, "scalar": True}
            memo[f.usr] = r
            return r
        sobj = ("parm", src["n"])
        for n in f.walk():
            if not (n.is_call() and n.callee):
                continue
            ce = n.callee
            qn = ce.get("qn", "")
            # delegation to another assignment overload of the slice
            if _short(qn) == "operator=" and SLICE_CLASS.match(ce.get("cls", "")):
                obj = n.call_object()
                if obj is not None and any(r[0] == "this" for r in ctx.flow.root(obj)):
                    tgt = prog.functions.get(ce["usr"])
                    if tgt is not None and tgt.usr != f.usr:
                        sub = analyse(tgt)
                        if sub["bad"] or sub["inherits"]:
                            inherits.append(tgt)
                        sinks += 1
                        continue
            writes_this = False
            if (ce.get("cls") == f.cls and not ce.get("const") and not ce.get("static") and n.k == "CXXMemberCallExpr"
                    and _short(qn) not in ("begin", "end", "size", "stride", "operator=")):
                obj = n.call_object()
                if obj is not None and any(r[0] == "this" for r in ctx.flow.root(obj)):
                    writes_this = True       # a private helper that performs the copy
            if qn in ANY_COPY or qn in ("std::fill", "std::fill_n", "memset", "std::memset"):
                for a in n.call_args():
                    if any(r[0] == "this" for r in ctx.flow.root(a)):
                        writes_this = True
            if not writes_this:
                continue
            sinks += 1
            g = ctx.relating_guard_at(n, THIS, sobj, need_throw=True, big="both")
            if g is not None:
                guard = g
            else:
                bad.append((n.line, n.text(), "write through the slice is not dominated by a live throwing guard relating "
                            "this->size() to the element count of '%s'" % src["n"]))
        # element-wise writes through this-rooted iterators / pointers
        for n in f.walk():
            if n.k in ("BinaryOperator", "CompoundAssignOperator") and n.op and n.op.endswith("=") and n.op not in ("==", "!=", "<=", ">=") and len(n.c) == 2:
                lhs = n.c[0].strip_all()
                if lhs.k in ("UnaryOperator", "ArraySubscriptExpr", "CXXOperatorCallExpr") and any(r[0] == "this" for r in ctx.flow.root(lhs)):
                    if lhs.k == "UnaryOperator" and lhs.c and lhs.c[0].strip_all().k == "CXXThisExpr":
                        continue      # (*this = ...) is a delegation, handled above
                    sinks += 1
                    g = ctx.relating_guard_at(n, THIS, sobj, need_throw=True, big="both")
                    if g is not None:
                        guard = g
                    else:
                        bad.append((n.line, n.text(), "element write through the slice without a live count guard"))
        r = {"bad": bad, "inherits": inherits, "guard": guard, "sinks": sinks}
        memo[f.usr] = r
        return r

    for f in ops:
        r = analyse(f)
        src = f.params[0] if f.params else {"t": "?", "n": "?"}
        key = "G3:" + fkey(f)
        where = "%s:%d" % (prog.rel(f.file), f.line)
        what = "%s(%s)" % (f.short, src.get("t", "").replace("dsplib::", ""))
        extra = {"props": ["C04", "C05"]}
        if r.get("scalar"):
            res.add(key, DISCHARGED, where, what, "scalar source: the extent written is the slice's own", func=f.name, extra=extra)
        elif r["bad"]:
            l, t, w = r["bad"][0]
            res.add(key, VIOLATED, "%s:%d" % (prog.rel(f.file), l), what, "%s: %s" % (t, w), func=f.name, extra=extra)
        elif r["inherits"]:
            res.add(key, INHERITS, where, what, "delegates to unguarded %s" % ", ".join(t.short for t in r["inherits"]), func=f.name, extra=extra)
        elif r["sinks"] == 0:
            res.add(key, UNMODELLED, where, what, "no recognised write or delegation in the body", func=f.name, extra=extra)
        elif r["guard"] is not None:
            res.add(key, DISCHARGED, where, what, "count guard %s dominates %d write site(s)" % (r["guard"].cond.text(), r["sinks"]),
                    func=f.name, extra=extra)
        else:
            res.add(key, DISCHARGED, where, what, "delegates to a guarded overload", func=f.name, extra=extra)
    # a brace list needs its own overload: without one, {v} (one element of the element type) is an identity conversion to
    # `const T&` and selects the scalar fill - a list shorter than the slice is then broadcast instead of rejected
    by_cls = {}
    for f in ops:
        by_cls.setdefault(f.cls, []).append(f)
    for cls, fs in sorted(by_cls.items()):
        if not cls.startswith("dsplib::slice_t<"):
            continue
        kinds = {(_param_kind(f.params[0]) if f.params else "scalar") for f in fs}
        has_list = any("initializer_list" in ((f.params[0].get("t") or "") if f.params else "") for f in fs)
        key = "G3:%s:list-overload" % cls
        where = "%s:%d" % (prog.rel(fs[0].file), fs[0].line)
        if "scalar" in kinds and not has_list:
            res.add(key, VIOLATED, where, "%s::operator= for brace lists" % cls.replace("dsplib::", ""),
                    "there is a scalar fill operator=(const T&) but no operator=(const std::initializer_list<T>&): `s = {v}` binds to "
                    "the scalar overload (identity conversion beats the user-defined conversion to an array) and fills the whole slice; "
                    "`s = {}` fills it with T{} - neither is count-checked")
        else:
            res.add(key, DISCHARGED, where, "%s::operator= for brace lists" % cls.replace("dsplib::", ""),
                    "a dedicated initializer_list overload exists (count-guarded above)" if has_list else "no scalar overload to be confused with")
    res.stats["assignment_overloads"] = len(ops)
    return res


# =================================================================================================
def _alias_verdict(ctx, cond, pol, sobj, depth=0):
    """'different' / 'same' / None: what (cond == pol) says about whether this slice and the source share a base"""
    c = cond.strip()
    if c.k == "UnaryOperator" and c.op == "!" and c.c:
        return _alias_verdict(ctx, c.c[0], not pol, sobj, depth)
    if c.k == "DeclRefExpr" and c.decl and c.decl.get("k") == "local" and depth < 3:
        defs = [v for v in ctx.fn.walk() if v.k == "VarDecl" and v.decl["id"] == c.decl["id"] and v.c]
        if len(defs) == 1:
            return _alias_verdict(ctx, defs[0].c[0], pol, sobj, depth + 1)
        return None
    c1 = c.strip_all()
    if c1.k == "CXXMemberCallExpr" and c1.callee and c1.callee.get("repo") and depth < 3 and ctx.prog is not None:
        # a predicate of the slice over the source: _shares_storage(rhs) { return _base.data() == rhs._base.data(); }
        obj = c1.call_object()
        g = ctx.prog.functions.get(c1.callee.get("usr"))
        if g is not None and (obj is None or obj.strip_all().k == "CXXThisExpr"):
            rets = [x for x in g.walk() if x.k == "ReturnStmt" and x.c]
            args = c1.call_args()
            gso = None
            for i, prm in enumerate(g.params):
                if i < len(args) and any(r == sobj for r in ctx.flow.root(args[i])):
                    gso = ("parm", prm["n"])
            if len(rets) == 1 and gso is not None:
                gctx = GuardCtx(ctx.prog, g, group_params=False)
                vs = {_alias_verdict(gctx, a, p2, gso, depth + 1) for (a, p2) in atoms_of(rets[0].c[0], pol)}
                vs.discard(None)
                return vs.pop() if len(vs) == 1 else None
        return None
    cmp_ = as_comparison(c)
    if cmp_ is None:
        return None
    lhs, op, rhs = cmp_
    if op not in ("==", "!="):
        return None
    if not (lhs.strip().tc == "ptr" and rhs.strip().tc == "ptr"):
        return None
    rl = {r for r in ctx.flow.root(lhs)}
    rr = {r for r in ctx.flow.root(rhs)}

    def is_this(rs):
        return any(r[0] == "this" for r in rs)

    def is_src(rs):
        return any(r == sobj for r in rs)
    if not ((is_this(rl) and is_src(rr)) or (is_this(rr) and is_src(rl))):
        return None
    equal = (op == "==") == pol
    return "same" if equal else "different"


def rule_G3b(prog, fixture=False):
    res = RuleResult("G3b", "in slice_t's assignment code every forward copy primitive (memcpy, std::copy, std::copy_n) from storage "
                            "reached through a parameter into the slice's own storage is dominated by a branch outcome establishing "
                            "that the two bases are different objects (directly, or through a flag parameter whose value every caller "
                            "computes that way); on the same-base side only memmove or a materialised copy is reached")
    methods = sorted([f for f in prog.functions.values() if f.cls and SLICE_CLASS.match(f.cls) and f.kind == "method" and not f.get("implicit")],
                     key=lambda f: (f.cls, f.line))
    anchor = [f for f in methods if _short(f.qn) == "operator=" and f.params and "const_slice_t<" in f.params[0].get("t", "")]
    if not anchor:
        res.broken.append("anchor vanished: no slice_t<T>::operator=(const const_slice_t<T>&) found")
        return res
    n_sites = 0
    for f in methods:
        ctx = GuardCtx(prog, f, group_params=False)
        src_params = [p for p in f.params if "slice_t<" in p.get("t", "") or p.get("tc") == "ptr"]
        if not src_params:
            continue
        idx = 0
        for n in f.walk():
            if not (n.is_call() and n.callee):
                continue
            qn = n.callee.get("qn", "")
            if qn not in ANY_COPY:
                continue
            args = n.call_args()
            touches_this = any(any(r[0] == "this" for r in ctx.flow.root(a)) for a in args)
            srcs = [("parm", p["n"]) for p in src_params if any(("parm", p["n"]) in ctx.flow.root(a) for a in args)]
            if not (touches_this and srcs):
                continue
            sobj = srcs[0]
            idx += 1
            n_sites += 1
            key = "G3b:%s:%s%d" % (fkey(f), _short(qn), idx)
            where = "%s:%d" % (prog.rel(f.file), n.line)
            what = "%s in %s" % (n.text(), f.short)
            extra = {"props": ["C04"]}
            if qn not in FORWARD_COPY:
                res.add(key, DISCHARGED, where, what, "overlap-safe primitive", func=f.name, extra=extra)
                continue
            verdicts = []
            for fact in f.facts_at(n):
                if fact.belief:
                    continue
                for (c, p) in atoms_of(fact.cond, fact.pol):
                    v = _alias_verdict(ctx, c, p, sobj)
                    if v is None:
                        v = _alias_verdict_via_callers(prog, f, c, p)
                    if v:
                        verdicts.append((v, c.text()))
            if not verdicts and _short(f.qn) != "operator=":
                # a private helper for the "other array" case: every call of it is reached only when the bases differ
                cv = _alias_fact_at_every_call(prog, f)
                if cv:
                    verdicts.append((cv[0], "at the call in %s: %s" % (cv[1], cv[2])))
            if any(v == "different" for (v, _) in verdicts):
                res.add(key, DISCHARGED, where, what, "reached only when the bases differ (%s)" % [t for (v, t) in verdicts if v == "different"][0],
                        func=f.name, extra=extra)
            elif any(v == "same" for (v, _) in verdicts):
                res.add(key, VIOLATED, where, what, "forward copy primitive is reached when source and destination are the same "
                        "array: overlapping ranges are not copied 'as if the source had been copied first'", func=f.name, extra=extra)
            else:
                res.add(key, VIOLATED, where, what, "forward copy primitive between two slices is not dominated by a test that "
                        "their bases are different objects", func=f.name, extra=extra)
    res.stats["functions"] = len(methods)
    res.stats["copy_sites"] = n_sites
    return res


def rule_G3d(prog, fixture=False):
    res = RuleResult("G3d", "in a slice assignment from another slice, wherever the two may view the same storage, no element of the "
                            "source is read after an element of the destination has been written (one overlap-safe primitive, or "
                            "the source materialised first): 'as if the source had been copied before the first write'")
    methods = sorted([f for f in prog.functions.values() if f.cls and SLICE_CLASS.match(f.cls) and f.kind == "method" and not f.get("implicit")
                      and f.body() is not None and f.params and "slice_t<" in f.params[0].get("t", "")],
                     key=lambda f: (f.cls, f.line))
    if not [f for f in methods if _short(f.qn) == "operator="] and not fixture:
        res.broken.append("anchor vanished: no slice_t<T>::operator=(const [const_]slice_t<T>&) found")
        return res
    n = 0
    for f in methods:
        ctx = GuardCtx(prog, f, group_params=False)
        f.blocks
        sobj = ("parm", f.params[0]["n"])
        # a private helper of the assignment that is only ever called where the arrays are known to differ
        helper_different = False
        if _short(f.qn) != "operator=":
            cv = _alias_fact_at_every_call(prog, f)
            helper_different = bool(cv) and cv[0] == "different"
        writes = [w for w in _element_writes(f, ctx) if not (w.k == "CXXOperatorCallExpr" and w.op == "=" and len(w.c) == 3
                                                             and w.c[1].strip_all().k == "UnaryOperator")]   # `*this = x` is one whole assignment
        reads = []
        for x in f.walk():
            if x.k == "UnaryOperator" and x.op == "*" and x.c and any(r == sobj for r in ctx.flow.root(x.c[0])):
                par = x.parent
                if par is not None and par.k in ("BinaryOperator", "CXXOperatorCallExpr") and par.op == "=" and par.c and par.c[0].id == x.id:
                    continue
                reads.append(x)
            elif x.k == "ArraySubscriptExpr" and x.c and any(r == sobj for r in ctx.flow.root(x.c[0])):
                reads.append(x)
            elif x.k == "CXXOperatorCallExpr" and x.op in ("*", "[]") and len(x.c) >= 2 and any(r == sobj for r in ctx.flow.root(x.c[1])):
                reads.append(x)
        key = "G3d:%s" % fkey(f)
        where = "%s:%d" % (prog.rel(f.file), f.line)
        what = "%s reads the source before it writes" % f.short
        extra = {"props": ["C04"]}
        n += 1
        bad = None
        for w in writes:
            wl = f.block_of(w)
            if wl is None:
                continue
            after = f.reachable_from_succs(wl[0])
            for r in reads:
                rl = f.block_of(r)
                if rl is None or any(a.id == w.id for a in r.ancestors()):
                    continue          # the read is the right-hand side of this very write
                later = (rl[0] == wl[0] and rl[1] > wl[1]) or (rl[0] in after)
                if not later:
                    continue
                different = helper_different
                for fact in f.facts_at(r):
                    if fact.belief:
                        continue
                    for (c, p) in atoms_of(fact.cond, fact.pol):
                        if _alias_verdict(ctx, c, p, sobj) == "different":
                            different = True
                if not different:
                    bad = (w, r)
                    break
            if bad:
                break
        if bad:
            w, r = bad
            res.add(key, VIOLATED, "%s:%d" % (prog.rel(f.file), r.line), what,
                    "`%s` (line %d) reads an element of the source on a path on which `%s` (line %d) has already written into the "
                    "destination, and nothing there says the two slices view different arrays: with overlapping slices of one array "
                    "later elements are read after they were overwritten" % (r.text()[:40], r.line, w.text()[:50], w.line),
                    func=f.name, extra=extra)
        else:
            res.add(key, DISCHARGED, where, what, "%d element read(s) of the source, %d element write(s): no read can follow a write where the "
                    "storage may be shared" % (len(reads), len(writes)), func=f.name, extra=extra)
    res.stats["assignments"] = n
    return res


def rule_G5b(prog, fixture=False):
    res = RuleResult("G5b", "base_array::slice(...) hands its index arguments to the checking slice constructor as they are (the parameter, "
                            "size() for the `end` placeholder, a literal): the range check of base_slice_t speaks about the caller's values, "
                            "so an index that was resolved, clamped or shifted on the way is checked as a different index")
    from .ir import _single_def
    n = 0
    for f in sorted(prog.functions.values(), key=lambda f: (f.file, f.line, f.name)):
        if f.get("implicit") or f.kind != "method" or not (f.cls or "").startswith("dsplib::base_array<") or _short(f.qn) != "slice":
            continue
        ints = [q for q in f.params if q.get("tc") == "int"]
        if not ints:
            continue
        ctors = [x for x in f.walk() if x.k in ("CXXConstructExpr", "CXXTemporaryObjectExpr", "CXXFunctionalCastExpr")
                 and ANY_SLICE_CLASS.match(((x.callee or {}).get("cls") or "")) and len([a for a in x.c]) >= 3]
        key = "G5b:%s%s" % (fkey(f), ":const" if f.get("const") else "")
        where = "%s:%d" % (prog.rel(f.file), f.line)
        what = "%s%s forwards its indices" % (f.short, " const" if f.get("const") else "")
        extra = {"props": ["C04", "C05"]}
        n += 1
        if not ctors:
            # delegation to another slice(...) overload of the same class: every index parameter is handed on as it is - one that is
            # left out is silently replaced by the callee's default (the step of the const `end` overload)
            dels = [x for x in f.walk() if x.k == "CXXMemberCallExpr" and x.callee and _short(x.callee.get("qn")) == "slice"
                    and (x.call_object() is None or x.call_object().strip_all().k == "CXXThisExpr")]
            if not dels:
                res.add(key, UNMODELLED, where, what, "no direct construction of a slice from the parameters found", func=f.name, extra=extra)
                continue
            miss = None
            for c in dels:
                args = [a for a in c.call_args() if a.k != "CXXDefaultArgExpr"]
                names = set()
                for a in args:
                    a0 = a.strip_all()
                    if a0.k == "DeclRefExpr" and a0.decl and a0.decl.get("k") == "parm":
                        names.add(a0.decl["n"])
                for q in ints:
                    if q.get("n") and q["n"] not in names and miss is None:
                        miss = (c, q["n"])
            if miss:
                c, pn = miss
                res.add(key, VIOLATED, "%s:%d" % (prog.rel(f.file), c.line), what,
                        "`%s` delegates without handing on the parameter `%s`: the callee's default takes its place, so the slice denotes "
                        "other elements than the caller named (and a value the constructor would reject is never seen by it)"
                        % (c.text()[:60], pn), func=f.name, extra=extra)
            else:
                res.add(key, DISCHARGED, where, what, "delegates to another overload with every index parameter handed on", func=f.name, extra=extra)
            continue

        def plain(e, depth=0):
            e = e.strip_all()
            while e.k in ("CXXStaticCastExpr", "CStyleCastExpr", "CXXFunctionalCastExpr", "ImplicitCastExpr") and len(e.c) == 1 and e.tc == "int":
                e = e.c[0].strip_all()
            if e.k == "DeclRefExpr" and e.decl and e.decl.get("k") == "parm":
                return True
            if e.k == "IntegerLiteral" or (e.k == "UnaryOperator" and e.op == "-" and e.c and e.c[0].strip_all().k == "IntegerLiteral"):
                return True
            if e.k == "CXXMemberCallExpr" and _short((e.callee or {}).get("qn")) == "size" and not e.call_args():
                return True
            if e.k == "DeclRefExpr" and e.decl and e.decl.get("k") == "local" and depth < 2:
                d = _single_def(e)
                return d is not None and plain(d, depth + 1)
            return False
        bad = None
        for c in ctors:
            args = [a for a in c.c if a.k != "CXXDefaultArgExpr"]
            for a in args[1:3]:
                if a.strip().tc == "int" and not plain(a):
                    bad = (c, a)
                    break
            if bad:
                break
        if bad:
            c, a = bad
            res.add(key, VIOLATED, "%s:%d" % (prog.rel(f.file), c.line), what,
                    "`%s` is passed where the caller's index belongs: the slice constructor resolves and range-checks *that* value, so an "
                    "index outside [-n, n] can come out in range (or an in-range one out of it) and the slice denotes other elements than "
                    "the caller named" % a.text()[:60], func=f.name, extra=extra)
        else:
            res.add(key, DISCHARGED, where, what, "the constructor receives the parameters themselves (%d construction(s))" % len(ctors), func=f.name, extra=extra)
    res.stats["slice_overloads"] = n
    if not n and not fixture:
        res.broken.append("anchor vanished: no base_array<T>::slice(int, ...) overload found")
    return res


def rule_G3c(prog, fixture=False):
    res = RuleResult("G3c", "every normal return of a slice assignment operator lies behind a copy into the slice (a copy primitive, an "
                            "element write, a delegation to another assignment) - or is reached only when there is nothing to copy: the "
                            "slice is empty, or source and destination are the same elements (same storage, same start, same step)")
    global _SIZEISH_PROG
    _SIZEISH_PROG = prog
    methods = sorted([f for f in prog.functions.values() if f.cls and SLICE_CLASS.match(f.cls) and f.kind == "method" and not f.get("implicit")
                      and _short(f.qn) == "operator=" and f.body() is not None], key=lambda f: (f.cls, f.line))
    if not methods and not fixture:
        res.broken.append("anchor vanished: no slice_t<T>::operator= found")
        return res
    n = 0
    def copy_effects(g, depth=0):
        gctx = GuardCtx(prog, g, group_params=False)
        out = []
        for x in g.walk():
            if x.is_call() and x.callee and x.callee.get("qn", "") in (ANY_COPY | {"std::fill", "std::fill_n", "std::generate", "std::transform"}):
                if any(any(r[0] == "this" for r in gctx.flow.root(a)) or _mentions_this(a, 0) for a in x.call_args()):
                    out.append(x)
            elif x.k == "CXXMemberCallExpr" and x.callee and x.callee.get("cls") == g.cls and depth < 2 and not x.callee.get("const"):
                o = x.call_object()
                if o is None or o.strip_all().k == "CXXThisExpr":
                    h = prog.functions.get(x.callee.get("usr"))
                    if _short(x.callee.get("qn")) == "operator=" and x.callee.get("usr") != g.usr:
                        out.append(x)     # this->operator=(src): delegation to another assignment
                    elif h is not None and h.usr != g.usr and _short(h.qn) != "operator=" and copy_effects(h, depth + 1):
                        out.append(x)     # a private helper that does the copying
        return out + _element_writes(g, gctx)

    for f in methods:
        ctx = GuardCtx(prog, f, group_params=False)
        f.blocks
        effects = copy_effects(f)
        eff_pos = {}
        for e in effects:
            loc = f.block_of(e)
            if loc:
                eff_pos.setdefault(loc[0], []).append(loc[1])
            # a copy written as a loop: passing the loop is passing the copy (how often it runs is the count's business)
            for a in e.ancestors():
                if a.k in ("ForStmt", "WhileStmt", "DoStmt", "CXXForRangeStmt"):
                    c = a.role("cond")
                    cl = f.block_of(c) if c is not None else None
                    if cl:
                        eff_pos.setdefault(cl[0], []).append(cl[1])
        src = [("parm", q["n"]) for q in f.params if "slice_t<" in q.get("t", "")]
        rets = [r for r in f.walk() if r.k == "ReturnStmt" and not any(a.k == "LambdaExpr" for a in r.ancestors())]
        for ri, r in enumerate(rets):
            rl = f.block_of(r)
            if rl is None:
                continue
            n += 1
            key = "G3c:%s:return%d" % (fkey(f), ri + 1)
            where = "%s:%d" % (prog.rel(f.file), r.line)
            what = "return at line %d of %s" % (r.line, f.short)
            extra = {"props": ["C04"]}
            eff_ids = {e.id for e in effects}
            if any(x.id in eff_ids for x in r.walk()) or any(i < rl[1] for i in eff_pos.get(rl[0], [])):
                res.add(key, DISCHARGED, where, what, "the copy is part of / precedes the return in its block", func=f.name, extra=extra)
                continue
            removed = set(eff_pos) - {rl[0]}
            if rl[0] not in f.reachable(f.entry, removed_blocks=removed):
                res.add(key, DISCHARGED, where, what, "every path to it passes a copy into the slice", func=f.name, extra=extra)
                continue
            # every path that reaches the return without a copy must be one on which there is nothing to copy: walk the CFG without
            # the copying blocks, collecting what the branch outcomes on the way establish
            edge_atoms = {}
            for (b_, si, s_, cn, pol) in f.branch_edges():
                edge_atoms[(b_.id, si)] = _expand_atoms(prog, cn, pol, 0)
            bad_path = None
            stack = [(f.entry, frozenset(), ())]
            visited = set()
            while stack and bad_path is None:
                bid, flags, trail = stack.pop()
                if (bid, flags) in visited:
                    continue
                visited.add((bid, flags))
                if bid == rl[0]:
                    if not {"vec", "start", "step"} <= flags:
                        bad_path = (flags, trail)
                    continue
                if bid in removed:
                    continue
                for si, s_ in enumerate(f.blocks[bid].succs):
                    if s_ is None or s_ not in f.blocks:
                        continue
                    fl = set(flags)
                    exempt = False
                    tr = trail
                    for (c, pol) in edge_atoms.get((bid, si), []):
                        tr = tr + ((("" if pol else "!") + c.text()[:40]),)
                        if _says_empty(c, pol):
                            exempt = True
                        if src and _alias_verdict(GuardCtx(prog, c.fn, group_params=False) if c.fn.usr != f.usr else ctx, c, pol,
                                                  src[0] if c.fn.usr == f.usr else ("parm", "rhs")) == "same":
                            fl.add("vec")
                        if _same_member(c, pol, ("_i1",)):
                            fl.add("start")
                        if _same_member(c, pol, ("_m", "stride")):
                            fl.add("step")
                        if _same_object(c, pol):
                            fl |= {"vec", "start", "step"}
                    if not exempt:
                        stack.append((s_, frozenset(fl), tr))
            if bad_path is None:
                res.add(key, DISCHARGED, where, what, "reached without a copy only for an empty slice or when source and destination are "
                        "the same elements", func=f.name, extra=extra)
            else:
                flags, trail = bad_path
                missing = [t for (t, k_) in (("same storage", "vec"), ("same start", "start"), ("same step", "step")) if k_ not in flags]
                res.add(key, VIOLATED, where, what,
                        "this return is reached without anything having been copied into the slice, under %s: that is neither 'the slice "
                        "is empty' nor 'source and destination are the same elements' (%s not established) - the assignment is silently "
                        "skipped for some right-hand sides" % (" && ".join(trail[-5:]) or "no condition", ", ".join(missing)), func=f.name, extra=extra)
    res.stats["returns"] = n
    return res


def _element_writes(g, gctx):
    """assignments that store into the slice: `*this = ...` (delegation), element designators built from the object"""
    out = []
    for x in g.walk():
        if x.k == "CXXOperatorCallExpr" and x.op == "=" and len(x.c) == 3:
            l = x.c[1].strip_all()
            if (l.k == "UnaryOperator" and l.op == "*" and l.c and l.c[0].strip_all().k == "CXXThisExpr") or any(r[0] == "this" for r in gctx.flow.root(l)) \
                    or (l.k not in ("DeclRefExpr", "MemberExpr") and _mentions_this(l, 0)):
                out.append(x)
        elif x.k in ("BinaryOperator", "CompoundAssignOperator") and x.op and x.op.endswith("=") and x.op not in ("==", "!=", "<=", ">=") and x.c:
            l = x.c[0].strip_all()
            if l.k != "DeclRefExpr" and l.k != "MemberExpr" and (any(r[0] == "this" for r in gctx.flow.root(l)) or _mentions_this(l, 0)):
                out.append(x)
    return out


def _mentions_this(e, depth):
    """an element designator built from the object itself: begin()[k], *(_base.data() + i), *it with it = this->begin()"""
    from .ir import _single_def
    for y in e.walk():
        if y.k == "CXXThisExpr":
            return True
        if y.k == "DeclRefExpr" and y.decl and y.decl.get("k") == "local" and depth < 2:
            defs = [v for v in y.fn.walk() if v.k == "VarDecl" and v.decl and v.decl.get("id") == y.decl["id"] and v.c]
            if any(_mentions_this(d.c[0], depth + 1) for d in defs):
                return True
    return False


_SIZEISH_PROG = None


def _says_empty(c, pol):
    """(count == 0) holds / !(count != 0) / (count < 1) / empty()"""
    cmp_ = as_comparison(c)
    c0 = c.strip_all()
    if cmp_ is None:
        if c0.k == "CXXMemberCallExpr" and _short((c0.callee or {}).get("qn")) == "empty":
            return bool(pol)
        return False
    l, op, r = cmp_
    if not pol:
        op = {"==": "!=", "!=": "==", "<": ">=", "<=": ">", ">": "<=", ">=": "<"}[op]

    def lit(e):
        e = e.strip_all()
        return int(e.get("v")) if e.k == "IntegerLiteral" else None
    depth = [0]

    def sizeish(e):
        e = e.strip_all()
        if e.k == "DeclRefExpr" and e.decl and e.decl.get("k") == "local":
            from .ir import _single_def
            d = _single_def(e)
            return d is not None and sizeish(d)
        if e.k == "CXXMemberCallExpr" and _short((e.callee or {}).get("qn")) in ("size", "count"):
            return True
        if e.k == "CXXMemberCallExpr" and e.callee and e.callee.get("repo") and _SIZEISH_PROG is not None and depth[0] < 2:
            # count = _matched_count(rhs.size()): a member helper every return of which hands back the slice's own count
            g = _SIZEISH_PROG.functions.get(e.callee.get("usr"))
            o = e.call_object()
            if g is not None and (o is None or o.strip_all().k == "CXXThisExpr"):
                rets = [x for x in g.walk() if x.k == "ReturnStmt" and x.c]
                depth[0] += 1
                ok = bool(rets) and all(sizeish(x.c[0]) for x in rets)
                depth[0] -= 1
                return ok
        return e.k == "MemberExpr" and e.decl and e.decl.get("n") in ("_nc",)
    for (a, b, o) in ((l, r, op), (r, l, {"<": ">", "<=": ">=", ">": "<", ">=": "<=", "==": "==", "!=": "!="}[op])):
        v = lit(b)
        if v is not None and sizeish(a):
            if (o == "==" and v == 0) or (o == "<" and v == 1) or (o == "<=" and v == 0):
                return True
    return False


def _expand_atoms(prog, cond, pol, depth):
    """atoms of a branch outcome, with calls of single-return member predicates replaced by the atoms of what they return"""
    out = []
    for (c, p) in atoms_of(cond, pol):
        c0 = c.strip_all()
        g = None
        if c0.k == "CXXMemberCallExpr" and c0.callee and c0.callee.get("repo") and depth < 2 and c0.tc == "bool":
            obj = c0.call_object()
            if obj is None or obj.strip_all().k == "CXXThisExpr":
                g = prog.functions.get(c0.callee.get("usr"))
        if g is not None:
            rets = [x for x in g.walk() if x.k == "ReturnStmt" and x.c]
            if len(rets) == 1:
                out.append((c, p))
                out += _expand_atoms(prog, rets[0].c[0], p, depth + 1)
                continue
        out.append((c, p))
    return out


def _same_object(c, pol):
    """(this == &rhs) holds, rhs a parameter"""
    cmp_ = as_comparison(c)
    if cmp_ is None:
        return False
    l, op, r = cmp_
    if not pol:
        op = {"==": "!=", "!=": "=="}.get(op, op)
    if op != "==":
        return False

    def is_this(e):
        return e.strip_all().k == "CXXThisExpr"

    def addr_of_parm(e):
        e = e.strip_all()
        return e.k == "UnaryOperator" and e.op == "&" and e.c and e.c[0].strip_all().k == "DeclRefExpr" \
            and (e.c[0].strip_all().decl or {}).get("k") == "parm"
    return (is_this(l) and addr_of_parm(r)) or (is_this(r) and addr_of_parm(l))


def _same_member(c, pol, names):
    """this->NAME == rhs.NAME (a member or an accessor of that name on both sides) holds"""
    cmp_ = as_comparison(c)
    if cmp_ is None:
        return False
    l, op, r = cmp_
    if not pol:
        op = {"==": "!=", "!=": "=="}.get(op, op)
    if op != "==":
        return False

    def nm(e):
        e = e.strip_all()
        if e.k == "MemberExpr" and e.decl:
            return e.decl.get("n"), (not e.c or e.c[0].strip_all().k == "CXXThisExpr")
        if e.k == "CXXMemberCallExpr" and e.callee:
            o = e.call_object()
            return _short(e.callee.get("qn")), (o is None or o.strip_all().k == "CXXThisExpr")
        return None, None
    (a, athis), (b, bthis) = nm(l), nm(r)
    return a in names and b in names and athis != bthis


def _alias_fact_at_every_call(prog, f):
    """('different' | 'same', caller, condition) when every call site of the helper f lies behind a branch outcome with that
    verdict about the caller's own slice and its source parameter; else None"""
    callers = [(c, call) for (c, call) in prog.callers_of(f.usr) if not c.file.endswith("coverage.cc")]
    if not callers:
        return None
    out = set()
    why = None
    for (caller, call) in callers:
        cn = caller.nodes.get(call["node"])
        if cn is None or caller.cls != f.cls:
            return None
        cctx = GuardCtx(prog, caller, group_params=False)
        csrc = [("parm", p["n"]) for p in caller.params if "slice_t<" in p.get("t", "")]
        caller.blocks
        v = None
        for fact in caller.facts_at(cn):
            if fact.belief:
                continue
            for (c, p) in atoms_of(fact.cond, fact.pol):
                for so in csrc:
                    r = _alias_verdict(cctx, c, p, so)
                    if r:
                        v, why = r, (caller.short, c.text()[:50])
        if v is None:
            return None
        out.add(v)
    if len(out) == 1:
        return (out.pop(), why[0], why[1])
    return None


def _alias_verdict_via_callers(prog, f, cond, pol):
    """cond is a bool parameter (bool may_overlap): what do all callers pass for it?"""
    c = cond.strip_all()
    if not (c.k == "DeclRefExpr" and c.decl and c.decl.get("k") == "parm" and c.tc == "bool"):
        return None
    pidx = c.decl.get("pi")
    callers = prog.callers_of(f.usr)
    if not callers or pidx is None:
        return None
    out = set()
    for (caller, call) in callers:
        cn = caller.nodes.get(call["node"])
        if cn is None:
            return None
        args = cn.call_args()
        if pidx >= len(args):
            return None
        cctx = GuardCtx(prog, caller, group_params=False)
        csrc = [("parm", p["n"]) for p in caller.params if "slice_t<" in p.get("t", "")]
        v = None
        for so in csrc:
            for (a, p2) in atoms_of(args[pidx], pol):
                v = v or _alias_verdict(cctx, a, p2, so)
        if v is None:
            return None
        out.add(v)
    return out.pop() if len(out) == 1 else None


# =================================================================================================
def _slice_field_map(prog):
    """base_slice_t constructor: parameter name -> the field that stores (the resolved form of) it.
    Derived from dependences: the field that depends on the parameter and on the fewest other parameters
    (_n <- {n}, _m <- {m}, _i1 <- {i1, n}, _i2 <- {i2, n}; _nc depends on all four and is nobody's field)."""
    from .flow import Flow
    ctors = [f for f in prog.functions.values() if f.cls == "dsplib::base_slice_t" and f.kind == "ctor" and len(f.params) == 4]
    if not ctors:
        return None, None
    f = ctors[0]
    pnames = [p["n"] for p in f.params]
    flow = Flow(f, prog, fields_env=False)     # direct dependences only: a later _i2 = _i1 + _nc * _m must not blur the map
    fdeps = {}
    for n in f.walk():
        if n.k == "BinaryOperator" and n.op == "=" and len(n.c) == 2:
            lhs = n.c[0].strip_all()
            if lhs.k == "MemberExpr" and lhs.decl and lhs.decl.get("k") == "field":
                ps = {a[1] for a in flow.deps(n.c[1]) if a[0] == "parm" and a[1] in pnames}
                fdeps.setdefault(lhs.decl["n"], set()).update(ps)
    for ci in f.ctor_inits():
        if ci.get("member") and ci.get("written") and ci.c:
            ps = {a[1] for a in flow.deps(ci.c[0]) if a[0] == "parm" and a[1] in pnames}
            fdeps.setdefault(ci.get("member"), set()).update(ps)
    direct = {}
    for n in f.walk():
        if n.k == "BinaryOperator" and n.op == "=" and len(n.c) == 2:
            l, r = n.c[0].strip_all(), n.c[1].strip_all()
            if l.k == "MemberExpr" and l.decl and l.decl.get("k") == "field" and r.k == "DeclRefExpr" and r.decl and r.decl.get("k") == "parm":
                direct[r.decl["n"]] = l.decl["n"]
    # ... or in the member-initialiser list, possibly through a validator that returns its argument ( _m{_nonzero(m)} )
    from .ir import _through_identity_helper
    for ci in f.ctor_inits():
        if ci.get("member") and ci.get("written") and ci.c:
            e = _through_identity_helper(ci.c[0]).strip_all()
            while e.k in ("InitListExpr", "ParenExpr") and len(e.c) == 1:
                e = _through_identity_helper(e.c[0]).strip_all()
            if e.k == "DeclRefExpr" and e.decl and e.decl.get("k") == "parm" and e.decl["n"] not in direct:
                direct[e.decl["n"]] = ci.get("member")
    mp = {}
    for p in pnames:
        if p in direct:
            mp[p] = direct[p]          # stored unchanged
            continue
        cands = sorted([(len(d), fld) for fld, d in fdeps.items() if p in d and fld not in direct.values()])
        if cands and (len(cands) == 1 or cands[0][0] < cands[1][0]):
            mp[p] = cands[0][1]
    return f, mp


def _local_field_aliases(f):
    """locals that are stored unchanged into a field (const int s1 = ...; ...; _i1 = s1;) denote the field's value"""
    out = {}
    written = {}
    for n in f.walk():
        if n.k in ("BinaryOperator", "CompoundAssignOperator") and n.op and n.op.endswith("=") and n.op not in ("==", "!=", "<=", ">=") and n.c:
            l = n.c[0].strip_all()
            if l.k == "DeclRefExpr" and l.decl and l.decl.get("k") == "local":
                written[l.decl["id"]] = written.get(l.decl["id"], 0) + 1
        if n.k == "UnaryOperator" and n.op in ("++", "--") and n.c:
            l = n.c[0].strip_all()
            if l.k == "DeclRefExpr" and l.decl and l.decl.get("k") == "local":
                written[l.decl["id"]] = written.get(l.decl["id"], 0) + 1
    for n in f.walk():
        if n.k == "BinaryOperator" and n.op == "=" and len(n.c) == 2:
            l, r = n.c[0].strip_all(), n.c[1].strip_all()
            if l.k == "MemberExpr" and l.decl and l.decl.get("k") == "field" and r.k == "DeclRefExpr" and r.decl and r.decl.get("k") == "local" \
                    and not written.get(r.decl["id"]):
                out[r.decl["id"]] = "field:" + l.decl["n"]
    return out


def _accessor_field(prog, call):
    """field returned by a trivial accessor (body: return <field>;), else None"""
    ce = call.callee or {}
    g = prog.functions.get(ce.get("usr"))
    if g is None:
        return None
    rets = [n for n in g.walk() if n.k == "ReturnStmt" and n.c]
    if len(rets) != 1:
        return None
    e = rets[0].c[0].strip_all()
    if e.k == "MemberExpr" and e.decl and e.decl.get("k") == "field":
        return e.decl["n"]
    return None


def rule_G4(prog, fixture=False):
    res = RuleResult("G4", "every user-written slice constructor that takes another slice hands base_slice_t, for each "
                           "parameter, the source's corresponding field, and binds _base to the source's _base")
    bctor, mp = _slice_field_map(prog)
    if bctor is None or not mp or len(mp) < 4:
        res.broken.append("anchor vanished: base_slice_t(int n, int i1, int i2, int m) with a field per parameter (found map %s)" % mp)
        return res
    res.stats["field_map"] = mp
    pnames = [p["n"] for p in bctor.params]
    ctors = sorted([f for f in prog.functions.values() if f.cls and ANY_SLICE_CLASS.match(f.cls) and f.kind in ("ctor", "copy_ctor")
                    and len(f.params) == 1 and "slice_t<" in f.params[0].get("t", "") and not f.get("implicit")],
                   key=lambda f: (f.cls, f.line))
    for f in ctors:
        src = f.params[0]["n"]
        key = "G4:" + fkey(f)
        where = "%s:%d" % (prog.rel(f.file), f.line)
        what = "%s(%s)" % (f.short, f.params[0]["t"].replace("dsplib::", ""))
        extra = {"props": ["C04"]}
        base_init = None
        base_member = None
        for ci in f.ctor_inits():
            if ci.get("base") == "dsplib::base_slice_t":
                base_init = ci
            if ci.get("member") == "_base":
                base_member = ci
        problems, unknown = [], []
        if base_init is None or not base_init.c:
            unknown.append("no base_slice_t initialiser")
        else:
            ce = base_init.c[0].strip_all()
            while ce.k not in ("CXXConstructExpr",) and ce.c:
                ce = ce.c[0].strip_all()
            args = ce.c if ce.k == "CXXConstructExpr" else []
            if len(args) == 1 and (ce.callee or {}).get("pm") in (["cref"], ["ref"]):
                # delegating to base_slice_t's copy constructor: copies every field
                args = []
            elif len(args) != 4:
                unknown.append("base_slice_t initialiser with %d arguments" % len(args))
                args = []
            for i, a in enumerate(args):
                want = mp.get(pnames[i])
                e = a.strip_all()
                got = None
                if e.k == "MemberExpr" and e.decl and e.decl.get("k") == "field" and e.c and _is_param(e.c[0], src):
                    got = e.decl["n"]
                elif e.k == "CXXMemberCallExpr" and e.call_object() is not None and _is_param(e.call_object(), src):
                    got = _accessor_field(prog, e)
                    if got is None:
                        unknown.append("argument %d (%s) is a call that is not a trivial accessor" % (i, e.text()))
                        continue
                else:
                    unknown.append("argument %d (%s) is not a field of the source slice" % (i, e.text()))
                    continue
                if got != want:
                    problems.append("argument '%s' of base_slice_t receives %s, which is the source's %s; the constructor "
                                    "stores this argument in %s" % (pnames[i], e.text(), got, want))
        if base_member is not None and base_member.c:
            e = base_member.c[0].strip_all()
            while e.k in ("InitListExpr", "CXXConstructExpr") and len(e.c) == 1:
                e = e.c[0].strip_all()
            if not (e.k == "MemberExpr" and e.decl and e.decl.get("n") == "_base" and e.c and _is_param(e.c[0], src)):
                problems.append("_base is bound to %s instead of the source's _base" % e.text())
        else:
            unknown.append("no initialiser for _base")
        if problems:
            res.add(key, VIOLATED, where, what, "; ".join(problems), func=f.name, extra=extra)
        elif unknown:
            res.add(key, UNMODELLED, where, what, "; ".join(unknown), func=f.name, extra=extra)
        else:
            res.add(key, DISCHARGED, where, what, "passes the source's %s and binds the source's _base" % ", ".join(mp[p] for p in pnames),
                    func=f.name, extra=extra)
    res.stats["constructors"] = len(ctors)
    if not ctors and not fixture:
        res.broken.append("anchor vanished: no slice constructor taking another slice")
    return res


def _is_param(n, name):
    n = n.strip_all()
    return n.k == "DeclRefExpr" and n.decl and n.decl.get("k") == "parm" and n.decl.get("n") == name


# =================================================================================================
# G5: interval reasoning over literal constraints  x op c   /   x - y op 0
INF = float("inf")


def _interval(op, c):
    """set of integers v with (v op c) as (lo, hi, excluded_point)"""
    if op == "<":
        return (-INF, c - 1, None)
    if op == "<=":
        return (-INF, c, None)
    if op == ">":
        return (c + 1, INF, None)
    if op == ">=":
        return (c, INF, None)
    if op == "==":
        return (c, c, None)
    if op == "!=":
        return (-INF, INF, c)
    return None


def _subset(a, b):
    """a ⊆ b for the interval-with-hole representation"""
    alo, ahi, ax = a
    blo, bhi, bx = b
    if alo < blo or ahi > bhi:
        return False
    if bx is not None:
        # b excludes bx: a must not contain it
        if alo <= bx <= ahi and ax != bx:
            return False
    return True


class _Lit:
    """canonical literal: (term_a, term_b or None, interval over a - b, or over a when b is None)"""

    def __init__(self, a, b, iv, text):
        self.a, self.b, self.iv, self.text = a, b, iv, text

    def entails(self, other):
        if self.a == other.a and self.b == other.b:
            return _subset(self.iv, other.iv)
        if self.b is not None and self.a == other.b and self.b == other.a:
            lo, hi, x = self.iv
            neg = (-hi, -lo, (-x if x is not None else None))
            return _subset(neg, other.iv)
        return False


def _term(n, alias):
    n = n.strip_all()
    if n.k == "DeclRefExpr" and n.decl and n.decl.get("k") == "local":
        return alias.get(("local", n.decl["id"]))
    if n.k == "DeclRefExpr" and n.decl and n.decl.get("k") == "parm":
        nm = n.decl["n"]
        return alias.get(nm, "parm:" + nm)
    if n.k == "MemberExpr" and n.decl and n.decl.get("k") == "field" and (not n.c or n.c[0].strip_all().k == "CXXThisExpr"):
        return "field:" + n.decl["n"]
    return None


def _const(n):
    n = n.strip_all()
    if n.k == "IntegerLiteral":
        return int(n.get("v"))
    if n.k == "UnaryOperator" and n.op == "-" and n.c and n.c[0].strip_all().k == "IntegerLiteral":
        return -int(n.c[0].strip_all().get("v"))
    return None


def _literal(cond, pol, alias):
    cmp_ = as_comparison(cond)
    if cmp_ is None:
        return None
    lhs, op, rhs = cmp_
    if not pol:
        op = NEG[op]
    ta, tb = _term(lhs, alias), _term(rhs, alias)
    ca, cb = _const(lhs), _const(rhs)
    if ta is not None and cb is not None:
        return _Lit(ta, None, _interval(op, cb), cond.text())
    if tb is not None and ca is not None:
        return _Lit(tb, None, _interval(FLIP[op], ca), cond.text())
    if ta is not None and tb is not None:
        return _Lit(ta, tb, _interval(op, 0), cond.text())
    return None


def _clause(cond, pol, alias):
    """the surviving outcome (cond == pol) as a disjunction of literals, or None if not expressible"""
    c = cond.strip()
    if c.k == "UnaryOperator" and c.op == "!" and c.c:
        return _clause(c.c[0], not pol, alias)
    if c.k == "BinaryOperator" and c.op in ("&&", "||") and len(c.c) == 2:
        disj = (c.op == "||") == pol     # (A||B) true, or !(A&&B)
        if disj:
            l, r = _clause(c.c[0], pol, alias), _clause(c.c[1], pol, alias)
            if l is None or r is None:
                return None
            return l + r
        return None     # conjunctions are split by atoms_of before we get here
    lit = _literal(c, pol, alias)
    return [lit] if lit is not None else None


def rule_G5(prog, fixture=False):
    res = RuleResult("G5", "base_slice_t's constructor rejects by exception, on every path to its normal exit: n == 0, m == 0, "
                           "a resolved start outside [0, n-1], a resolved stop outside [0, n], and a step whose sign contradicts "
                           "the order of the resolved indices")
    bctor, mp = _slice_field_map(prog)
    if bctor is None or not mp or len(mp) < 4:
        res.broken.append("anchor vanished: base_slice_t(int n, int i1, int i2, int m) (field map %s)" % mp)
        return res
    f = bctor
    pn = [p["n"] for p in f.params]
    n_p, i1_p, i2_p, m_p = pn
    # parameters assigned unchanged to a field denote the same value as the field
    alias = {}
    for prm, fld in mp.items():
        direct = False
        for x in f.walk():
            if x.k == "BinaryOperator" and x.op == "=" and len(x.c) == 2:
                l = x.c[0].strip_all()
                r = x.c[1].strip_all()
                if l.k == "MemberExpr" and l.decl and l.decl.get("n") == fld and r.k == "DeclRefExpr" and r.decl.get("n") == prm:
                    direct = True
        if not direct:
            from .ir import _through_identity_helper
            for ci in f.ctor_inits():
                if ci.get("member") == fld and ci.c:
                    e = _through_identity_helper(ci.c[0]).strip_all()
                    while e.k in ("InitListExpr", "ParenExpr") and len(e.c) == 1:
                        e = _through_identity_helper(e.c[0]).strip_all()
                    if e.k == "DeclRefExpr" and e.decl and e.decl.get("n") == prm:
                        direct = True
        if not direct:
            # const int len = n; ... _n = len;
            for x in f.walk():
                if x.k == "VarDecl" and x.c and x.c[0].strip_all().k == "DeclRefExpr" and x.c[0].strip_all().decl.get("n") == prm \
                        and _local_field_aliases(f).get(x.decl["id"]) == "field:" + fld:
                    direct = True
        if direct:
            alias[prm] = "field:" + fld
    for lid, fld in _local_field_aliases(f).items():
        alias[("local", lid)] = fld
    N, M = "field:" + mp[n_p], "field:" + mp[m_p]
    S, E = "field:" + mp[i1_p], "field:" + mp[i2_p]
    if n_p not in alias or m_p not in alias:
        res.broken.append("anchor vanished: n and m are no longer stored unchanged in fields")
        return res
    clauses = []
    f.blocks
    for fact in f.facts_at_block(f.exit, normal_exit=True):
        if fact.belief:
            continue
        for (c, p) in atoms_of(fact.cond, fact.pol):
            cl = _clause(c, p, alias)
            clauses.append((cl, c, p, fact))
    # checks hoisted into member helpers ( _check_range(); ) : the helper's own normal-exit facts hold after the call, as long as
    # the constructor does not write the members they mention afterwards
    tbk = f.throw_blocks()
    for cnode in f.walk():
        if not (cnode.k in ("CXXMemberCallExpr", "CallExpr") and cnode.callee and cnode.callee.get("cls") == f.cls and cnode.callee.get("repo")):
            continue
        if cnode.k == "CXXMemberCallExpr":
            obj = cnode.call_object()
            if obj is None or obj.strip_all().k != "CXXThisExpr":
                continue
        elif not cnode.callee.get("static"):
            continue              # a static member helper: _check_first(_i1, n)
        g = prog.functions.get(cnode.callee["usr"])
        loc = f.block_of(cnode)
        if g is None or loc is None:
            continue
        # the call lies on every path to the normal exit
        if f.exit in f.reachable(f.entry, removed_blocks=set(tbk) | {loc[0]}) and loc[0] != f.entry:
            continue
        # parameters of the helper that receive a field / parameter of the constructor denote that value
        galias = dict((k, v) for k, v in alias.items() if isinstance(k, str))
        gal = {}
        for i, prm in enumerate(g.params):
            args = cnode.call_args()
            if i < len(args):
                t = _term(args[i], alias)
                if t:
                    gal[prm["n"]] = t
        g.blocks
        later_writes = {k for (wb, wi, k) in f._writes() if (wb == loc[0] and wi > loc[1]) or (wb != loc[0] and wb in f.reachable(loc[0]))}
        for fact in g.facts_at_block(g.exit, normal_exit=True):
            if fact.belief:
                continue
            if any(("field", t.decl["n"]) in later_writes for t in fact.cond.walk() if t.k == "MemberExpr" and t.decl and t.decl.get("k") == "field"):
                continue
            for (c, p) in atoms_of(fact.cond, fact.pol):
                clauses.append((_clause(c, p, gal), c, p, fact))
    # case analysis over a two-way branch outside loops:  if (m > 0) CHECK(stop >= start) else CHECK(stop <= start)
    # every normally completing path satisfies (branch outcome + what the paths of that outcome establish), for one of the outcomes
    case_facts = []
    helpers = []
    for cnode in f.walk():
        if cnode.k in ("CXXMemberCallExpr", "CallExpr") and cnode.callee and cnode.callee.get("cls") == f.cls and cnode.callee.get("repo") \
                and (cnode.k == "CXXMemberCallExpr" or cnode.callee.get("static")):
            g = prog.functions.get(cnode.callee["usr"])
            loc = f.block_of(cnode)
            if g is not None and loc is not None and not (f.exit in f.reachable(f.entry, removed_blocks=set(tbk) | {loc[0]}) and loc[0] != f.entry):
                gal = {}
                for i, prm in enumerate(g.params):
                    args = cnode.call_args()
                    if i < len(args):
                        t = _term(args[i], alias)
                        if t:
                            gal[prm["n"]] = t
                helpers.append((g, gal))
    for (g, gal) in [(f, alias)] + helpers:
        g.blocks
        seen_b = set()
        for (b, si, s_, cn, pol) in g.branch_edges():
            if b.id in seen_b or len(b.succs) != 2 or any(x is None for x in b.succs):
                continue
            seen_b.add(b.id)
            if b.id in g.reachable(b.succs[0]) or b.id in g.reachable(b.succs[1]):
                continue          # inside a loop: a path can take both outcomes
            if not all(g.normal_exit_reachable_from(x) for x in b.succs):
                continue          # a plain guard: already a fact
            tn = g.nodes.get(b.term) if b.term is not None else None
            if (tn is not None and tn.is_belief()) or cn.is_belief():
                continue
            dnf = []
            for keep in (0, 1):
                outcome = [(e_[3], e_[4]) for e_ in g.branch_edges() if e_[0].id == b.id and e_[1] == keep]
                if not outcome:
                    dnf = None
                    break
                cj_ = []
                for (c, p) in atoms_of(outcome[0][0], outcome[0][1]):
                    cl = _clause(c, p, gal)
                    if cl is not None and len(cl) == 1:
                        cj_.append((cl[0], True))
                for fact in g.facts_at_block(g.exit, normal_exit=True, assume=[(b.id, 1 - keep)]):
                    if fact.belief:
                        continue
                    for (c, p) in atoms_of(fact.cond, fact.pol):
                        cl = _clause(c, p, gal)
                        if cl is not None and len(cl) == 1:
                            cj_.append((cl[0], fact.rejects_by_throw))
                dnf.append(cj_)
            if dnf:
                case_facts.append((dnf, cn))
    required = [
        ("empty-array", [_Lit(N, None, _interval("!=", 0), "n != 0")], "an empty array"),
        ("zero-step", [_Lit(M, None, _interval("!=", 0), "m != 0")], "a zero step"),
        ("start-lower", [_Lit(S, None, _interval(">=", 0), "start >= 0")], "a start below -n"),
        ("start-upper", [_Lit(S, N, _interval("<", 0), "start < n")], "a start above n-1"),
        ("stop-lower", [_Lit(E, None, _interval(">=", 0), "stop >= 0")], "a stop below -n"),
        ("stop-upper", [_Lit(E, N, _interval("<=", 0), "stop <= n")], "a stop above n"),
        ("neg-step-order", [_Lit(M, None, _interval(">=", 0), "m >= 0"), _Lit(S, E, _interval(">=", 0), "start >= stop")],
         "a negative step with start < stop"),
        ("pos-step-order", [_Lit(M, None, _interval("<=", 0), "m <= 0"), _Lit(S, E, _interval("<=", 0), "start <= stop")],
         "a positive step with start > stop"),
    ]
    used = set()
    where = "%s:%d" % (prog.rel(f.file), f.line)
    for (name, req, what) in required:
        hit = None
        weak = None
        for i, (cl, c, p, fact) in enumerate(clauses):
            if cl is None:
                continue
            if all(any(l.entails(r) for r in req) for l in cl):
                if fact.rejects_by_throw:
                    hit = (i, fact)
                    break
                weak = (i, fact)
        key = "G5:base_slice_t:%s" % name
        extra = {"props": ["C04", "C05"]}
        if hit is None:
            for (dnf, cn) in case_facts:
                if all(any(l.entails(r) and thr for (l, thr) in cj_ for r in req) for cj_ in dnf):
                    res.add(key, DISCHARGED, "%s:%d" % (prog.rel(f.file), cn.line), "slice creation rejects %s" % what,
                            "live throwing guards in both outcomes of (%s): each outcome either cannot be this case or checks it" % cn.text(),
                            func=f.name, extra=extra)
                    hit = "case"
                    break
            if hit == "case":
                continue
        if hit is not None:
            used.add(hit[0])
            res.add(key, DISCHARGED, "%s:%d" % (prog.rel(f.file), hit[1].cond.line), "slice creation rejects %s" % what,
                    "live throwing guard %s%s" % ("" if hit[1].pol else "!", "(" + hit[1].cond.text() + ")"), func=f.name, extra=extra)
        elif weak is not None:
            used.add(weak[0])
            res.add(key, VIOLATED, "%s:%d" % (prog.rel(f.file), weak[1].cond.line), "slice creation rejects %s" % what,
                    "the condition is tested but the rejecting branch does not throw (clamping or early return): the property "
                    "says the call throws", func=f.name, extra=extra)
        else:
            # an unrecognised live guard that talks about the same quantity makes this 'unmodelled', not 'violated'
            terms = {l.a for l in req} | {l.b for l in req if l.b}
            cand = None
            for i, (cl, c, p, fact) in enumerate(clauses):
                if i in used or not fact.rejects_by_throw:
                    continue
                if cl is None:
                    names = set()
                    for x in c.walk():
                        t = _term(x, alias)
                        if t:
                            names.add(t)
                        if x.k == "DeclRefExpr" and x.decl and x.decl.get("k") == "parm":
                            names.add("parm:" + x.decl["n"])
                    raw = {"field:" + mp[i1_p]: "parm:" + i1_p, "field:" + mp[i2_p]: "parm:" + i2_p}
                    if names & (terms | {raw.get(t) for t in terms}):
                        cand = c
            if cand is not None:
                res.add(key, UNMODELLED, where, "slice creation rejects %s" % what,
                        "no recognised guard; an unrecognised live guard mentions the quantity: %s" % cand.text(), func=f.name, extra=extra)
            else:
                res.add(key, VIOLATED, where, "slice creation rejects %s" % what,
                        "no live throwing guard on the path to the constructor's normal exit excludes this case "
                        "(begin()/end() turn the stored fields into pointer offsets)", func=f.name, extra=extra)
    res.stats["live_guard_atoms"] = len(clauses)
    res.stats["field_map"] = mp
    return res
