"""L1 LOCK-DOMINANCE / A-PRIORI ORDER (C12) and L2 CLAMP-DOMINANCE (C20)"""
import re

from .core import RuleResult, DISCHARGED, VIOLATED, UNMODELLED
from .flow import Flow
from .guards import GuardCtx, as_comparison, NEG
from .ir import atoms_of
from .rules_state import fkey

# class template -> (coefficient state fields, lock flag, the only method allowed to write the flag)
L1_TABLE = {
    "dsplib::LmsFilter": (["_w"], "_locked", "set_lock_coeffs"),
    "dsplib::RlsFilter": (["_w", "_p"], "_locked", "set_lock_coeffs"),
}
WRITE_CALLS = {"memcpy", "memmove", "memset", "std::memcpy", "std::memmove", "std::memset", "std::copy", "std::fill",
               "std::copy_n", "std::fill_n", "std::swap"}


def _tmpl(cls):
    return cls.split("<", 1)[0] if cls else ""


def _is_assign(n):
    if n.k in ("BinaryOperator", "CompoundAssignOperator") and n.op and n.op.endswith("=") and n.op not in ("==", "!=", "<=", ">="):
        return n.c[0] if n.c else None
    if n.k == "CXXOperatorCallExpr" and n.op and n.op.endswith("=") and n.op not in ("==", "!=", "<=", ">=") and len(n.c) >= 2:
        return n.c[1]
    if n.k == "UnaryOperator" and n.op in ("++", "--") and n.c:
        return n.c[0]
    return None


def _l1_this_field(n):
    n = n.strip_all()
    if n.k == "MemberExpr" and n.decl and n.decl.get("k") == "field" and (not n.c or n.c[0].strip_all().k == "CXXThisExpr"):
        return n.decl["n"]
    return None


def field_writes(f, flow, fields):
    """nodes that write storage rooted at this-><one of fields> : [(node, field)]"""
    out = []
    fs = set(fields)
    for n in f.walk():
        lhs = _is_assign(n)
        if lhs is not None:
            l0 = lhs.strip_all()
            if l0.k == "DeclRefExpr" and l0.decl and l0.decl.get("k") in ("local", "parm", "binding"):
                continue      # the local pointer / iterator / value itself changes (++p, p = q), not the storage it refers to
            for r in flow.root(lhs):
                if r[0] == "this" and r[1] in fs:
                    out.append((n, r[1]))
            continue
        if n.is_call() and n.callee:
            ce = n.callee
            qn = ce.get("qn", "")
            if qn in WRITE_CALLS:
                args = n.call_args()
                if args:
                    for r in flow.root(args[0]):
                        if r[0] == "this" and r[1] in fs:
                            out.append((n, r[1]))
            obj = n.call_object()
            if obj is not None and "cls" in ce and not ce.get("const") and not ce.get("static") and n.k != "CXXConstructExpr":
                nm = qn.rsplit("::", 1)[-1]
                if nm in ("operator[]", "operator()", "data", "begin", "end", "slice", "operator*", "operator->", "at", "front", "back") \
                        or nm.endswith("="):
                    continue        # accessors: the write is seen at the assignment;  op= handled above
                for r in flow.root(obj):
                    if r[0] == "this" and r[1] in fs:
                        out.append((n, r[1]))
    return out


def _lock_false(cond, pol, flag, prog, depth=0):
    """does (cond == pol) say that the lock flag is false?"""
    c = cond.strip_all()
    if c.k == "DeclRefExpr" and c.decl and c.decl.get("k") == "local" and depth < 3:
        # a local flag computed once from the lock (const bool frozen = _locked || ...): look through it
        fn = c.fn
        defs = [v for v in fn.walk() if v.k == "VarDecl" and v.decl["id"] == c.decl["id"] and v.c]
        written = any((w.k in ("BinaryOperator", "CompoundAssignOperator") and w.op and w.op.endswith("=") and w.op not in ("==", "!=", "<=", ">=")
                       and w.c and w.c[0].strip_all().k == "DeclRefExpr" and w.c[0].strip_all().decl.get("id") == c.decl["id"]) for w in fn.walk())
        if len(defs) == 1 and not written:
            return any(_lock_false(a, p, flag, prog, depth + 1) for (a, p) in atoms_of(defs[0].c[0], pol))
        return False
    if c.k == "UnaryOperator" and c.op == "!" and c.c:
        return _lock_false(c.c[0], not pol, flag, prog)
    if c.k == "MemberExpr" and c.decl and c.decl.get("k") == "field" and c.decl.get("n") == flag:
        return pol is False
    if c.k == "CXXMemberCallExpr" and c.callee:
        g = prog.functions.get(c.callee.get("usr"))
        if g is not None:
            rets = [x for x in g.walk() if x.k == "ReturnStmt" and x.c]
            if len(rets) == 1 and depth < 3:
                # an accessor / predicate over the flag: is_locked() { return _locked; }   _adapting() { return !_locked; }
                return any(_lock_false(a, p2, flag, prog, depth + 1) for (a, p2) in atoms_of(rets[0].c[0], pol))
    cmp_ = as_comparison(c)
    if cmp_ is not None:
        lhs, op, rhs = cmp_
        if not pol:
            op = NEG[op]
        for a, b in ((lhs, rhs), (rhs, lhs)):
            a2, b2 = a.strip_all(), b.strip_all()
            if a2.k == "MemberExpr" and a2.decl and a2.decl.get("n") == flag and b2.k == "CXXBoolLiteralExpr":
                v = bool(b2.get("v"))
                return (op == "==" and v is False) or (op == "!=" and v is True)
    return False


def _top_level_index(loop_body, n):
    """index of the direct child statement of loop_body that contains n"""
    x = n
    while x is not None and (x.parent is None or x.parent.id != loop_body.id):
        x = x.parent
    if x is None:
        return None
    for i, ch in enumerate(loop_body.c):
        if ch.id == x.id:
            return i
    return None


def rule_L1(prog, fixture=False):
    res = RuleResult("L1", "in LmsFilter/RlsFilter::process every write of the coefficient state lies behind a test of the lock flag "
                           "taken in the same iteration; the flag is written only by set_lock_coeffs; inside the sample loop the "
                           "output y[k] is computed from the coefficients before any update of the same iteration, and e[k] is "
                           "formed from d and y before the update")
    procs = sorted([f for f in prog.functions.values() if _tmpl(f.cls) in L1_TABLE and f.qn.endswith("::process")],
                   key=lambda f: (f.cls, f.line))
    if not procs:
        res.broken.append("anchor vanished: no LmsFilter<T>::process / RlsFilter<T>::process instantiation")
        return res
    for f in procs:
        fields, flag, setter = L1_TABLE[_tmpl(f.cls)]
        cj = prog.classes.get(f.cls)
        have = {x["name"] for x in cj["fields"]} if cj else set()
        if cj and not (set(fields) | {flag}) <= have:
            res.broken.append("anchor vanished: %s no longer has the fields %s" % (f.cls, sorted((set(fields) | {flag}) - have)))
            continue
        flow = Flow(f, prog, control=False)
        base = "L1:" + f.cls
        where = "%s:%d" % (prog.rel(f.file), f.line)
        W = field_writes(f, flow, fields)
        callee_protected = set()
        # member helpers called from process that write the state count as writes at the call
        for n in f.walk():
            if n.is_call() and n.callee and n.callee.get("cls") == f.cls and n.k == "CXXMemberCallExpr":
                g = prog.functions.get(n.callee["usr"])
                if g is not None and g.usr != f.usr:
                    gw = field_writes(g, Flow(g, prog), fields)
                    if gw:
                        W.append((n, gw[0][1]))
                        # a helper that tests the lock itself in front of every one of its writes needs no test at the call
                        if all(any(_lock_false(c, p, flag, prog) for fact in g.facts_at(wn) if not fact.belief
                                   for (c, p) in atoms_of(fact.cond, fact.pol)) for (wn, _) in gw):
                            callee_protected.add(n.id)
        # copy in / work / copy out:  auto w = _w; ... w[i] = ...; ... _w = w;   the assignment back stores what the local holds -
        # the writes that matter are those of the local, the hand-back of an untouched copy changes nothing
        W2 = []
        for (n, fld) in W:
            lhs = _is_assign(n)
            rhs = None
            if lhs is not None and _l1_this_field(lhs) == fld:
                if n.k in ("BinaryOperator",) and n.op == "=" and len(n.c) == 2:
                    rhs = n.c[1]
                elif n.k == "CXXOperatorCallExpr" and n.op == "=" and len(n.c) >= 3:
                    rhs = n.c[2]
            r0 = rhs.strip_all() if rhs is not None else None
            while r0 is not None and r0.k in ("CallExpr",) and r0.callee and r0.callee.get("qn") in ("std::move",) and r0.call_args():
                r0 = r0.call_args()[0].strip_all()
            vd = None
            if r0 is not None and r0.k == "DeclRefExpr" and r0.decl and r0.decl.get("k") == "local":
                for v in f.walk():
                    if v.k == "VarDecl" and v.decl and v.decl.get("id") == r0.decl["id"] and v.c and not (v.type or "").rstrip().endswith("&"):
                        i0 = v.c[0].strip_all()
                        while i0.k in ("CXXConstructExpr", "MaterializeTemporaryExpr", "CXXBindTemporaryExpr") and len(i0.c) == 1:
                            i0 = i0.c[0].strip_all()
                        if _l1_this_field(i0) == fld:
                            vd = v
            if vd is None:
                W2.append((n, fld))
                continue
            lname = vd.decl["n"]
            for x in f.walk():
                l2 = _is_assign(x)
                if l2 is not None and x.id != n.id:
                    t0 = l2.strip_all()
                    if t0.k == "DeclRefExpr" and t0.decl and t0.decl.get("id") == vd.decl["id"]:
                        W2.append((x, fld))
                    elif any(r == ("local", lname) for r in flow.root(l2)) and not (t0.k == "DeclRefExpr"):
                        W2.append((x, fld))
                elif x.is_call() and x.callee:
                    pm = x.callee.get("pm", [])
                    for i, a in enumerate(x.call_args()):
                        a0 = a.strip_all()
                        if (pm[i] if i < len(pm) else "val") in ("ref", "ptr") and a0.k == "DeclRefExpr" and a0.decl and a0.decl.get("id") == vd.decl["id"] \
                                and not (a.type or "").startswith("const "):
                            W2.append((x, fld))
        W = W2
        if not W:
            res.add(base + ":lock", UNMODELLED, where, f.short, "no write of %s found in process()" % "/".join(fields), func=f.name)
            continue
        # (a) lock dominance
        bad = []
        for (n, fld) in W:
            ok = n.id in callee_protected
            for fact in f.facts_at(n):
                if fact.belief:
                    continue
                for (c, p) in atoms_of(fact.cond, fact.pol):
                    if _lock_false(c, p, flag, prog):
                        ok = True
            if not ok:
                bad.append((n, fld))
        if bad:
            n, fld = bad[0]
            res.add(base + ":lock", VIOLATED, "%s:%d" % (prog.rel(f.file), n.line), "%s honours the lock" % f.short,
                    "%s writes %s on a path that has not tested %s in this iteration (%d of %d write sites unprotected)"
                    % (n.text(), fld, flag, len(bad), len(W)), func=f.name)
        else:
            res.add(base + ":lock", DISCHARGED, where, "%s honours the lock" % f.short,
                    "all %d writes of %s are reached only with %s false" % (len(W), "/".join(fields), flag), func=f.name)
        # (a2) the update is skipped by nothing but the lock / the configured method: a data-dependent skip drops samples
        #      from the recursion (RLS then no longer solves the weighted least-squares problem)
        ret0 = [n for n in f.walk() if n.k == "ReturnStmt" and n.c]
        data_bad = None
        for (n, fld) in W:
            for fact in f.facts_at(n):
                if fact.belief:
                    continue
                for (c, p) in atoms_of(fact.cond, fact.pol):
                    if any(x.k == "DeclRefExpr" and x.decl and x.decl.get("n", "").startswith("__") for x in c.walk()):
                        continue      # implicit range-for / iterator loop bound (__begin != __end): a shape condition
                    cmp_ = as_comparison(c)
                    if cmp_ is not None and all("iterator" in (side.strip().type or "") or side.strip().tc == "ptr" for side in (cmp_[0], cmp_[2])):
                        continue      # iterator / pointer loop bound
                    deps = flow.deps(c)
                    if any(a[0] == "parm" and a[2] == "content" for a in deps):
                        data_bad = (n, c, p)
        if data_bad:
            n, c, p = data_bad
            res.add(base + ":update-unconditional", VIOLATED, "%s:%d" % (prog.rel(f.file), c.line), "%s adapts on every sample" % f.short,
                    "the coefficient update %s (line %d) is reached only when the data-dependent condition %s is %s: samples are "
                    "dropped from the recursion by something other than the lock" % (n.text(), n.line, c.text(), str(p).lower()), func=f.name)
        else:
            res.add(base + ":update-unconditional", DISCHARGED, where, "%s adapts on every sample" % f.short,
                    "the only conditions in front of the update are the lock flag and object configuration", func=f.name)
        # (a3) state that follows the input stream advances whether or not the filter is locked
        all_fields = [x["name"] for x in cj["fields"]] if cj else []
        others = [x for x in all_fields if x not in fields and x != flag]
        OW = field_writes(f, flow, others)
        frozen = None
        for (n, fld) in OW:
            behind_lock = False
            for fact in f.facts_at(n):
                if fact.belief:
                    continue
                for (c, p) in atoms_of(fact.cond, fact.pol):
                    if _lock_false(c, p, flag, prog):
                        behind_lock = True
            if not behind_lock:
                continue
            rhs_nodes = n.c[1:] if n.k != "CXXOperatorCallExpr" else n.c[2:]
            deps = set()
            for r in rhs_nodes:
                deps |= flow.deps(r)
            if any(a[0] == "parm" and a[2] == "content" for a in deps):
                frozen = (n, fld)
        if frozen:
            n, fld = frozen
            res.add(base + ":history-advances", VIOLATED, "%s:%d" % (prog.rel(f.file), n.line), "%s keeps its signal history while locked" % f.short,
                    "%s updates the member %s from the input samples only while the filter is unlocked: the state misses the samples "
                    "processed under the lock and is wrong after unlocking" % (n.text(), fld), func=f.name)
        else:
            res.add(base + ":history-advances", DISCHARGED, where, "%s keeps its signal history while locked" % f.short,
                    "%d write(s) of input-following members (%s) are independent of the lock" % (len(OW), ", ".join(sorted({x for (_, x) in OW})) or "none"), func=f.name)
        # (c) a-priori order inside the sample loop
        loops = []
        for (n, fld) in W:
            top = None
            for a in n.ancestors():
                if a.k in ("ForStmt", "WhileStmt", "DoStmt", "CXXForRangeStmt"):
                    top = a
            if top is not None and top.id not in [l.id for l in loops]:
                loops.append(top)
        ret = [n for n in f.walk() if n.k == "ReturnStmt" and n.c]
        out_ids = []
        if ret:
            for x in ret[0].c[0].walk():
                if x.k == "DeclRefExpr" and x.decl and x.decl.get("k") == "local" and x.decl["id"] not in out_ids:
                    out_ids.append(x.decl["id"])
        if len(loops) != 1 or len(out_ids) < 2:
            res.add(base + ":apriori", UNMODELLED, where, "%s a-priori output" % f.short,
                    "could not identify the sample loop (%d candidates) or the {y, e} result (%d locals)" % (len(loops), len(out_ids)), func=f.name)
            continue
        loop = loops[0]
        body = loop.role("body")
        y_id, e_id = out_ids[0], out_ids[1]
        d_name = f.params[1]["n"] if len(f.params) > 1 else None
        ywrites, ewrites = [], []
        for n in loop.walk():
            lhs = _is_assign(n)
            if lhs is None:
                continue
            ids = []
            t = lhs.strip_all()
            for x in t.walk():
                if x.k == "DeclRefExpr" and x.decl and x.decl.get("k") == "local":
                    ids.append(x.decl["id"])
                    break
            if not ids:
                continue
            rhs_nodes = n.c[1:] if n.k != "CXXOperatorCallExpr" else n.c[2:]
            deps = set()
            for r in rhs_nodes:
                deps |= flow.deps(r)
            if ids[0] == y_id:
                reads_state = any(a[0] == "this" and a[1] in fields for a in deps)
                ywrites.append((n, reads_state, deps))
            elif ids[0] == e_id:
                reads_d = any(a[0] == "parm" and a[1] == d_name for a in deps)
                reads_y = any(x.k == "DeclRefExpr" and x.decl and x.decl.get("id") == y_id for r in rhs_nodes for x in r.walk())
                ewrites.append((n, reads_d and reads_y, deps))
        widx = [i for i in (_top_level_index(body, n) for (n, _) in W) if i is not None]
        yidx = [(_top_level_index(body, n), n) for (n, rs, _) in ywrites if rs]
        problems = []
        if not yidx:
            problems.append("no statement in the sample loop computes the output from the coefficient state")
        elif widx:
            late = [n for (i, n) in yidx if i is None or i >= min(widx)]
            if late:
                problems.append("%s (line %d) computes the output after/at the coefficient update of the same iteration: y[k] is not the a-priori output"
                                % (late[0].text(), late[0].line))
        if problems:
            res.add(base + ":apriori", VIOLATED, "%s:%d" % (prog.rel(f.file), loop.line), "%s a-priori output" % f.short, "; ".join(problems), func=f.name)
        else:
            res.add(base + ":apriori", DISCHARGED, "%s:%d" % (prog.rel(f.file), loop.line), "%s a-priori output" % f.short,
                    "output statement(s) at position %s of the loop body precede the first coefficient write at position %d"
                    % (sorted({i for (i, _) in yidx}), min(widx)), func=f.name)
        eproblems = []
        if not ewrites:
            eproblems.append("no statement assigns the error output")
        else:
            # e = d - y written through locals (const T ek = d[k] - yk; y[k] = yk; e[k] = ek): the error depends on the desired
            # signal and on everything the output of the same iteration depends on
            ydeps = set()
            for (_, rs, dd) in ywrites:
                if rs:
                    ydeps |= {a for a in dd if a[0] in ("this", "parm")}
            via_locals = any(any(a[0] == "parm" and a[1] == d_name for a in dd) and ydeps and ydeps <= dd for (_, _, dd) in ewrites)
            if not any(ok for (_, ok, _) in ewrites) and not via_locals:
                eproblems.append("%s does not combine the desired signal and the output" % ewrites[0][0].text())
            eidx = [_top_level_index(body, n) for (n, ok, _) in ewrites]
            if widx and any(i is None or i >= min(widx) for i in eidx):
                eproblems.append("the error is assigned after the coefficient update (a-posteriori error)")
            if yidx and any(i is not None and i < max(j for (j, _) in yidx if j is not None) for i in eidx):
                eproblems.append("the error is formed before the output of the same sample is complete")
        if eproblems:
            res.add(base + ":error-def", VIOLATED, "%s:%d" % (prog.rel(f.file), (ewrites[0][0].line if ewrites else loop.line)),
                    "%s error signal" % f.short, "; ".join(eproblems), func=f.name)
        else:
            res.add(base + ":error-def", DISCHARGED, "%s:%d" % (prog.rel(f.file), ewrites[0][0].line), "%s error signal" % f.short,
                    "%s is formed from d and the a-priori y before the update" % ewrites[0][0].text(), func=f.name)
    # (b) who writes the lock flag
    for cls_name in sorted({f.cls for f in procs}):
        fields, flag, setter = L1_TABLE[_tmpl(cls_name)]
        writers = []
        for g in prog.functions.values():
            if g.cls != cls_name:
                continue
            gw = field_writes(g, Flow(g, prog), [flag])
            if gw and g.kind not in ("ctor", "copy_ctor", "move_ctor"):
                writers.append(g)
        cj = prog.classes.get(cls_name)
        where = "%s:%d" % (prog.rel(cj["file"]), cj["line"]) if cj else ""
        bad = [g for g in writers if g.qn.rsplit("::", 1)[-1] != setter and not g.get("implicit")]
        if bad:
            res.add("L1:%s:lock-writers" % cls_name, VIOLATED, "%s:%d" % (prog.rel(bad[0].file), bad[0].line), "%s::%s writers" % (cls_name, flag),
                    "%s writes the lock flag (only %s may)" % (bad[0].short, setter))
        else:
            res.add("L1:%s:lock-writers" % cls_name, DISCHARGED, where, "%s::%s writers" % (cls_name, flag),
                    "written only by %s" % (", ".join(sorted({g.short for g in writers})) or "the in-class initialiser"))
    res.stats["instantiations"] = [f.short for f in procs]
    return res


# =================================================================================================
L2_STATE = ("gain", "max_gain")     # AgcImpl fields: current gain, ceiling


def _is_field(n, name):
    """name: a member name, or ("local", decl id) for a local that carries the member's value"""
    n = n.strip_all()
    if isinstance(name, tuple):
        return n.k == "DeclRefExpr" and n.decl and n.decl.get("id") == name[1]
    if n.k == "DeclRefExpr" and n.decl and n.decl.get("k") == "local" and (n.decl.get("dt") or "").startswith("const "):
        # const real_t max_gain = agc.max_gain;  - a read-only name for the member
        from .ir import _single_def
        d = _single_def(n)
        if d is not None:
            d = d.strip_all()
            return d.k == "MemberExpr" and d.decl and d.decl.get("k") == "field" and d.decl.get("n") == name
        return False
    return n.k == "MemberExpr" and n.decl and n.decl.get("k") == "field" and n.decl.get("n") == name


def _find_clamps(f, gain, ceil, _depth=0):
    """statements that enforce gain <= ceil:  if (gain > ceil) gain = ceil;   or   gain = std::min(gain, ceil);"""
    out = []
    for n in f.walk():
        if n.k == "IfStmt":
            c = n.role("cond")
            cmp_ = as_comparison(c) if c is not None else None
            if cmp_ is None:
                continue
            lhs, op, rhs = cmp_
            form = None
            if _is_field(lhs, gain) and _is_field(rhs, ceil) and op in (">", ">="):
                form = True
            if _is_field(rhs, gain) and _is_field(lhs, ceil) and op in ("<", "<="):
                form = True
            if not form:
                continue
            then = n.role("then")
            ok = False
            for x in (then.walk() if then is not None else []):
                if x.k == "BinaryOperator" and x.op == "=" and len(x.c) == 2 and _is_field(x.c[0], gain) and _is_field(x.c[1], ceil):
                    ok = True
            if ok:
                out.append(n)
        elif n.k == "BinaryOperator" and n.op == "=" and len(n.c) == 2 and _is_field(n.c[0], gain):
            r = n.c[1].strip_all()
            if r.k == "CallExpr" and r.callee and r.callee.get("qn") in ("std::min", "dsplib::min", "fmin", "std::fmin"):
                args = r.call_args()
                if len(args) == 2 and ((_is_field(args[0], gain) and _is_field(args[1], ceil)) or (_is_field(args[1], gain) and _is_field(args[0], ceil))):
                    out.append(n)
            elif r.k == "CallExpr" and r.callee and r.callee.get("repo") and _L2_PROG is not None:
                # gain = _update_gain(agc, gain, power): a helper every one of whose returns hands back a clamped value
                g = _L2_PROG.functions.get(r.callee.get("usr"))
                if g is not None and g.usr != f.usr and _returns_clamped(g, ceil):
                    out.append(n)
        elif n.is_call() and n.callee and n.callee.get("usr") in _L2_CLAMPERS and not isinstance(gain, tuple) and n.callee.get("usr") != f.usr:
            out.append(n)         # _clamp_gain(agc): a helper that does nothing to the gain but clamp it
        elif n.is_call() and n.callee and n.callee.get("repo") and _L2_PROG is not None and n.callee.get("usr") != f.usr and _depth < 2:
            # _update_gain(g, err, ..., agc.max_gain): the state goes in by reference, the ceiling by value, and inside the helper
            # the clamp of the one against the other is the last thing that happens to the state on every path
            g = _L2_PROG.functions.get(n.callee.get("usr"))
            args = n.call_args()
            pm = n.callee.get("pm", [])
            if g is None or len(g.params) != len(args) or not g.blocks:
                continue
            gi = [i for i, a in enumerate(args) if (pm[i] if i < len(pm) else "val") in ("ref", "ptr") and _is_field(a, gain)]
            ci = [j for j, a in enumerate(args) if _is_field(a, ceil)]
            if not gi or not ci:
                continue
            pg = ("parm", g.params[gi[0]]["id"], g.params[gi[0]].get("n"))
            pc = ("parm", g.params[ci[0]]["id"], g.params[ci[0]].get("n"))
            cl = _find_clamps(g, pg, pc, _depth + 1)
            cl_ids = {x.id for c in cl for x in c.walk()}
            cnodes = [(c.role("cond") if c.k == "IfStmt" else c) for c in cl]
            last = [c for c in cnodes if c is not None and g.block_of(c) is not None and g.block_dominates(g.block_of(c)[0], g.exit)]
            if not last:
                continue
            writes = [w for w in g.walk() if w.id not in cl_ids and w.k in ("BinaryOperator", "CompoundAssignOperator") and w.op and w.op.endswith("=")
                      and w.op not in ("==", "!=", "<=", ">=") and w.c and _is_field(w.c[0], pg)]
            def not_after(w, c):
                lw, lc = g.block_of(w), g.block_of(c)
                if lw is None or lc is None:
                    return False
                if lw[0] == lc[0]:
                    return lw[1] < lc[1]
                return lw[0] not in g.reachable_from_succs(lc[0])
            if all(any(not_after(w, c) for c in last) for w in writes):
                out.append(n)
    return out


_L2_PROG = None
_L2_CLAMPERS = set()      # usr of helpers that only clamp the gain state they are given
_L2_UPDATERS = set()      # usr of internal helpers that update it and leave the clamp to their callers


def _returns_clamped(g, ceil):
    """every return of g yields std::min(v, ceil), or a variable v that has been through the clamp on every path to the return"""
    rets = [r for r in g.walk() if r.k == "ReturnStmt" and r.c and not any(a.k == "LambdaExpr" for a in r.ancestors())]
    if not rets:
        return False
    g.blocks
    for r in rets:
        e = r.c[0].strip_all()
        while e.k in ("CXXConstructExpr", "MaterializeTemporaryExpr", "ImplicitCastExpr") and len(e.c) == 1:
            e = e.c[0].strip_all()
        if e.k == "CallExpr" and e.callee and e.callee.get("qn") in ("std::min", "dsplib::min", "fmin", "std::fmin"):
            args = e.call_args()
            if len(args) == 2 and (_is_field(args[0], ceil) or _is_field(args[1], ceil)):
                continue
            return False
        if e.k == "ConditionalOperator" and len(e.c) == 3:
            # (v > ceil) ? ceil : v     (v < ceil) ? v : ceil     and the mirrored / non-strict spellings
            cmp_ = as_comparison(e.c[0])
            if cmp_ is not None:
                l, op, r2 = cmp_
                t, f_ = e.c[1].strip_all(), e.c[2].strip_all()
                if _is_field(r2, ceil) and not _is_field(l, ceil):
                    v = l
                elif _is_field(l, ceil) and not _is_field(r2, ceil):
                    v, op = r2, {"<": ">", "<=": ">=", ">": "<", ">=": "<="}.get(op, op)
                else:
                    return False
                same = lambda a, b: a.strip_all().text() == b.strip_all().text()
                if op in (">", ">=") and _is_field(t, ceil) and same(f_, v):
                    continue
                if op in ("<", "<=") and _is_field(f_, ceil) and same(t, v):
                    continue
            return False
        if e.k == "DeclRefExpr" and e.decl and e.decl.get("k") in ("local", "parm"):
            var = ("local", e.decl["id"], e.decl.get("n"))
            clamps = _find_clamps(g, var, ceil)
            cnodes = [(c.role("cond") if c.k == "IfStmt" else c) for c in clamps]
            if not any(c is not None and g.precedes(c, r) for c in cnodes):
                return False
            v = _l2_core(g, var, ceil, False, lambda n: False)
            if v[0] != DISCHARGED:
                return False
            continue
        return False
    return True


def _l2_core(f, gain, ceil, check_exit, skip_write):
    """-> (verdict, reason, line).  gain is a member name or a ("local", id) carrier"""
    gname = gain if not isinstance(gain, tuple) else gain[2]
    writes, reads = [], []
    clamps = _find_clamps(f, gain, ceil)
    clamp_ids = set()
    for c in clamps:
        for x in c.walk():
            clamp_ids.add(x.id)
    for n in f.walk():
        if n.id in clamp_ids:
            continue
        if n.k in ("BinaryOperator", "CompoundAssignOperator") and n.op and n.op.endswith("=") and n.op not in ("==", "!=", "<=", ">=") \
                and n.c and _is_field(n.c[0], gain) and not skip_write(n):
            writes.append(n)
    if not isinstance(gain, tuple):
        for n in f.walk():
            if n.id not in clamp_ids and n.is_call() and n.callee and n.callee.get("usr") in _L2_UPDATERS and n.callee.get("usr") != f.usr:
                writes.append(n)
    write_lhs = {w.c[0].strip_all().id for w in writes if not w.is_call()}
    for n in f.walk():
        if n.id in clamp_ids:
            continue
        if _is_field(n, gain) and n.strip_all().id == n.id and n.id not in write_lhs:
            if n.parent is not None and n.parent.k in ("BinaryOperator",) and n.parent.op == "=" and n.parent.c[0].strip_all().id == n.id:
                continue          # left side of an exempt (transfer) assignment
            reads.append(n)
    if not writes:
        return (DISCHARGED, "the only writes of %s are the clamp itself%s" % (gname, " and transfers from a clamped local" if not isinstance(gain, tuple) else ""), f.line)
    if not clamps:
        return (VIOLATED, "%s is updated (%s, line %d) but no clamp against %s exists in the updating function" % (gname, writes[0].text(), writes[0].line, ceil), f.line)
    f.blocks
    clamp_pos = {}
    for c in clamps:
        loc = f.block_of(c.role("cond") if c.k == "IfStmt" else c)
        if loc:
            clamp_pos.setdefault(loc[0], []).append(loc[1])
    reads_at = {}
    for r in reads:
        rl = f.block_of(r)
        if rl:
            reads_at.setdefault(rl[0], []).append((rl[1], r))
    bad = None
    for w in writes:
        wl = f.block_of(w)
        if wl is None:
            continue
        bw, j = wl
        first_clamp = min([c for c in clamp_pos.get(bw, []) if c > j], default=None)
        for (i, r) in sorted(reads_at.get(bw, []), key=lambda t: t[0]):
            if i > j and (first_clamp is None or i < first_clamp):
                bad = (w, r, "use")
                break
        if bad:
            break
        if first_clamp is not None:
            continue
        seen = set()
        work = [s_ for s_ in f.blocks[bw].succs if s_ is not None]
        while work and not bad:
            b_ = work.pop()
            if b_ in seen or b_ not in f.blocks:
                continue
            seen.add(b_)
            if b_ == f.exit:
                if check_exit:
                    bad = (w, None, "exit")
                    break
                continue
            cpos = min(clamp_pos.get(b_, []), default=None)
            for (i, r) in sorted(reads_at.get(b_, []), key=lambda t: t[0]):
                if cpos is None or i < cpos:
                    bad = (w, r, "use")
                    break
            if cpos is None:
                work.extend(s_ for s_ in f.blocks[b_].succs if s_ is not None)
        if bad:
            break
    if bad:
        w, r, kind = bad
        if kind == "use":
            why = "%s updated at line %d (%s) reaches its use at line %d (%s) on a path that does not pass the clamp" % (
                gname, w.line, w.text(), r.line, (r.parent.parent.text() if r.parent is not None and r.parent.parent is not None else r.text()))
            return (VIOLATED, why, r.line)
        why = "%s updated at line %d (%s) reaches the end of %s on a path that does not pass the clamp: whoever reads it next sees an unclamped value" % (gname, w.line, w.text(), f.short)
        return (VIOLATED, why, w.line)
    return (DISCHARGED, "%d update(s) of %s reach its %d use(s)%s only through the clamp at line %s" % (
        len(writes), gname, len(reads), " and the function's end" if check_exit else "", ", ".join(str(c.line) for c in clamps)), f.line)


def rule_L2(prog, fixture=False):
    res = RuleResult("L2", "wherever the AGC's gain state is updated, every path from the update to a use of the gain or to the end of "
                           "the updating function passes the clamp against max_gain (so the state is clamped whenever it is visible)")
    gain, ceil = L2_STATE
    global _L2_PROG
    _L2_PROG = prog

    def is_agc_field(n, name):
        n = n.strip_all()
        return (n.k == "MemberExpr" and n.decl and n.decl.get("k") == "field" and n.decl.get("n") == name
                and (fixture or "Agc" in (n.decl.get("cls") or "")))
    funcs = []
    for f in sorted(prog.functions.values(), key=lambda f: (f.file, f.line, f.name)):
        if f.get("implicit") or f.kind in ("ctor", "copy_ctor", "move_ctor", "dtor") or f.file.endswith("coverage.cc"):
            continue
        w = False
        for n in f.walk():
            if n.k in ("BinaryOperator", "CompoundAssignOperator") and n.op and n.op.endswith("=") and n.op not in ("==", "!=", "<=", ">=") \
                    and n.c and is_agc_field(n.c[0], gain):
                w = True
                break
        if w:
            funcs.append(f)
    if not funcs:
        res.broken.append("anchor vanished: no function updates the AGC gain state (field '%s' of AgcImpl)" % gain)
        return res
    # helpers that split the work: one only clamps, one only updates and leaves the clamp to whoever calls it
    global _L2_CLAMPERS, _L2_UPDATERS
    _L2_CLAMPERS, _L2_UPDATERS = set(), set()
    from .rules_assume import _is_internal
    for f in funcs:
        cl = _find_clamps(f, gain, ceil)
        cl_ids = {x.id for c in cl for x in c.walk()}
        other = [n for n in f.walk() if n.id not in cl_ids and n.k in ("BinaryOperator", "CompoundAssignOperator") and n.op and n.op.endswith("=")
                 and n.op not in ("==", "!=", "<=", ">=") and n.c and _is_field(n.c[0], gain)]
        f.blocks
        if cl and not other:
            # every path through the helper passes a clamp: the clamp statement dominates the exit
            if any(f.exit in f.blocks and f.block_of(c.role("cond") if c.k == "IfStmt" else c) is not None
                   and f.block_dominates(f.block_of(c.role("cond") if c.k == "IfStmt" else c)[0], f.exit) for c in cl):
                _L2_CLAMPERS.add(f.usr)

    def main_verdict(f):
        carriers = {}
        transfers = set()
        for n in f.walk():
            if n.k == "BinaryOperator" and n.op == "=" and len(n.c) == 2 and _is_field(n.c[0], gain):
                r = n.c[1].strip_all()
                if r.k == "DeclRefExpr" and r.decl and r.decl.get("k") == "local":
                    carriers[r.decl["id"]] = r.decl["n"]
                    transfers.add(n.id)
        verdicts = []
        for vid, vname in sorted(carriers.items()):
            verdicts.append(_l2_core(f, ("local", vid, "the local '%s' that carries the gain" % vname), ceil, False, lambda n: False))
        verdicts.append(_l2_core(f, gain, ceil, True, lambda n: n.id in transfers))
        return verdicts
    # an internal helper that updates the state and leaves it unclamped hands the obligation to its callers: there its call is an
    # update like any other, and a clamp (or a call of a clamping helper) has to follow
    handed_on = {}
    for f in list(funcs):
        vs = main_verdict(f)
        if any(v[0] == VIOLATED for v in vs) and _is_internal(f):
            cs = [c for (c, _) in prog.callers_of(f.usr) if not c.file.endswith("coverage.cc") and c.usr != f.usr]
            if cs:
                _L2_UPDATERS.add(f.usr)
                handed_on[f.usr] = cs
    for u, cs in sorted(handed_on.items()):
        for c in cs:
            if c.usr not in {x.usr for x in funcs}:
                funcs.append(c)
    funcs = [f for f in funcs if f.usr not in _L2_UPDATERS]
    for f in funcs:
        key = "L2:" + fkey(f)
        where = "%s:%d" % (prog.rel(f.file), f.line)
        # locals that carry the gain: written back to the member (agc.gain = g)
        carriers = {}
        transfers = set()
        for n in f.walk():
            if n.k == "BinaryOperator" and n.op == "=" and len(n.c) == 2 and _is_field(n.c[0], gain):
                r = n.c[1].strip_all()
                if r.k == "DeclRefExpr" and r.decl and r.decl.get("k") == "local":
                    carriers[r.decl["id"]] = r.decl["n"]
                    transfers.add(n.id)
        verdicts = []
        for vid, vname in sorted(carriers.items()):
            verdicts.append(_l2_core(f, ("local", vid, "the local '%s' that carries the gain" % vname), ceil, False, lambda n: False))
        verdicts.append(_l2_core(f, gain, ceil, True, lambda n: n.id in transfers))
        bad = [v for v in verdicts if v[0] == VIOLATED]
        if bad:
            res.add(key, VIOLATED, "%s:%d" % (prog.rel(f.file), bad[0][2]), "%s clamps the gain" % f.short, bad[0][1], func=f.name)
        else:
            res.add(key, DISCHARGED, where, "%s clamps the gain" % f.short, "; ".join(v[1] for v in verdicts), func=f.name)
        # first use: the value the function finds in the state (the in-class initialiser on a fresh object) has not been through
        # the clamp unless a constructor applies it; a use that feeds the *output* must therefore lie behind the clamp on every
        # path from the function's entry, not only on the paths from the updates
        ctor_clamps = False
        for g in prog.functions.values():
            if g.kind in ("ctor",) and not g.get("implicit") and ("Agc" in (g.cls or "") or fixture) and _find_clamps(g, gain, ceil):
                ctor_clamps = True
        f.blocks
        early = None
        n_out = 0
        state_vars = [gain] + [("local", vid, vname) for vid, vname in sorted(carriers.items())]
        for var in state_vars:
            clamps = _find_clamps(f, var, ceil)
            cnodes = [(c.role("cond") if c.k == "IfStmt" else c) for c in clamps]
            clamp_ids = {x.id for c in clamps for x in c.walk()}
            for r in f.walk():
                if r.id in clamp_ids or not _is_field(r, var) or r.strip_all().id != r.id:
                    continue
                if not _feeds_output(f, r, state_vars, set(), 0):
                    continue
                n_out += 1
                if not any(c is not None and f.precedes(c, r) for c in cnodes):
                    early = r
                    break
            if early is not None:
                break
        fkey2 = "L2:first-use:" + fkey(f)
        if early is not None and not ctor_clamps:
            st = early
            while st.parent is not None and st.parent.k not in ("CompoundStmt", "ForStmt", "WhileStmt", "IfStmt"):
                st = st.parent
            res.add(fkey2, VIOLATED, "%s:%d" % (prog.rel(f.file), early.line), "%s applies only a clamped gain" % f.short,
                    "`%s` uses the gain state for the output before the clamp has been passed on the way from the function's entry: "
                    "the first sample a fresh object processes is scaled by the unclamped start value (exp of the in-class "
                    "initialiser), whatever max_gain says" % st.text()[:90], func=f.name)
        elif n_out:
            res.add(fkey2, DISCHARGED, where, "%s applies only a clamped gain" % f.short,
                    "%d output use(s) of the gain, each behind the clamp on every path from the entry%s" % (
                        n_out, " (a constructor clamps the start value)" if ctor_clamps and early is not None else ""), func=f.name)
    return res


def _feeds_output(f, r, gain, seen, depth):
    """does the value read at r flow into something other than the gain state itself (an element of a result array, another
    member, the return value)?  Reads that only feed the next value of the gain (the loop error) or a branch condition do not."""
    p = r
    while p.parent is not None:
        par = p.parent
        if par.k == "ReturnStmt":
            return True
        if par.k in ("BinaryOperator", "CompoundAssignOperator") and par.op and par.op.endswith("=") and par.op not in ("==", "!=", "<=", ">=") \
                and len(par.c) == 2 and par.c[1].id == p.id:
            return _target_is_output(f, par.c[0], gain, seen, depth)
        if par.k == "CXXOperatorCallExpr" and par.op and par.op.endswith("=") and par.op not in ("==", "!=", "<=", ">=") and len(par.c) == 3 \
                and par.c[2].id == p.id:
            return _target_is_output(f, par.c[1], gain, seen, depth)
        if par.k == "VarDecl":
            return _target_is_output(f, par, gain, seen, depth)
        if par.k in ("IfStmt", "WhileStmt", "ForStmt", "DoStmt", "CompoundStmt", "ConditionalOperator") and par.k != "ConditionalOperator":
            return False
        p = par
    return False


def _target_is_output(f, t, gain, seen, depth):
    if t.k == "VarDecl":
        vid = t.decl.get("id") if t.decl else None
        if any(isinstance(v, tuple) and v[1] == vid for v in gain):
            return False
    else:
        t0 = t.strip_all()
        if any(_is_field(t0, v) for v in gain):
            return False          # the state itself or a local that carries it: its own uses are looked at separately
        if not (t0.k == "DeclRefExpr" and t0.decl and t0.decl.get("k") == "local"):
            return True           # an element, another member, a reference parameter
        vid = t0.decl.get("id")
    if vid is None or vid in seen or depth > 3:
        return False
    seen.add(vid)
    for x in f.walk():
        if x.k == "DeclRefExpr" and x.decl and x.decl.get("id") == vid and x.id != (t.id if t.k != "VarDecl" else -1):
            par = x.parent
            # skip the defining occurrence on the left of an assignment
            if par is not None and par.k in ("BinaryOperator", "CompoundAssignOperator") and par.op == "=" and par.c[0].strip_all().id == x.id:
                continue
            if _feeds_output(f, x, gain, seen, depth + 1):
                return True
    return False
