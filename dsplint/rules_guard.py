"""G1 PLAN-LEN-GUARD, G2 FOREIGN-INDEX-GUARD (+G2a), G3 SLICE-ASSIGN-GUARD (+G3b), G4 SLICE-COPY-AGREE,
G5 SLICE-RANGE-GUARD, Z1 ZERO-DIVISOR-STATE"""
import re

from .core import RuleResult, DISCHARGED, VIOLATED, UNMODELLED, INHERITS
from .guards import GuardCtx, as_comparison, CMP_OPS, NEG, FLIP
from .ir import atoms_of
from .rules_state import fkey, plan_family

INPUT = ("INPUT",)
THIS = ("this",)
ACCESSOR_NAMES = {"size", "data", "begin", "end", "cbegin", "cend", "empty", "get", "operator->", "operator*", "length",
                  "front", "back", "to_vec", "stride"}
COPY_PRIMS = {"memcpy", "memmove", "memset", "std::memcpy", "std::memmove", "std::memset", "std::copy", "std::copy_n",
              "std::fill", "std::fill_n", "std::copy_backward"}


def _short_name(qn):
    return (qn or "").rsplit("::", 1)[-1]


# =================================================================================================
# G1
class _G1:
    def __init__(self, prog, fam):
        self.prog = prog
        self.fam = fam
        self.memo = {}

    def is_solve(self, f):
        return f is not None and f.cls in self.fam and _short_name(f.qn) == "solve"

    def targets(self, callee_usr, virt):
        us = self.prog.overriders(callee_usr) if virt else {callee_usr}
        return [self.prog.functions[u] for u in us if u in self.prog.functions]

    def analyse(self, f, parm_objs=None):
        """-> dict(own=[(line, text, why)], inherits=[Function], guards=[text]).
        parm_objs (helpers only): which of INPUT / THIS each parameter stands for at the call site"""
        mkey = (f.usr, tuple(sorted((k, tuple(sorted(v))) for k, v in parm_objs.items())) if parm_objs is not None else None)
        if mkey in self.memo:
            r = self.memo[mkey]
            return r if r is not None else {"own": [], "inherits": [], "guards": [], "mixing": 0, "cyclic": True}
        self.memo[mkey] = None   # in progress: assume clean (coinductive)
        ctx = GuardCtx(self.prog, f, group_params=True, parm_objs=parm_objs)
        own, inherits, guards = [], [], []
        mixing = 0
        delegations = []   # (node, [target functions])
        # pass 1: delegation calls to solve instances (needed for the "guarded call precedes" idiom)
        for n in f.walk():
            if not (n.is_call() and n.callee):
                continue
            ce = n.callee
            if _short_name(ce.get("qn")) == "solve" and ce.get("cls") in self.fam:
                tg = self.targets(ce["usr"], ce.get("virt"))
                delegations.append((n, tg))

        def deleg_clean(tg):
            return all(self.clean(t) for t in tg)

        def preceded_by_guarded_delegation(node):
            # an unguarded target is recorded under `inherits`; here only the ordering matters
            for (dn, tg) in delegations:
                if dn.id != node.id and f.precedes(dn, node) and tg:
                    return dn
            return None

        for (dn, tg) in delegations:
            for t in tg:
                if not self.clean(t):
                    inherits.append(t)
            # the callee's length check speaks about the length it is *given*: a delegation that passes the input's storage
            # must pass the input's own length with it (or have related the two itself)
            dargs = dn.call_args()
            ptr_in = [a for a in dargs if a.strip().tc == "ptr" and INPUT in (ctx.objs(a) | ctx.base_objs(a))]
            int_args = [a for a in dargs if a.strip().tc == "int"]
            if ptr_in and int_args and not any(INPUT in ctx.objs(a, ("size", "val")) for a in int_args) \
                    and ctx.relating_guard_at(dn, INPUT, THIS) is None:
                own.append((dn.line, dn.text(), "hands the caller's storage (%s) to %s with a length that does not come from the "
                            "input (%s): the length check over there compares the plan's length with itself, and the input's real "
                            "length is never looked at" % (ptr_in[0].text(), _short_name(dn.callee.get("qn")),
                                                           ", ".join(a.text() for a in int_args))))

        # pass 2: element accesses that mix the input with plan state
        for (node, base, idx) in ctx.subscripts():
            bobjs = ctx.base_objs(base)
            batoms, bconds = ctx.bound_atoms(node, idx)
            iobjs = ctx.objs(idx) | ctx.objs_of_atoms(batoms)
            allo = bobjs | iobjs
            if INPUT in allo and THIS not in allo and _selected_by_plan_state(ctx, node):
                allo = allo | {THIS}      # `case 8: y[7] = x[7]`: how far the input is read is decided by the plan's length
            if not (INPUT in allo and THIS in allo):
                continue
            mixing += 1
            big = None
            if INPUT in bobjs and THIS not in bobjs and THIS in iobjs and INPUT not in iobjs:
                big = INPUT           # x[k] with k bounded by the plan's length: the input must be at least that long
            elif THIS in bobjs and INPUT not in bobjs and INPUT in iobjs and THIS not in iobjs:
                big = THIS            # table[k] with k bounded by the input's length
            else:
                big = "both"
            g = ctx.relating_guard_at(node, INPUT, THIS, big=big)
            if g is not None:
                guards.append(g.cond.text())
                continue
            d = preceded_by_guarded_delegation(node)
            if d is not None:
                continue
            wd = getattr(ctx, "last_wrong_direction", None)
            ctx.last_wrong_direction = None
            own.append((node.line, node.text(), ("element access mixes the caller's input with plan state (%s) and the only live length "
                        "check relating them, %s, bounds the wrong side" % (", ".join(sorted("/".join(o) for o in allo)), wd.cond.text()))
                        if wd is not None else
                        "element access mixes the caller's input with plan state (%s) and no live "
                        "length check relating them dominates it" % ", ".join(sorted("/".join(o) for o in allo))))
        # pass 3: calls that hand input pointers and plan state to a kernel
        for n in f.walk():
            if not (n.is_call() and n.callee):
                continue
            ce = n.callee
            nm = _short_name(ce.get("qn"))
            if nm in ACCESSOR_NAMES:
                continue
            args = n.call_args()
            ptr_args = [a for a in args if a.strip().tc == "ptr"]
            if not ptr_args:
                continue
            objs = set()
            for a in args:
                objs |= ctx.objs(a)
            for a in ptr_args:
                objs |= ctx.base_objs(a)
            obj = n.call_object()
            if obj is not None:
                objs |= ctx.base_objs(obj) | ctx.objs(obj)
            if "cls" in ce and not ce.get("static") and n.k != "CXXConstructExpr" and obj is not None:
                if any(r[0] == "this" for r in ctx.flow.root(obj)):
                    objs.add(THIS)
            if INPUT in objs and THIS not in objs and _selected_by_plan_state(ctx, n):
                objs = objs | {THIS}      # `switch (n_) { case 8: _fft_n8(x, y); }`: a fixed-size kernel chosen by the plan's length
            if not (INPUT in objs and THIS in objs):
                continue
            mixing += 1
            g = ctx.relating_guard_at(n, INPUT, THIS, big="both")
            if g is not None:
                guards.append(g.cond.text())
                continue
            if nm == "solve" and ce.get("cls") in self.fam:
                continue      # delegation, accounted for above
            callee = self.prog.functions.get(ce["usr"])
            if callee is not None and ce.get("repo"):
                pmap = {}
                for i, prm in enumerate(callee.params):
                    if i < len(args):
                        pmap[prm["n"]] = {o for o in (ctx.objs(args[i]) | ctx.base_objs(args[i])) if o in (INPUT, THIS)}
                sub = self.analyse(callee, pmap)
                if not sub["own"]:
                    if sub["guards"]:
                        guards.append("in %s: %s" % (callee.short, sub["guards"][0]))
                    # the helper is clean by itself; what it delegates to is reported at that solve
                    for t in sub["inherits"]:
                        if t not in inherits:
                            inherits.append(t)
                    continue
                why = "; ".join("%s:%d %s" % (self.prog.rel(callee.file), l, t) for (l, t, w) in sub["own"][:3])
                own.append((n.line, n.text(), "hands the input and plan state to %s, which indexes them without a live length "
                            "check (%s)" % (callee.short, why or "delegates to an unguarded solve")))
                continue
            d = preceded_by_guarded_delegation(n)
            if d is not None:
                continue
            own.append((n.line, n.text(), "passes input pointers together with plan-sized data to %s without a live length check"
                        % ce.get("qn")))
        r = {"own": own, "inherits": inherits, "guards": guards, "mixing": mixing}
        self.memo[mkey] = r
        return r

    def clean(self, f):
        r = self.analyse(f)
        return not r["own"] and not r["inherits"]


def _selected_by_plan_state(ctx, node):
    """is the node under a branch / switch whose condition depends on the object's state (and not on the input)?"""
    atoms = ctx.flow._control_atoms(node)
    return any(a[0] == "this" for a in atoms) and not any(a[0] == "parm" for a in atoms)


def _obj(a):
    if a[0] == "parm":
        return INPUT
    if a[0] == "this":
        return THIS
    return None


def _guarded_in_all_callers(prog, f):
    """a solve() of a class that is not declared in a public header (not constructible by users): accept a relating guard at
    every call site instead (input arguments vs the callee object / the caller's own state)"""
    df = f.get("decl_file") or f.file
    if "/include/" in df or "/fixtures/" in df:
        return False
    callers = prog.callers_of(f.usr)
    if not callers:
        return False
    for (caller, call) in callers:
        cn = caller.nodes.get(call["node"])
        if cn is None:
            return False
        cctx = GuardCtx(prog, caller, group_params=True)
        if cctx.relating_guard_at(cn, INPUT, THIS) is None:
            return False
    return True


def rule_G1(prog, fixture=False):
    res = RuleResult("G1", "every solve method of a transform-plan class passes, on every path, a live check relating the input "
                           "length to the plan's own length before it touches plan tables with input-derived bounds or hands the "
                           "input to a kernel – or it only delegates to solve methods that do (virtual: all overriders)")
    fam = plan_family(prog)
    g1 = _G1(prog, fam)
    solves = sorted([f for f in prog.functions.values() if g1.is_solve(f)], key=lambda f: (f.file, f.line, f.name))
    if not solves:
        res.broken.append("anchor vanished: no solve method in any plan class")
        return res
    for f in solves:
        r = g1.analyse(f)
        key = "G1:" + fkey(f)
        where = "%s:%d" % (prog.rel(f.file), f.line)
        what = f.short + "(" + ", ".join(p["t"].replace("dsplib::", "") for p in f.params) + ")"
        if r["own"] and _guarded_in_all_callers(prog, f):
            res.add(key, DISCHARGED, where, what, "class is internal to the library and every caller checks the length before the call", func=f.name)
        elif r["own"]:
            l, t, w = r["own"][0]
            more = "" if len(r["own"]) == 1 else " (+%d more sites)" % (len(r["own"]) - 1)
            res.add(key, VIOLATED, "%s:%d" % (prog.rel(f.file), l), what, "%s: %s%s" % (t, w, more), func=f.name,
                    path=["%d: %s" % (l2, t2) for (l2, t2, w2) in r["own"][:8]])
        elif r["inherits"]:
            names = sorted({t.short for t in r["inherits"]})
            res.add(key, INHERITS, where, what, "delegates to unguarded %s (reported there)" % ", ".join(names), func=f.name)
        elif r["guards"]:
            res.add(key, DISCHARGED, where, what, "live length guard: %s" % r["guards"][0], func=f.name)
        else:
            res.add(key, DISCHARGED, where, what, "pure delegation to guarded solve methods" if r["mixing"] == 0 else "covered",
                    func=f.name)
    res.stats["solve_methods"] = len(solves)
    res.stats["family"] = sorted(fam)
    return res


# =================================================================================================
# G2
def _is_public(prog, f):
    if f.get("anon_ns") or f.get("static_fn") or f.get("lambda") or f.get("implicit"):
        return False
    if f.get("access") in ("private", "protected"):
        return False          # reachable only through the class's own public members: the guard may sit there
    if f.file.endswith("coverage.cc"):
        return False
    return True


def _container_parm_objs(f):
    out = set()
    for p in f.params:
        t = p.get("t", "")
        if p.get("tc") == "ptr" or "base_array<" in t or "std::vector<" in t or "slice_t<" in t or "initializer_list<" in t or "std::array<" in t:
            out.add(("parm", p["n"]))
    return out


def rule_G2(prog, fixture=False, only_compound=False):
    res = RuleResult("G2", "in every public function an unchecked subscript of one operand whose index bound is taken from "
                           "another operand (or whose index is loaded from caller-supplied data) is dominated by a live guard "
                           "relating the two sizes (resp. bounding the index on both sides)")
    fam = plan_family(prog)
    n_funcs = 0
    for f in sorted(prog.functions.values(), key=lambda f: (f.file, f.line, f.name)):
        internal = False
        if not _is_public(prog, f):
            if f.get("lambda") or f.get("implicit") or f.file.endswith("coverage.cc"):
                continue
            internal = True
        if f.cls in fam and _short_name(f.qn) == "solve":
            continue   # G1
        cobjs = _container_parm_objs(f)
        if not cobjs:
            continue
        is_compound = f.cls and f.cls.startswith("dsplib::base_array<") and _short_name(f.qn) in ("operator+=", "operator-=", "operator*=", "operator/=") \
            and f.params and "base_array<" in f.params[0].get("t", "")
        if only_compound and not is_compound:
            continue
        need_throw_here = bool(is_compound) or bool(f.cls and f.cls.startswith("dsplib::base_array<") and _short_name(f.qn) in
                                                    ("operator+", "operator-", "operator*", "operator/") and f.params and "base_array<" in f.params[0].get("t", ""))
        ctx = None
        sites = []
        n_funcs += 1
        ctx = GuardCtx(prog, f, group_params=False)
        has_this_container = f.cls is not None and f.kind in ("method", "conv")
        for (node, base, idx) in ctx.subscripts():
            bobjs = {o for o in ctx.base_objs(base) if o[0] in ("parm", "this")}
            bobjs = {o for o in bobjs if o in cobjs or o == THIS}
            if not bobjs:
                continue
            idx_atoms = ctx.flow.deps(idx)
            batoms, bconds = ctx.bound_atoms(node, idx)
            # (b) index loaded from caller data
            content_src = _index_loaded_from(ctx, idx, cobjs)
            if content_src:
                ok, why = _two_sided_bound(ctx, node, idx, bobjs)
                sites.append((node, "content-index", ok, why, bobjs, content_src))
                continue
            # (a) bound taken from another container
            foreign = set()
            for a in (idx_atoms | batoms):
                if a[2] not in ("size", "val"):
                    continue
                o = ("parm", a[1]) if a[0] == "parm" else (THIS if a[0] == "this" else None)
                if o is None:
                    continue
                if o[0] == "parm" and o not in cobjs:
                    continue
                if o == THIS and a[2] != "size":
                    continue      # scalar member state (orders, counters) is the object's own business
                if o not in bobjs:
                    foreign.add(o)
            if not foreign:
                continue
            missing = []
            found = []
            for fo in sorted(foreign):
                g = None
                for b in bobjs:
                    g = ctx.relating_guard_at(node, b, fo, need_throw=need_throw_here, big=b)
                    if g is not None:
                        break
                if g is None:
                    missing.append(fo)
                else:
                    found.append(g)
            wd = getattr(ctx, "last_wrong_direction", None) if missing else None
            ctx.last_wrong_direction = None
            sites.append((node, "foreign-bound", not missing,
                          ("guard %s" % found[0].cond.text()) if not missing else
                          ("index bound comes from %s and the only live check relating the sizes, %s%s, bounds the wrong side: it "
                           "admits an indexed operand %s that is shorter" % (", ".join("/".join(o) for o in missing), "" if wd.pol else "!",
                                                                            "(" + wd.cond.text() + ")", ", ".join("/".join(o) for o in sorted(bobjs)))
                           if wd is not None else
                           "index bound comes from %s but no live guard relates its size to %s" % (
                               ", ".join("/".join(o) for o in missing), ", ".join("/".join(o) for o in sorted(bobjs)))),
                          bobjs, foreign))
        # running pointers: `const T2* src = rhs.data(); for (T& dst : _vec) { dst += *src; ++src; }` - how far the pointer is
        # read is decided by the loop that advances it, i.e. by whatever bounds that loop
        for node in f.walk():
            if not (node.k == "UnaryOperator" and node.op == "*" and node.c):
                continue
            inner = node.c[0].strip_all()
            if inner.k == "UnaryOperator" and inner.op in ("++", "--") and inner.c:
                inner = inner.c[0].strip_all()
            if not (inner.k == "DeclRefExpr" and inner.decl and inner.decl.get("k") == "local" and inner.tc == "ptr"):
                continue
            pid = inner.decl["id"]
            decls = [v for v in f.walk() if v.k == "VarDecl" and v.decl and v.decl.get("id") == pid and v.c]
            if len(decls) != 1:
                continue
            bobjs = {o for o in (ctx.base_objs(decls[0].c[0]) | ctx.base_objs(inner)) if o[0] in ("parm", "this")}
            bobjs = {o for o in bobjs if o in cobjs or o == THIS}
            if not bobjs:
                continue
            loop = None
            for a in node.ancestors():
                if a.k in ("ForStmt", "WhileStmt", "DoStmt", "CXXForRangeStmt"):
                    adv = any(x.k in ("UnaryOperator", "CompoundAssignOperator") and x.op in ("++", "--", "+=", "-=") and x.c
                              and x.c[0].strip_all().k == "DeclRefExpr" and x.c[0].strip_all().decl.get("id") == pid for x in a.walk())
                    if adv:
                        loop = a
                        break
            if loop is None:
                continue
            atoms = set()
            if loop.k == "CXXForRangeStmt":
                r = loop.role("range")
                if r is not None:
                    atoms = {(a[0], a[1], "size") for a in ctx.flow.deps(r, True)} if hasattr(ctx.flow, "deps") else set()
            else:
                c = loop.role("cond")
                if c is not None:
                    atoms = ctx.flow.deps(c)
            foreign = set()
            for a in atoms:
                if len(a) < 3 or a[2] not in ("size", "val"):
                    continue
                o = ("parm", a[1]) if a[0] == "parm" else (THIS if a[0] == "this" else None)
                if o is None or (o[0] == "parm" and o not in cobjs) or (o == THIS and a[2] != "size"):
                    continue
                if o not in bobjs:
                    foreign.add(o)
            if not foreign:
                continue
            missing, found = [], []
            for fo in sorted(foreign):
                g = None
                for b in bobjs:
                    g = ctx.relating_guard_at(node, b, fo, need_throw=need_throw_here, big=b)
                    if g is not None:
                        break
                (found if g is not None else missing).append(g if g is not None else fo)
            sites.append((node, "foreign-bound", not missing,
                          ("guard %s" % found[0].cond.text()) if not missing else
                          "the pointer is advanced by a loop bounded by %s but no live guard relates its size to %s" % (
                              ", ".join("/".join(o) for o in missing), ", ".join("/".join(o) for o in sorted(bobjs))),
                          bobjs, foreign))
        # two-range algorithms: std::transform(a.begin(), a.end(), b.begin(), out, op) reads b as far as a is long
        for node in f.walk():
            if not (node.k == "CallExpr" and node.callee and node.callee.get("qn") in ("std::transform", "std::equal", "std::inner_product", "std::mismatch")):
                continue
            args = node.call_args()
            qn_ = node.callee.get("qn")
            if (qn_ == "std::transform" and len(args) < 5) or len(args) < 3:
                continue
            aobjs = {o for o in ctx.base_objs(args[0]) if o[0] in ("parm", "this") and (o in cobjs or o == THIS)}
            bobjs = {o for o in ctx.base_objs(args[2]) if o[0] in ("parm", "this") and (o in cobjs or o == THIS)}
            foreign = aobjs - bobjs
            if not aobjs or not bobjs or not foreign:
                continue
            missing, found = [], []
            for fo in sorted(foreign):
                g = None
                for b in bobjs:
                    g = ctx.relating_guard_at(node, b, fo, need_throw=need_throw_here, big=b)
                    if g is not None:
                        break
                (found if g is not None else missing).append(g if g is not None else fo)
            sites.append((node, "foreign-bound", not missing,
                          ("guard %s" % found[0].cond.text()) if not missing else
                          "the second range is read as far as %s is long but no live guard relates its size to %s" % (
                              ", ".join("/".join(o) for o in missing), ", ".join("/".join(o) for o in sorted(bobjs))),
                          bobjs, foreign))
        if is_compound:
            # G2a: "rejected with an exception and left unchanged" - every element write of the left operand is
            # dominated by the throwing size guard
            rhs_obj = ("parm", f.params[0]["n"])
            for n in f.walk():
                if n.k in ("BinaryOperator", "CompoundAssignOperator", "CXXOperatorCallExpr") and n.op and n.op.endswith("=") \
                        and n.op not in ("==", "!=", "<=", ">="):
                    lhs = n.c[0] if n.k != "CXXOperatorCallExpr" else (n.c[1] if len(n.c) > 1 else None)
                    if lhs is None:
                        continue
                    l = lhs.strip_all()
                    if l.k == "DeclRefExpr" and not _ref_into_this(ctx, l):
                        continue
                    if any(r[0] == "this" for r in ctx.flow.root(l)) or _ref_into_this(ctx, l):
                        g = ctx.relating_guard_at(n, THIS, rhs_obj, need_throw=True)
                        sites.append((n, "element-write", g is not None,
                                      ("guard %s" % g.cond.text()) if g is not None else
                                      "element of the left operand is written before / without the throwing size check",
                                      {THIS}, {rhs_obj}))
        if not sites:
            continue
        key = "G2:" + fkey(f)
        where = "%s:%d" % (prog.rel(f.file), f.line)
        bad = [s for s in sites if not s[2]]
        props = ["C05"]
        is_array_arith = bool(f.cls and f.cls.startswith("dsplib::base_array<") and f.params and "base_array<" in f.params[0].get("t", "")
                              and _short_name(f.qn) in ("operator+", "operator-", "operator*", "operator/", "operator+=", "operator-=",
                                                         "operator*=", "operator/="))
        if is_compound or is_array_arith or (f.cls and f.cls.startswith("dsplib::base_array<") and f.params and "base_array<" in f.params[0].get("t", "")):
            props.append("C03")
        if f.cls and (f.cls.startswith("dsplib::LmsFilter<") or f.cls.startswith("dsplib::RlsFilter<")):
            props.append("C12")
        extra = {"props": props, "sites": len(sites)}
        what = f.short + "(" + ", ".join(p["t"].replace("dsplib::", "") for p in f.params) + ")"
        if bad and internal:
            verdict, why2 = _callers_guard(prog, f, bad)
            node = bad[0][0]
            res.add(key, verdict, "%s:%d" % (prog.rel(f.file), node.line), what + " [internal]",
                    "%s: %s; %s" % (node.text(), bad[0][3], why2), func=f.name, extra=extra)
        elif bad:
            node, kind, ok, why, bobjs, fo = bad[0]
            res.add(key, VIOLATED, "%s:%d" % (prog.rel(f.file), node.line), what, "%s: %s%s" % (node.text(), why,
                    "" if len(bad) == 1 else " (+%d more sites)" % (len(bad) - 1)), func=f.name, extra=extra,
                    path=["%d: %s" % (s[0].line, s[0].text()) for s in bad[:8]])
        else:
            node, kind, ok, why, bobjs, fo = sites[0]
            res.add(key, DISCHARGED, where, what, "%d foreign-index site(s), e.g. %s: %s" % (len(sites), node.text(), why),
                    func=f.name, extra=extra)
    res.stats["public_functions_with_container_parameters"] = n_funcs
    return res


def _own_param_name(arg, caller):
    """name of the caller's own (never re-assigned) parameter that is passed as it is, else None"""
    a = arg.strip_all()
    while a.k in ("CXXConstructExpr", "MaterializeTemporaryExpr") and len(a.c) == 1:
        a = a.c[0].strip_all()
    if not (a.k == "DeclRefExpr" and a.decl and a.decl.get("k") == "parm") or a.is_lambda_parm():
        return None
    pid = a.decl.get("id")
    for x in caller.walk():
        if x.k in ("BinaryOperator", "CompoundAssignOperator", "CXXOperatorCallExpr") and x.op and x.op.endswith("=") \
                and x.op not in ("==", "!=", "<=", ">=") and x.c:
            l = (x.c[1] if x.k == "CXXOperatorCallExpr" and len(x.c) > 1 else x.c[0]).strip_all()
            if l.k == "DeclRefExpr" and l.decl and l.decl.get("id") == pid:
                return None
    return a.decl.get("n")


def _ref_into_this(ctx, l):
    """a local reference that denotes an element of the object's own storage: the variable of `for (T& dst : _vec)`, `T& v = _vec[i]`"""
    if not (l.k == "DeclRefExpr" and l.decl and l.decl.get("k") == "local"):
        return False
    dt = l.decl.get("dt") or ""
    if not dt.rstrip().endswith("&"):
        return False
    for v in ctx.fn.walk():
        if v.k == "VarDecl" and v.decl and v.decl.get("id") == l.decl["id"]:
            par = v.parent
            while par is not None and par.k in ("DeclStmt",):
                par = par.parent
            if par is not None and par.k == "CXXForRangeStmt":
                r = par.role("range")
                if r is not None and any(x.k in ("CXXThisExpr",) or (x.k == "MemberExpr" and x.decl and x.decl.get("k") == "field") for x in r.walk()):
                    return True
            if v.c and any(r_[0] == "this" for r_ in ctx.flow.root(v.c[0])):
                return True
    return False


def _callers_guard(prog, f, bad, depth=0, trail=None):
    """internal function: the relating guard may sit in every caller.  A caller without one that passes two of its *own*
    parameters straight through is looked at in the same way (depth 3); when such a chain ends in a public function the two
    operands are two independent arguments of the caller's caller and nothing on the way relates their sizes: violated.
    Everything else (object state, computed arguments) is unmodelled."""
    trail = trail or []
    callers = prog.callers_of(f.usr)
    if not callers:
        return UNMODELLED, "no caller found in the analysed program"
    pidx = {p["n"]: i for i, p in enumerate(f.params)}
    guarded_in = []
    open_public = []
    unmodelled = []
    for (caller, call) in callers:
        if caller.file.endswith("coverage.cc"):
            continue
        cn = caller.nodes.get(call["node"])
        if cn is None:
            return UNMODELLED, "call site in %s not located" % caller.short
        cctx = GuardCtx(prog, caller, group_params=False)
        args = cn.call_args()
        for (node, kind, ok, why, bobjs, foreign) in bad:
            for b in bobjs:
                for fo in foreign:
                    if b[0] != "parm" or fo[0] != "parm" or b[1] not in pidx or fo[1] not in pidx:
                        return UNMODELLED, "guard would have to relate object state; not modelled across calls"
                    ia, ib = pidx[b[1]], pidx[fo[1]]
                    if ia >= len(args) or ib >= len(args):
                        return UNMODELLED, "default arguments at the call in %s" % caller.short
                    oa = cctx.objs(args[ia], ("size", "content", "val")) | cctx.base_objs(args[ia])
                    ob = cctx.objs(args[ib], ("size", "content", "val")) | cctx.base_objs(args[ib])
                    found = False
                    for x in oa:
                        for y in ob:
                            # b is the indexed operand of the kernel: the caller's check must not bound *its* argument from above only
                            if x != y and cctx.relating_guard_at(cn, x, y, big=(x if kind == "foreign-bound" else None)) is not None:
                                found = True
                    if oa and oa == ob and len(oa) == 1:
                        found = True     # the same object is passed for both operands
                    if found:
                        guarded_in.append(caller.short)
                        continue
                    na, nb = _own_param_name(args[ia], caller), _own_param_name(args[ib], caller)
                    if kind != "foreign-bound" or na is None or nb is None or na == nb or depth >= 3 or caller.usr in [t.usr for t in trail]:
                        unmodelled.append("caller %s has no live guard relating the arguments (deeper call chains are not modelled)" % caller.short)
                        continue
                    step = "%s:%d %s" % (prog.rel(caller.file), cn.line, cn.text()[:90])
                    if _is_public(prog, caller):
                        open_public.append((caller, trail + [caller], step, na, nb))
                        continue
                    sub = [(cn, kind, False, why, {("parm", na)}, {("parm", nb)})]
                    v, w = _callers_guard(prog, caller, sub, depth + 1, trail + [caller])
                    if v == VIOLATED:
                        return v, w
                    if v != DISCHARGED:
                        unmodelled.append(w)
                        continue
                    guarded_in.append(caller.short + " (its callers)")
    if open_public:
        caller, tr, step, na, nb = open_public[0]
        return VIOLATED, "public %s passes its arguments '%s' and '%s' down unchecked (%s) and no function on the way relates their sizes" % (
            caller.short, na, nb, " -> ".join(t.short for t in tr[::-1]) + " -> " + f.short)
    if unmodelled:
        return UNMODELLED, unmodelled[0]
    if not guarded_in:
        return UNMODELLED, "no caller found in the analysed program"
    return DISCHARGED, "live guard relating the arguments in every caller (%s)" % ", ".join(sorted(set(guarded_in)))


def _index_loaded_from(ctx, idx, cobjs, depth=0):
    """container parameters with integer elements from which the index value is *loaded* (idxs[i], *it, a local
    initialised that way): the index is then whatever the caller wrote into that container"""
    out = set()
    for x in idx.walk():
        is_load = False
        base = None
        if x.k == "ArraySubscriptExpr" and len(x.c) == 2:
            is_load, base = True, x.c[0]
        elif x.k == "CXXOperatorCallExpr" and x.op in ("[]", "()", "*") and len(x.c) >= 2:
            is_load, base = True, x.c[1]
        elif x.k == "UnaryOperator" and x.op == "*" and x.c:
            is_load, base = True, x.c[0]
        if is_load and x.tc in ("int", "enum"):
            for o in ctx.base_objs(base):
                if o in cobjs:
                    out.add(o)
        if x.k == "DeclRefExpr" and x.decl and x.decl.get("k") == "local" and depth < 2:
            for v in ctx.fn.walk():
                if v.k == "VarDecl" and v.decl["id"] == x.decl["id"] and v.c:
                    out |= _index_loaded_from(ctx, v.c[0], cobjs, depth + 1)
                    # range-for variable over a parameter container
                    p = v.parent
                    if p is not None and p.parent is not None and p.parent.k == "CXXForRangeStmt":
                        fr = p.parent
                        if fr.role("var") is not None and fr.role("var").id == p.id and v.tc in ("int", "enum"):
                            rng = fr.role("range")
                            for y in (rng.walk() if rng is not None else []):
                                if y.k == "VarDecl" and y.c:
                                    for o in ctx.base_objs(y.c[0]):
                                        if o in cobjs:
                                            out.add(o)
    return out


def _two_sided_bound(ctx, node, idx, bobjs):
    """the index (or a local holding it) is compared on both sides: >= 0 and < size(base)"""
    # the index is the value of a validating helper ( _vec[_checked_pos(*it)] ): the call is evaluated before the subscript, what
    # its normal completion establishes about its argument holds for the value it hands back
    extra = []
    from .ir import _through_identity_helper, atoms_of as _atoms_of
    call_ = idx.strip_all()
    while call_.k in ("CXXStaticCastExpr", "CStyleCastExpr", "CXXFunctionalCastExpr") and len(call_.c) == 1:
        call_ = call_.c[0].strip_all()
    if call_.k in ("CallExpr", "CXXMemberCallExpr") and call_.callee and call_.callee.get("repo"):
        inner = _through_identity_helper(call_)
        if inner is not call_:
            for (cn, g_, fs) in ctx.fn._checker_calls():
                if cn.id == call_.id:
                    for (sub, pol_, fact_) in fs:
                        for (c2, p2) in _atoms_of(sub, pol_):
                            extra.append((c2, p2, fact_))
            if extra:
                idx = inner
    ids = ctx.index_vars(idx)
    idx_s = idx.strip_all()
    lower = upper = None
    for (c, pol, fact) in list(ctx.atomic_facts(node)) + extra:
        cmp_ = as_comparison(c)
        if cmp_ is None:
            continue
        lhs, op, rhs = cmp_
        if not pol:
            op = NEG[op]
        # which side is the index?
        def is_index(e):
            e = e.strip_all()
            if e.k == "DeclRefExpr" and e.decl and e.decl.get("id") in ids and idx_s.k == "DeclRefExpr" and idx_s.decl.get("id") == e.decl.get("id"):
                return True
            return e.text() == idx_s.text()
        if is_index(rhs) and not is_index(lhs):
            lhs, rhs, op = rhs, lhs, FLIP[op]
        if not is_index(lhs):
            continue
        # signedness: an unsigned comparison cannot establish a lower bound of a signed value
        r = rhs.strip_all()
        if op in (">=", ">") and r.k == "IntegerLiteral":
            v = int(r.get("v", "1"))
            if (op == ">=" and v >= 0) or (op == ">" and v >= -1):
                lower = c
        if op in ("<", "<="):
            robjs = ctx.objs(rhs, ("size",))
            if robjs & bobjs and op == "<":
                upper = c
    if lower is not None and upper is not None:
        return True, "index bounded by %s and %s" % (lower.text(), upper.text())
    miss = []
    if lower is None:
        miss.append("no live lower bound (negative entries index before the storage)")
    if upper is None:
        miss.append("no live per-element upper bound against the container size")
    return False, "index is loaded from caller data; " + "; ".join(miss)


# =================================================================================================
# Q1 NULL-RESULT: a FILE* that fopen may have returned as null is tested by a live rejecting check before it is used  (C05)
NULLABLE_SOURCES = {"fopen", "std::fopen", "fdopen", "freopen", "tmpfile", "std::tmpfile", "popen"}


def rule_Q1(prog, fixture=False):
    res = RuleResult("Q1", "the result of fopen / tmpfile / popen (null when the file cannot be opened - a condition the caller's "
                           "argument controls) is compared with nullptr by a live, rejecting check before it is handed to any other "
                           "call: fread / fseek / feof on a null FILE* is a crash, not an exception")
    n = 0
    for f in sorted(prog.functions.values(), key=lambda f: (f.file, f.line, f.name)):
        if f.get("implicit") or f.file.endswith("coverage.cc"):
            continue
        rel = prog.rel(f.file)
        if not fixture and not (rel.startswith("lib/") or rel.startswith("include/")):
            continue
        for d in f.walk():
            if not (d.k == "VarDecl" and d.c and d.decl and d.decl.get("k") == "local" and d.tc == "ptr"):
                continue
            init = d.c[0].strip_all()
            if not (init.k == "CallExpr" and init.callee and init.callee.get("qn") in NULLABLE_SOURCES):
                continue
            vid = d.decl["id"]
            n += 1
            key = "Q1:%s:%s" % (fkey(f), d.decl["n"])
            where = "%s:%d" % (rel, d.line)
            what = "%s = %s in %s" % (d.decl["n"], init.text()[:50], f.short)
            f.blocks
            bad = None
            uses = 0
            for u in f.walk():
                if not (u.k == "DeclRefExpr" and u.decl and u.decl.get("id") == vid):
                    continue
                # the use: an argument of a call (not the comparison with nullptr itself, not `!fid`)
                call = None
                for a in u.ancestors():
                    if a.k in ("BinaryOperator",) and a.op in ("==", "!="):
                        break
                    if a.k == "UnaryOperator" and a.op == "!":
                        break
                    if a.k in ("IfStmt", "WhileStmt", "ForStmt", "ConditionalOperator", "CompoundStmt"):
                        break
                    if a.is_call():
                        call = a
                        break
                if call is None:
                    continue
                uses += 1
                ok = False
                for fact in f.facts_at(call):
                    if fact.belief:
                        continue
                    for (c, pol) in atoms_of(fact.cond, fact.pol):
                        if _says_non_null(c, pol, vid):
                            ok = True
                if not ok and bad is None:
                    bad = call
            if bad is not None:
                res.add(key, VIOLATED, "%s:%d" % (rel, bad.line), what,
                        "%s receives the pointer on a path on which no live check has excluded nullptr: for a file that cannot be "
                        "opened this is a null FILE* inside the C library (a crash), where the property asks for an exception"
                        % bad.text()[:70], func=f.name, extra={"props": ["C05"]})
            else:
                res.add(key, DISCHARGED, where, what, "all %d uses lie behind a live check against nullptr" % uses, func=f.name,
                        extra={"props": ["C05"]})
        # results that are not kept in a plain local (handed to a smart pointer, returned, stored in a member): seen, not decided
        for c in f.walk():
            if c.k == "CallExpr" and c.callee and c.callee.get("qn") in NULLABLE_SOURCES:
                par = c.parent
                while par is not None and par.k in ("ImplicitCastExpr", "ParenExpr", "ExprWithCleanups"):
                    par = par.parent
                if par is not None and par.k == "VarDecl" and par.tc == "ptr":
                    continue
                n += 1
                res.add("Q1:%s:@%d" % (fkey(f), c.line), UNMODELLED, "%s:%d" % (rel, c.line), "%s in %s" % (c.text()[:50], f.short),
                        "the result is not kept in a plain local pointer: its null check is not followed", func=f.name, extra={"props": ["C05"]})
    res.stats["nullable_results"] = n
    if not n and not fixture:
        res.broken.append("anchor vanished: no fopen-like call whose result is kept in a local (lib/utils.cpp:_from_file)")
    return res


def _says_non_null(c, pol, vid):
    c0 = c.strip_all()

    def is_var(e):
        e = e.strip_all()
        return e.k == "DeclRefExpr" and e.decl and e.decl.get("id") == vid
    if is_var(c0):
        return bool(pol)                       # if (fid) ...
    cmp_ = as_comparison(c0)
    if cmp_ is None:
        return False
    l, op, r = cmp_
    if not pol:
        op = {"==": "!=", "!=": "=="}.get(op, op)

    def is_null(e):
        e = e.strip_all()
        return e.k in ("CXXNullPtrLiteralExpr", "GNUNullExpr") or (e.k == "IntegerLiteral" and e.get("v") == "0")
    return op == "!=" and ((is_var(l) and is_null(r)) or (is_var(r) and is_null(l)))
