"""G7 AFFINE-BOUND: subscripts whose index is an affine expression of counted-loop variables and whose container has a size
fixed by a live check or by its construction are proved inside the container - or refuted by a concrete small instance  (C02, C05)

Abstract domain: conjunctions of linear inequalities over a handful of integer atoms (container sizes, integer members and
parameters, counted-loop variables, truncated quotients E / k).  Entailment is decided by Fourier-Motzkin elimination over the
rationals (sound for the integers: an infeasible relaxation is infeasible); no path is enumerated and nothing is handed to a
solver - the constraints of one program point are the dominating live checks, the enclosing counted loops and the
construction sizes of local containers."""
import itertools
import re
from fractions import Fraction

from .core import RuleResult, DISCHARGED, VIOLATED, UNMODELLED
from .guards import as_comparison
from .ir import atoms_of, _single_def
from .rules_state import fkey

ACCESSORS = {"operator[]", "operator()", "data", "begin", "end", "cbegin", "cend", "size", "empty", "at", "front", "back", "slice"}
C02_FILES = re.compile(r"lib/fft/ifft\.cpp$|include/dsplib/ifft\.h$")
MAX_CASES = 8


# ---- linear forms ------------------------------------------------------------------------------------
class Lin:
    __slots__ = ("t", "c")

    def __init__(self, terms=None, const=0):
        self.t = {k: Fraction(v) for k, v in (terms or {}).items() if v != 0}
        self.c = Fraction(const)

    def __add__(self, o):
        t = dict(self.t)
        for k, v in o.t.items():
            t[k] = t.get(k, 0) + v
        return Lin(t, self.c + o.c)

    def __sub__(self, o):
        return self + o.scale(-1)

    def scale(self, k):
        return Lin({a: v * k for a, v in self.t.items()}, self.c * k)

    def is_const(self):
        return not self.t

    def atoms(self):
        return set(self.t)

    def key(self):
        return (tuple(sorted(self.t.items())), self.c)

    def __repr__(self):
        parts = []
        for a, v in sorted(self.t.items()):
            parts.append(("%s" % a) if v == 1 else ("-%s" % a if v == -1 else "%s*%s" % (v, a)))
        if self.c != 0 or not parts:
            parts.append(str(self.c))
        return " + ".join(parts).replace("+ -", "- ")


def fm_infeasible(cons):
    """cons: list of Lin meaning lin >= 0.  True iff the system has no rational solution (Fourier-Motzkin)."""
    cons = [c for c in cons]
    for _ in range(40):
        # constant constraints
        nxt = []
        for c in cons:
            if c.is_const():
                if c.c < 0:
                    return True
            else:
                nxt.append(c)
        cons = nxt
        if not cons:
            return False
        # pick the variable with the fewest pos*neg products
        vars_ = set()
        for c in cons:
            vars_ |= c.atoms()
        best, bestcost = None, None
        for v in vars_:
            p = sum(1 for c in cons if c.t.get(v, 0) > 0)
            n = sum(1 for c in cons if c.t.get(v, 0) < 0)
            cost = p * n - p - n
            if bestcost is None or cost < bestcost:
                best, bestcost = v, cost
        v = best
        pos = [c for c in cons if c.t.get(v, 0) > 0]
        neg = [c for c in cons if c.t.get(v, 0) < 0]
        rest = [c for c in cons if c.t.get(v, 0) == 0]
        new = []
        for p in pos:
            for n in neg:
                a, b = p.t[v], -n.t[v]
                comb = p.scale(b) + n.scale(a)
                comb.t.pop(v, None)
                new.append(comb)
        if len(new) > 400:
            return False          # give up: not proven
        seen, cons = set(), []
        for c in rest + new:
            k = c.key()
            if k not in seen:
                seen.add(k)
                cons.append(c)
    return False


# ---- from AST to linear forms -----------------------------------------------------------------------------
class Ctx:
    def __init__(self, prog, f):
        self.prog, self.f = prog, f
        self.divs = {}            # atom -> (Lin numerator, k)
        self.sizes = set()        # atoms that are sizes (>= 0)
        self.size_keys = {}       # size atom -> container key
        self.written = None
        self.loopvars = {}        # decl id -> (atom, lo Lin, hi Lin inclusive) of enclosing counted loops, filled per site
        self.allow_cur = False    # may a variable that the function writes be named by its *current* value ("cur:" atom)?  Only
                                  # for the index expression and the live facts of one program point (facts are killed by writes)

    def _written_ids(self):
        if self.written is None:
            self.written = set()
            for (_, _, k) in self.f._writes():
                self.written.add(k)
        return self.written

    def atom_of_ref(self, x):
        d = x.decl
        if d.get("k") == "parm" and not x.is_lambda_parm():
            return "p:%s" % d["n"]
        return "l:%s#%d" % (d["n"], d["id"])

    def lin(self, n, depth=0):
        """linear form of an integer-valued expression, or None"""
        x = n.strip_all()
        while x.k in ("CXXFunctionalCastExpr", "CXXStaticCastExpr", "CStyleCastExpr", "CXXConstructExpr") and len(x.c) == 1 and x.tc in ("int", "bool", "enum"):
            x = x.c[0].strip_all()
        if x.tc not in ("int", "bool", "enum") and x.k != "IntegerLiteral":
            return None
        k = x.k
        if k == "IntegerLiteral":
            return Lin(const=int(x.get("v")))
        if k == "UnaryOperator" and x.c and x.op in ("-", "+"):
            v = self.lin(x.c[0], depth)
            return None if v is None else (v.scale(-1) if x.op == "-" else v)
        if k == "BinaryOperator" and len(x.c) == 2:
            if x.op in ("+", "-"):
                a, b = self.lin(x.c[0], depth), self.lin(x.c[1], depth)
                if a is None or b is None:
                    return None
                return a + b if x.op == "+" else a - b
            if x.op == "*":
                a, b = self.lin(x.c[0], depth), self.lin(x.c[1], depth)
                if a is None or b is None:
                    return None
                if a.is_const():
                    return b.scale(a.c)
                if b.is_const():
                    return a.scale(b.c)
                return None
            if x.op == "/":
                a, b = self.lin(x.c[0], depth), self.lin(x.c[1], depth)
                if a is None or b is None or not b.is_const() or b.c <= 0 or b.c.denominator != 1:
                    return None
                if a.is_const():
                    q = abs(a.c) // b.c
                    return Lin(const=q if a.c >= 0 else -q)
                name = "(%r / %d)" % (a, int(b.c))
                self.divs[name] = (a, int(b.c))
                return Lin({name: 1})
            return None
        if k == "DeclRefExpr" and x.decl:
            d = x.decl
            if d.get("k") in ("local", "binding", "parm"):
                if d.get("id") in self.loopvars:
                    return Lin({self.loopvars[d["id"]][0]: 1})
                if d.get("k") == "local" and depth < 4:
                    init = _single_def(x)
                    if init is not None and ("id", d["id"]) not in self._written_ids():
                        v = self.lin(init, depth + 1)
                        if v is not None:
                            return v
                if ("id", d.get("id")) in self._written_ids():
                    if self.allow_cur:
                        return Lin({"cur:%s#%d" % (d["n"], d["id"]): 1})
                    return None       # reassigned: its value at this point is not tracked
                return Lin({self.atom_of_ref(x): 1})
            if d.get("k") == "enumc":
                return None
            if d.get("k") == "global" and x.get("cv") is not None:
                return Lin(const=int(x.get("cv")))
            return None
        if k == "MemberExpr" and x.decl and x.decl.get("k") == "field":
            base = x.c[0].strip_all() if x.c else None
            if base is None or base.k == "CXXThisExpr":
                if ("field", x.decl["n"]) in self._written_ids() or ("field", "*") in self._written_ids():
                    if self.allow_cur:
                        return Lin({"cur:this.%s" % x.decl["n"]: 1})
                    return None
                return Lin({"this.%s" % x.decl["n"]: 1})
            return None
        if k == "CXXMemberCallExpr" and x.callee and (x.callee.get("qn") or "").rsplit("::", 1)[-1] == "size" and not x.call_args():
            o = x.call_object()
            a = self.container_atom(o)
            if a is not None:
                return Lin({a: 1})
        if k == "CXXMemberCallExpr" and x.callee and not x.call_args() and depth < 3:
            # a trivial const getter called on *this ( size() { return _vec.size(); } ): its value is the returned expression
            o = x.call_object()
            if (o is None or o.strip_all().k == "CXXThisExpr") and x.callee.get("const") and x.callee.get("cls") == self.f.cls:
                g = self.prog.functions.get(x.callee.get("usr"))
                if g is not None:
                    rets = [r for r in g.walk() if r.k == "ReturnStmt" and r.c]
                    body_nodes = sum(1 for _ in g.walk())
                    if len(rets) == 1 and body_nodes < 25:
                        sub = Ctx(self.prog, g)
                        v = sub.lin(rets[0].c[0], depth + 1)
                        if v is not None and all(a.startswith("this.") or a.startswith("sz:this.") for a in v.atoms()) and not sub.divs:
                            for a in v.atoms():
                                if a.startswith("sz:this."):
                                    fld = a[len("sz:this."):]
                                    if ("field", fld) in self._written_ids() or ("field", "*") in self._written_ids():
                                        return None
                                    self.sizes.add(a)
                                    self.size_keys[a] = ("field", fld, fld, "field")
                                elif ("field", a[len("this."):]) in self._written_ids():
                                    return None
                            return v
            return None
        return None

    def container_key(self, o):
        """identity of a container expression: ('id', decl id) for locals/params, ('field', name) for members of *this"""
        o = o.strip_all() if o is not None else None
        if o is None:
            return None
        if o.k == "DeclRefExpr" and o.decl and o.decl.get("k") in ("local", "parm"):
            return ("id", o.decl["id"], o.decl["n"], o.decl.get("k"))
        if o.k == "MemberExpr" and o.decl and o.decl.get("k") == "field" and (not o.c or o.c[0].strip_all().k == "CXXThisExpr"):
            return ("field", o.decl["n"], o.decl["n"], "field")
        return None

    def container_atom(self, o):
        k = self.container_key(o)
        if k is None:
            return None
        if (k[0] == "id" and ("id", k[1]) in self._written_ids()) or (k[0] == "field" and (("field", k[1]) in self._written_ids() or ("field", "*") in self._written_ids())):
            return None           # resized / reassigned somewhere in the function: its size is not one quantity
        a = "sz:%s" % (k[2] if k[0] == "field" else "%s#%s" % (k[2], k[1]))
        if k[0] == "field":
            a = "sz:this.%s" % k[1]
        self.sizes.add(a)
        self.size_keys[a] = k
        return a

    def div_constraints(self, name, nonneg):
        """constraints (list of Lin >= 0) for q = trunc(E / k) in the case E >= 0 (nonneg) or E <= -1"""
        e, k = self.divs[name]
        q = Lin({name: 1})
        if nonneg:
            return [e, e - q.scale(k), q.scale(k) + Lin(const=k - 1) - e]           # E >= 0, E >= kq, E <= kq + k - 1
        return [e.scale(-1) + Lin(const=-1), q.scale(k) - e, e - q.scale(k) + Lin(const=k - 1)]   # E <= -1, E <= kq, E >= kq - (k-1)


def _cmp_constraints(ctx, c, pol):
    """[[Lin >= 0, ...] alternatives] for the outcome (c == pol); None when not linear.  '!=' gives two alternatives."""
    cmp_ = as_comparison(c)
    one = Lin(const=1)
    if cmp_ is None:
        # a bare flag (`cyclic`, `!cyclic`): a 0/1 quantity, pinned by the outcome
        c0 = c.strip_all()
        if c0.k == "DeclRefExpr" and c0.tc == "bool" and c0.decl and c0.decl.get("k") in ("parm", "local") and not c0.is_lambda_parm():
            b = ctx.lin(c0)
            if b is not None:
                return [[b - one, one - b]] if pol else [[b, b.scale(-1)]]
        return None
    l, op, r = cmp_
    a, b = ctx.lin(l), ctx.lin(r)
    if a is None or b is None:
        return None
    if not pol:
        op = {"<": ">=", "<=": ">", ">": "<=", ">=": "<", "==": "!=", "!=": "=="}[op]
    d = a - b
    if op == "<":
        return [[d.scale(-1) - one]]
    if op == "<=":
        return [[d.scale(-1)]]
    if op == ">":
        return [[d - one]]
    if op == ">=":
        return [[d]]
    if op == "==":
        return [[d, d.scale(-1)]]
    if op == "!=":
        return [[d - one], [d.scale(-1) - one]]
    return None


def _fact_alternatives(ctx, cond, pol, depth=0, strict=False):
    """disjunctive normal form (list of conjunctions of Lin >= 0) of the branch outcome, None if some part is not linear
    (strict=False: a non-linear conjunct is dropped - weaker, still sound for proofs; the caller keeps the fact for the
    concrete evaluation of candidate instances)"""
    n = cond.strip()
    if n.k == "UnaryOperator" and n.op == "!" and n.c:
        return _fact_alternatives(ctx, n.c[0], not pol, depth, strict)
    if n.k == "BinaryOperator" and n.op in ("&&", "||") and len(n.c) == 2 and depth < 4:
        conj = (n.op == "&&") == pol
        a = _fact_alternatives(ctx, n.c[0], pol, depth + 1, strict)
        b = _fact_alternatives(ctx, n.c[1], pol, depth + 1, strict)
        if conj:
            if a is None and b is None:
                return None
            if a is None:
                return None if strict else b
            if b is None:
                return None if strict else a
            return [x + y for x in a for y in b]
        if a is None or b is None:
            return None
        return a + b
    return _cmp_constraints(ctx, n, pol)


def _mentions(cond, names):
    for x in cond.walk():
        if x.k == "DeclRefExpr" and x.decl and x.decl.get("n") in names:
            return True
        if x.k == "MemberExpr" and x.decl and x.decl.get("n") in names:
            return True
    return False


# ---- loops and containers ---------------------------------------------------------------------------------
def _counted_loop(ctx, fs):
    """(decl id, name, lo Lin, hi Lin inclusive) for  for (int i = a; i < B; ++i)  whose body does not write i"""
    init, cond, inc, body = fs.role("init"), fs.role("cond"), fs.role("inc"), fs.role("body")
    if init is None or cond is None or inc is None:
        return None
    vds = [x for x in init.walk() if x.k == "VarDecl"]
    if len(vds) != 1 or not vds[0].c or vds[0].decl.get("k") != "local":
        return None
    vid, vname = vds[0].decl["id"], vds[0].decl["n"]
    i0 = inc.strip_all()
    okinc = False
    if i0.k == "UnaryOperator" and i0.op == "++" and i0.c and i0.c[0].strip_all().k == "DeclRefExpr" and i0.c[0].strip_all().decl.get("id") == vid:
        okinc = True
    if i0.k == "CompoundAssignOperator" and i0.op == "+=" and len(i0.c) == 2 and i0.c[0].strip_all().k == "DeclRefExpr" \
            and i0.c[0].strip_all().decl.get("id") == vid:
        st = ctx.lin(i0.c[1])
        okinc = st is not None and st.is_const() and st.c >= 1
    if not okinc:
        return None
    # the body must not write the variable
    for x in (body.walk() if body is not None else []):
        if x.k in ("BinaryOperator", "CompoundAssignOperator", "UnaryOperator") and x.op and (x.op.endswith("=") or x.op in ("++", "--")) \
                and x.op not in ("==", "!=", "<=", ">=") and x.c:
            t = x.c[0].strip_all()
            if t.k == "DeclRefExpr" and t.decl and t.decl.get("id") == vid:
                return None
    cmp_ = as_comparison(cond)
    if cmp_ is None:
        return None
    l, op, r = cmp_
    l0 = l.strip_all()
    if not (l0.k == "DeclRefExpr" and l0.decl and l0.decl.get("id") == vid) or op not in ("<", "<="):
        return None
    lo = ctx.lin(vds[0].c[0])
    hi = ctx.lin(r)
    if lo is None or hi is None:
        return None
    if op == "<":
        hi = hi - Lin(const=1)
    return (vid, vname, lo, hi)


def _construction_size(ctx, f, key, as_node=False):
    """Lin size of a local container constructed as T v(E) / T v(E, value) / T v = other / T v = f(..) with a size summary,
    if nothing can have resized it afterwards; else None"""
    vid = key[1]
    decl = None
    for x in f.walk():
        if x.k == "VarDecl" and x.decl and x.decl.get("id") == vid:
            decl = x
            break
    if decl is None or not decl.c:
        return None
    ty = decl.decl.get("dt") or decl.type or ""
    if ty.rstrip().endswith("&") or ty.rstrip().endswith("*"):
        return None
    if not ("std::vector<" in ty or "base_array<" in ty):
        return None
    # resized / reassigned later?
    for x in f.walk():
        if x.k == "CXXMemberCallExpr" and x.callee and not x.callee.get("const"):
            o = x.call_object()
            if o is not None and ctx.container_key(o) and ctx.container_key(o)[:2] == key[:2]:
                nm = (x.callee.get("qn") or "").rsplit("::", 1)[-1]
                if nm not in ACCESSORS:
                    return None
        if (x.k == "CXXOperatorCallExpr" and x.op == "=" and len(x.c) == 3 and ctx.container_key(x.c[1]) and ctx.container_key(x.c[1])[:2] == key[:2]):
            return None
        if x.is_call() and x.callee and x.k not in ("CXXMemberCallExpr", "CXXOperatorCallExpr", "CXXConstructExpr", "CXXTemporaryObjectExpr"):
            pm = x.callee.get("pm", [])
            for i, a in enumerate(x.call_args()):
                if i < len(pm) and pm[i] in ("ref", "ptr") and ctx.container_key(a) and ctx.container_key(a)[:2] == key[:2]:
                    return None
    if as_node:
        init = decl.c[0].strip_all()
        while init.k in ("ExprWithCleanups", "MaterializeTemporaryExpr", "CXXBindTemporaryExpr", "CXXFunctionalCastExpr") and len(init.c) == 1:
            init = init.c[0].strip_all()
        if init.k in ("CXXConstructExpr", "CXXTemporaryObjectExpr"):
            args = [a for a in init.c if a.k != "CXXDefaultArgExpr"]
            if 1 <= len(args) <= 2 and args[0].strip().tc == "int" and "initializer_list" not in (init.type or ""):
                return args[0]
        return None
    return _size_of_value(ctx, decl.c[0], 0)


def _size_of_value(ctx, expr, depth):
    """Lin size of a container-valued expression: construction with a size, a copy of a sized container, or a call of a
    repository function whose returned container has a size that is a function of its arguments"""
    init = expr.strip_all()
    while init.k in ("ExprWithCleanups", "MaterializeTemporaryExpr", "CXXBindTemporaryExpr", "CXXFunctionalCastExpr") and init.c:
        init = init.c[0].strip_all()
    if init.k in ("CXXConstructExpr", "CXXTemporaryObjectExpr") and not init.get("list"):
        args = [a for a in init.call_args() if a.k != "CXXDefaultArgExpr"]
        if not args or len(args) > 2:
            return None
        a0 = args[0].strip_all()
        if a0.tc == "int" and len(args) <= 2 and not (len(args) == 2 and args[1].strip_all().tc == "int" and "std::vector<" in (init.type or "")
                                                      and args[0].strip_all().tc == "ptr"):
            return ctx.lin(a0)
        if a0.tc == "ptr" and len(args) == 2 and args[1].strip_all().tc == "int" and "base_array<" in (init.type or ""):
            return ctx.lin(args[1])       # base_array(const T* p, size_t n)
        if len(args) == 1 and a0.tc not in ("int", "ptr", "float"):
            # copy / move / converting construction from another container
            ka = ctx.container_atom(a0)
            if ka is not None and ("std::vector<" in (a0.type or "") or "base_array<" in (a0.type or "")):
                return Lin({ka: 1})
            return _size_of_value(ctx, a0, depth + 1) if depth < 3 else None
        return None
    if init.k in ("DeclRefExpr", "MemberExpr"):
        ka = ctx.container_atom(init)
        if ka is not None and ("std::vector<" in (init.type or "") or "base_array<" in (init.type or "")):
            return Lin({ka: 1})
        return None
    if init.k == "CallExpr" and init.callee and init.callee.get("repo") and depth < 3:
        g = ctx.prog.functions.get(init.callee.get("usr"))
        if g is None:
            return None
        summ = _return_size_summary(ctx.prog, g)
        if summ is None:
            return None
        args = init.call_args()
        out = Lin(const=summ.c)
        for atom, coef in summ.t.items():
            m = re.match(r"(sz:|p:)([A-Za-z_]\w*)(?:#\d+)?$", atom)
            if not m:
                return None
            idx = [i for i, prm in enumerate(g.params) if prm["n"] == m.group(2)]
            if not idx or idx[0] >= len(args):
                return None
            a = args[idx[0]]
            if m.group(1) == "sz:":
                v = _size_of_value(ctx, a, depth + 1)
            else:
                v = ctx.lin(a)
            if v is None:
                return None
            out = out + v.scale(coef)
        return out
    return None


_SUMMARY = {}


def _return_size_summary(prog, g):
    """size of the container g returns as a Lin over 'sz:<container parameter>' and 'p:<integer parameter>' atoms, when every
    return statement returns the same local constructed with such a size"""
    if g.usr in _SUMMARY:
        return _SUMMARY[g.usr]
    _SUMMARY[g.usr] = None
    rets = [r for r in g.walk() if r.k == "ReturnStmt" and r.c and not any(a.k == "LambdaExpr" for a in r.ancestors())]
    if not rets:
        return None
    g.blocks
    c2 = Ctx(prog, g)
    sizes = []
    for r in rets:
        e = r.c[0].strip_all()
        while e.k in ("ExprWithCleanups", "MaterializeTemporaryExpr", "CXXBindTemporaryExpr", "CXXConstructExpr") and len(e.c) == 1 \
                and e.c[0].strip_all().k in ("DeclRefExpr", "ExprWithCleanups", "MaterializeTemporaryExpr", "CXXBindTemporaryExpr", "CXXConstructExpr", "CXXTemporaryObjectExpr"):
            e = e.c[0].strip_all()
        if e.k == "DeclRefExpr" and e.decl and e.decl.get("k") == "local":
            k = c2.container_key(e)
            v = _construction_size(c2, g, k) if k else None
        else:
            v = _size_of_value(c2, e, 1)
        if v is None:
            return None
        sizes.append(v)
    if any(v.key() != sizes[0].key() for v in sizes):
        return None
    v = sizes[0]
    pn = {p["n"] for p in g.params}
    for a in v.atoms():
        m = re.match(r"(sz:|p:)([A-Za-z_]\w*)(?:#\d+)?$", a)
        if not m or m.group(2) not in pn:
            return None
    _SUMMARY[g.usr] = v
    return v


def _enclosing_loops(node):
    out = []
    p = node.parent
    child = node
    while p is not None:
        if p.k == "ForStmt":
            body = p.role("body")
            if body is not None and (child.id == body.id):
                out.append(p)
        child, p = p, p.parent
    return out


# ---- sizes of member containers that every constructor establishes and no member function changes ----------------------
_CLS_INV = {}


def class_size_invariants(prog, cls):
    """{container member: Lin over 'this.<integer member>' atoms} valid whenever a non-constructor member function runs:
    the member is private/protected, only constructors size or assign it, every user-written constructor gives it a size that
    is a function of constructor parameters which are themselves stored unchanged in construction-time constant members"""
    if cls in _CLS_INV:
        return _CLS_INV[cls]
    _CLS_INV[cls] = {}
    cj = prog.classes.get(cls)
    if cj is None:
        return {}
    from .chain import Chain
    from .rules_assume import literal, _is_internal, canon
    ch = Chain(prog, literal, _is_internal, canon)
    members = [g for g in prog.functions.values() if g.cls == cls and not g.get("implicit") and not g.file.endswith("coverage.cc")]
    ctors = [g for g in members if g.kind == "ctor"]
    if any(g.kind in ("copy_ctor", "move_ctor") for g in members) or not ctors:
        return {}
    others = [g for g in members if g.kind not in ("ctor", "dtor")]
    # every declared constructor must be one of the analysed bodies (a defaulted default constructor leaves the members at
    # their in-class initialisers: no size relation is established by it)
    body_usrs = {g.usr for g in ctors}
    for m in cj.get("methods", []):
        if m.get("kind") == "ctor" and not m.get("deleted"):
            sig = m.get("sig", "")
            is_copy_move = re.search(r"\((const )?%s ?&&?\)" % re.escape(cls), sig) is not None
            if is_copy_move and (m.get("implicit") or m.get("defaulted")):
                continue
            if m.get("usr") not in body_usrs or m.get("defaulted"):
                return {}
    out = {}
    for fl in cj.get("fields", []):
        ct = fl["ctype"]
        if not (ct.startswith("std::vector<") or ct.startswith("dsplib::base_array<")) or fl.get("access") == "public":
            continue
        F = fl["name"]
        unstable = False
        for g in others:
            if any(k == ("field", F) or k == ("field", "*") for (_, _, k) in g._writes()):
                unstable = True
                break
            for x in g.walk():
                if x.is_call() and x.callee and x.k not in ("CXXMemberCallExpr", "CXXOperatorCallExpr", "CXXConstructExpr", "CXXTemporaryObjectExpr"):
                    pm = x.callee.get("pm", [])
                    for i, a in enumerate(x.call_args()):
                        a0 = a.strip_all()
                        if i < len(pm) and pm[i] in ("ref", "ptr") and a0.k == "MemberExpr" and a0.decl and a0.decl.get("n") == F:
                            unstable = True
                if x.k == "CXXOperatorCallExpr" and x.op == "=" and len(x.c) == 3:
                    l = x.c[1].strip_all()
                    if l.k == "MemberExpr" and l.decl and l.decl.get("n") == F and (not l.c or l.c[0].strip_all().k == "CXXThisExpr"):
                        unstable = True
        if unstable:
            continue
        sizes = []
        for g in ctors:
            if any(ci.get("delegating") for ci in g.ctor_inits()):
                continue
            g.blocks
            c2 = Ctx(prog, g)
            v = None
            # the last top-level assignment in the body wins over the member initialiser
            body = g.body()
            assigns = []
            for x in (body.walk() if body is not None else []):
                if x.k == "CXXOperatorCallExpr" and x.op == "=" and len(x.c) == 3:
                    l = x.c[1].strip_all()
                    if l.k == "MemberExpr" and l.decl and l.decl.get("n") == F and (not l.c or l.c[0].strip_all().k == "CXXThisExpr"):
                        assigns.append(x)
            if assigns:
                last = assigns[-1]
                top = last
                while top.parent is not None and top.parent.id != body.id:
                    top = top.parent
                if top.k in ("IfStmt", "ForStmt", "WhileStmt", "DoStmt", "SwitchStmt", "CXXForRangeStmt", "CXXTryStmt") or len(assigns) > 1:
                    v = None
                else:
                    v = _size_of_value(c2, last.c[2], 0)
            else:
                for ci in g.ctor_inits():
                    if ci.get("member") == F and ci.c and ci.get("written"):
                        v = _size_of_value(c2, ci.c[0], 0)
            if v is None or c2.divs:
                sizes = None
                break
            # parameters -> the members that store them
            param_field = {}
            for ci in g.ctor_inits():
                m = ci.get("member")
                if m and ci.c:
                    i0 = ci.c[0].strip_all()
                    while i0.k in ("InitListExpr", "CXXConstructExpr", "CXXFunctionalCastExpr") and len(i0.c) == 1:
                        i0 = i0.c[0].strip_all()
                    if i0.k == "DeclRefExpr" and i0.decl and i0.decl.get("k") == "parm":
                        fi = ch.field_inits(cls, m)
                        if fi:
                            param_field["p:" + i0.decl["n"]] = "this." + m
            t2 = {}
            okv = True
            for a, k in v.t.items():
                if a.startswith("this."):
                    fi = ch.field_inits(cls, a[len("this."):])
                    if not fi:
                        okv = False
                    t2[a] = t2.get(a, 0) + k
                elif a in param_field:
                    t2[param_field[a]] = t2.get(param_field[a], 0) + k
                else:
                    okv = False
            if not okv:
                sizes = None
                break
            sizes.append(Lin(t2, v.c))
        if sizes and all(x.key() == sizes[0].key() for x in sizes):
            out[F] = sizes[0]
    _CLS_INV[cls] = out
    return out


def _loop_constraints(ctx, node):
    """registers the counted loops that enclose node in ctx.loopvars; -> their bound constraints"""
    ctx.loopvars = {}
    for fs in _enclosing_loops(node):
        cl = _counted_loop(ctx, fs)
        if cl is None:
            continue
        vid, vname, lo, hi = cl
        ctx.loopvars[vid] = ("i:%s#%d" % (vname, vid), lo, hi)
    cons = []
    for vid, (atom, lo, hi) in ctx.loopvars.items():
        v = Lin({atom: 1})
        cons += [v - lo, hi - v]
    return cons


def _gather(ctx, f, node, base_cons, seed_atoms, size_cache, skip_size_of=None):
    """completes base_cons (in place) with the dominating live facts of `node` and the construction sizes of the local containers
    that become relevant; -> (alternatives from disjunctive facts, facts outside the linear fragment, incompleteness notes,
    the set of atoms connected to seed_atoms)"""
    incomplete = []
    nonlinear = []            # live facts outside the linear fragment: not used in proofs, evaluated on a candidate instance
    alternatives = [[]]
    groups = []
    for fact in f.facts_at(node):
        if fact.belief:
            continue
        ctx.allow_cur = True            # a live fact speaks about the current values of what it mentions (writes kill facts)
        alts = _fact_alternatives(ctx, fact.cond, fact.pol)
        strict_ok = alts is not None and _fact_alternatives(ctx, fact.cond, fact.pol, strict=True) is not None
        ctx.allow_cur = False
        if alts is None:
            nonlinear.append(fact)
            continue
        if not strict_ok:
            nonlinear.append(fact)      # partly linear: the linear part serves the proof, the whole fact is evaluated on instances
        if len(alts) == 1:
            base_cons += alts[0]
        elif len(alternatives) * len(alts) <= MAX_CASES:
            alternatives = [a + b for a in alternatives for b in alts]
            groups.append(set().union(*[c.atoms() for alt in alts for c in alt]))
        else:
            nonlinear.append(fact)
    relevant = set(seed_atoms)
    changed = True
    while changed:
        changed = False
        for g in groups:
            # a disjunctive fact is one statement: when one of its cases speaks about a relevant quantity, the quantities of
            # its other cases decide which case an instance is in (`!cyclic && (idx == 0 || idx == n - 1)`)
            if g & relevant and not g <= relevant:
                relevant |= g
                changed = True
        for c in base_cons + [c for alt in alternatives for c in alt]:
            if c.atoms() & relevant and not c.atoms() <= relevant:
                relevant |= c.atoms()
                changed = True
        for dn in sorted(ctx.divs):
            if dn in relevant and not ctx.divs[dn][0].atoms() <= relevant:
                relevant |= ctx.divs[dn][0].atoms()
                changed = True
    # local containers that appear in the constraints (loop bounds, other sizes): their construction sizes
    added = set()
    for _ in range(4):
        grew = False
        for a in sorted(relevant):
            k2 = ctx.size_keys.get(a)
            if k2 is None or a in added or a == skip_size_of:
                continue
            added.add(a)
            if k2[3] == "field" and f.cls and f.kind not in ("ctor", "copy_ctor", "move_ctor", "dtor"):
                inv = class_size_invariants(ctx.prog, f.cls).get(k2[1])
                if inv is not None and not any(("field", t[len("this."):]) in ctx._written_ids() for t in inv.atoms()):
                    sz2 = Lin({a: 1})
                    base_cons += [sz2 - inv, inv - sz2]
                    if not inv.atoms() <= relevant:
                        relevant |= inv.atoms()
                        grew = True
            if k2[3] == "local":
                if k2 not in size_cache:
                    size_cache[k2] = _construction_size(ctx, f, k2)
                cs2 = size_cache[k2]
                if cs2 is None:
                    incomplete.append("size of %s" % k2[2])
                else:
                    sz2 = Lin({a: 1})
                    base_cons += [sz2 - cs2, cs2 - sz2]
                    if not cs2.atoms() <= relevant:
                        relevant |= cs2.atoms()
                        grew = True
        for c in base_cons + [c for alt in alternatives for c in alt]:
            if c.atoms() & relevant and not c.atoms() <= relevant:
                relevant |= c.atoms()
                grew = True
        for g in groups:
            if g & relevant and not g <= relevant:
                relevant |= g
                grew = True
        for dn in sorted(ctx.divs):
            if dn in relevant and not ctx.divs[dn][0].atoms() <= relevant:
                relevant |= ctx.divs[dn][0].atoms()
                grew = True
        if not grew:
            break
    return alternatives, nonlinear, incomplete, relevant


def _cases(ctx, base_cons, alternatives, relevant):
    """the constraint systems of all feasible cases (disjunctive facts x sign of every truncated quotient's numerator)"""
    divs_here = [d for d in sorted(ctx.divs) if d in relevant]
    if len(divs_here) > 3:
        return None
    size_nonneg = [Lin({a: 1}) for a in ctx.sizes if a in relevant]
    out = []
    for signs in itertools.product([True, False], repeat=len(divs_here)):
        dc = []
        for dn, sg in zip(divs_here, signs):
            dc += ctx.div_constraints(dn, sg)
        for alt in alternatives:
            cons = base_cons + alt + dc + size_nonneg
            if not fm_infeasible(cons):
                out.append(cons)
    return out


# ---- the rule ---------------------------------------------------------------------------------------------------
def rule_G7(prog, fixture=False):
    res = RuleResult("G7", "a subscript v[e] of a std::vector / base_array whose size is fixed at this point (a parameter whose size a "
                           "live check ties to other quantities, or a local constructed with an explicit size and never resized) and "
                           "whose index e is affine in counted-loop variables, sizes, integer members/parameters and truncated quotients "
                           "satisfies 0 <= e < size for every value the dominating checks and loop bounds admit (Fourier-Motzkin over "
                           "the rationals); a failed proof is reported only with a concrete small instance that passes every check")
    n_sites = 0
    n_ptr_sites = 0
    for f in sorted(prog.functions.values(), key=lambda f: (f.file, f.line, f.name)):
        if f.get("implicit") or f.file.endswith("coverage.cc") or f.get("lambda"):
            continue
        rel = prog.rel(f.file)
        if not fixture and not (rel.startswith("lib/") or rel.startswith("include/")):
            continue
        subs = []
        for n in f.walk():
            if n.k == "CXXOperatorCallExpr" and n.op == "[]" and len(n.c) == 3:
                cls = (n.callee or {}).get("cls", "")
                if ("base_array<" in cls or "std::vector<" in cls) and n.c[2].strip().tc in ("int", "bool", "enum"):
                    subs.append((n, n.c[1], n.c[2]))
        ptr_sites = []
        for n in f.walk():
            if any(a.k == "LambdaExpr" for a in n.ancestors()):
                continue
            if (n.k == "ArraySubscriptExpr" and len(n.c) == 2 and n.c[0].strip_all().k == "DeclRefExpr" and n.c[0].strip_all().tc == "ptr") \
                    or (n.k == "UnaryOperator" and n.op == "*" and n.c and n.c[0].strip().tc == "ptr"):
                ptr_sites.append(n)
        if not subs and not ptr_sites:
            continue
        f.blocks
        ctx = Ctx(prog, f)
        size_cache = {}
        idx_no = {}
        # raw pointers into a container (const T* px = x.data() + off; ... px[k]; px += stride): no proof is attempted, but the
        # same concrete refutation as for non-affine indices, with the pointer's offset reconstructed from its initialiser and
        # the counted loops that advance it
        pno = 0
        for site in ptr_sites:
            pctx = Ctx(prog, f)
            pm = _pointer_model(pctx, f, site)
            if pm is None:
                continue
            key = pctx.container_key(pm["cont"])
            pno += 1
            n_ptr_sites += 1
            okey = "G7:%s:*%s[%d]" % (fkey(f), key[2], pno)
            where = "%s:%d" % (rel, site.line)
            what = "%s (pointer into %s) in %s" % (site.text()[:50], key[2], f.short)
            props = ["C05"] + (["C02"] if (C02_FILES.search(rel) or (fixture and "irfft" in f.name.lower())) else [])
            extra = {"props": props}
            wit = _refute_concretely(prog, f, pctx, site, pm["cont"], pm["idx"], size_cache, ptr=pm)
            if wit is not None and _members_constructible(prog, f, pctx, wit[0]):
                okp, how = _params_attainable(prog, f, pctx, wit[0], site)
                if okp and not _opaque_rejecting_call(prog, f, site, set(wit[0]), pctx, wit[0]):
                    res.add(okey, VIOLATED, where, what,
                            "for %s every live check and loop bound at this point holds, and the pointer designates element %s of a "
                            "container of size %s%s" % (", ".join("%s = %s" % (_pretty(a), v) for a, v in sorted(wit[0].items()) if not a.startswith("(")),
                                                      wit[1], wit[2], how), func=f.name, extra=extra)
                    continue
            res.add(okey, UNMODELLED, where, what, "access through a raw pointer: no proof attempted, no small refuting instance", func=f.name, extra=extra)
        for (node, base, idx) in subs:
            key = ctx.container_key(base)
            if key is None:
                continue          # computed containers (results of calls, elements of containers): not decided here
            nm = key[2]
            idx_no[nm] = idx_no.get(nm, 0) + 1
            okey = "G7:%s:%s[%d]" % (fkey(f), nm, idx_no[nm])
            where = "%s:%d" % (rel, node.line)
            what = "%s[%s] in %s" % (nm, idx.text()[:50], f.short)
            props = ["C05"] + (["C02"] if (C02_FILES.search(rel) or (fixture and "irfft" in f.name.lower())) else [])
            extra = {"props": props}
            loop_cons = _loop_constraints(ctx, node)
            ctx.allow_cur = True
            e = ctx.lin(idx)
            ctx.allow_cur = False
            if e is None:
                # outside the affine fragment (products of variables, quotients by variables): no proof is attempted, but a small
                # concrete instance can still refute
                if idx.strip().tc not in ("int",) or any(x.k in ("CXXOperatorCallExpr", "ArraySubscriptExpr") for x in idx.walk()):
                    continue      # loaded from data: G2's business
                wit = _refute_concretely(prog, f, ctx, node, base, idx, size_cache)
                n_sites += 1
                if wit is not None and _members_constructible(prog, f, ctx, wit[0]):
                    okp, how = _params_attainable(prog, f, ctx, wit[0], node)
                    rel_atoms = set(wit[0])
                    if okp and not _opaque_rejecting_call(prog, f, node, rel_atoms, ctx, wit[0]):
                        res.add(okey, VIOLATED, where, what,
                                "for %s every live check and loop bound at this point holds, and the index %s = %s is outside the "
                                "container (size %s)%s" % (", ".join("%s = %s" % (_pretty(a), v) for a, v in sorted(wit[0].items()) if not a.startswith("(")),
                                                          idx.text()[:40], wit[1], wit[2], how), func=f.name, extra=extra)
                        continue
                res.add(okey, UNMODELLED, where, what, "index outside the affine fragment: no proof attempted, no small refuting instance", func=f.name, extra=extra)
                continue
            n_sites += 1
            satom = ctx.container_atom(base)
            if satom is None:
                res.add(okey, UNMODELLED, where, what, "the container is resized or reassigned in this function: its size is not one quantity", func=f.name, extra=extra)
                continue
            size = Lin({satom: 1})
            base_cons = list(loop_cons) + [size]
            incomplete = []
            if key[3] == "local":
                if key not in size_cache:
                    size_cache[key] = _construction_size(ctx, f, key)
                cs = size_cache[key]
                if cs is None:
                    ctx2 = Ctx(prog, f)
                    wit2 = _refute_concretely(prog, f, ctx2, node, base, idx, size_cache)
                    if wit2 is not None and _members_constructible(prog, f, ctx2, wit2[0]):
                        okp, how = _params_attainable(prog, f, ctx2, wit2[0], node)
                        if okp and not _opaque_rejecting_call(prog, f, node, set(wit2[0]), ctx2, wit2[0]):
                            res.add(okey, VIOLATED, where, what,
                                    "for %s every live check and loop condition at this point holds, and the index %s = %s is outside "
                                    "the container (size %s)%s" % (", ".join("%s = %s" % (_pretty(a), v) for a, v in sorted(wit2[0].items()) if not a.startswith("(")),
                                                                   idx.text()[:40], wit2[1], wit2[2], how), func=f.name, extra=extra)
                            continue
                    res.add(okey, UNMODELLED, where, what, "the container's size at this point is not fixed by its construction", func=f.name, extra=extra)
                    continue
                base_cons += [size - cs, cs - size]
            alternatives, nonlinear, more_incomplete, relevant = _gather(ctx, f, node, base_cons, set(e.atoms()) | {satom},
                                                                         size_cache, skip_size_of=(satom if key[3] == "local" else None))
            incomplete += more_incomplete
            def _tied():
                for alt in alternatives:
                    for c in alt + base_cons:
                        if c is size:
                            continue
                        ats = set(c.atoms())
                        for a in list(ats):
                            if a in ctx.divs:
                                ats |= ctx.divs[a][0].atoms()
                        if satom in ats:
                            return True
                return False
            if key[3] in ("parm", "field") and satom not in e.atoms() and not _tied():
                res.add(okey, UNMODELLED, where, what, "no live check ties the size of %s'%s' to anything at this point" % (
                    "the member " if key[3] == "field" else "", nm), func=f.name, extra=extra)
                continue
            cases = _cases(ctx, base_cons, alternatives, relevant)
            if cases is None:
                res.add(okey, UNMODELLED, where, what, "too many truncated quotients for the case split", func=f.name, extra=extra)
                continue
            goals = [("upper", size - e - Lin(const=1)), ("lower", e)]
            failed = None
            for cons in cases:
                for (gname, g) in goals:
                    if not fm_infeasible(cons + [g.scale(-1) - Lin(const=1)]):
                        failed = (gname, g, cons, None)
                        break
                if failed:
                    break
            if failed is None:
                res.add(okey, DISCHARGED, where, what, "0 <= %r < size proved from %d constraint(s) in %d case(s)" % (
                    e, len(base_cons), len(cases)), func=f.name, extra=extra)
                continue
            gname, g, cons, signs = failed
            wit = None
            if not incomplete:
                wit = _witness(ctx, cons, g, e, size, relevant, nonlinear)
                if wit is None and nonlinear:
                    incomplete += [x.cond.text()[:60] for x in nonlinear[:2]]
            if wit is not None and not _members_constructible(prog, f, ctx, wit[0]):
                wit = None
                incomplete.append("the failing instance needs member values no public constructor is known to accept")
            how = ""
            if wit is not None:
                okp, how = _params_attainable(prog, f, ctx, wit[0], node)
                if not okp:
                    wit = None
                    incomplete.append("the failing instance needs argument values that no public entry point is known to pass down")
            if wit is not None and _opaque_rejecting_call(prog, f, node, relevant, ctx, wit[0]):
                wit = None
                incomplete.append("a call that may reject receives one of the quantities before the subscript")
            if wit is not None:
                res.add(okey, VIOLATED, where, what,
                        "for %s every live check and loop bound at this point holds, and the index %s = %s is %s the container "
                        "(size %s)%s" % (", ".join("%s = %s" % (_pretty(a), v) for a, v in sorted(wit[0].items()) if not a.startswith("(")),
                                         idx.text()[:40], wit[1], "past the end of" if gname == "upper" else "before the start of", wit[2], how),
                        func=f.name, extra=extra)
            else:
                # second refutation attempt: run the enclosing loops on small instances (covers induction variables the affine
                # fragment has no bounds for: `for (int i = 0, k = phase; k < arr.size(); ++i, k += n)`)
                if any(_loop_shape(fs) is None for fs in _enclosing_loops(node)):
                    ctx2 = Ctx(prog, f)
                    wit2 = _refute_concretely(prog, f, ctx2, node, base, idx, size_cache)
                    if wit2 is not None and _members_constructible(prog, f, ctx2, wit2[0]):
                        okp, how = _params_attainable(prog, f, ctx2, wit2[0], node)
                        if okp and not _opaque_rejecting_call(prog, f, node, set(wit2[0]), ctx2, wit2[0]):
                            res.add(okey, VIOLATED, where, what,
                                    "for %s every live check and loop condition at this point holds, and the index %s = %s is outside "
                                    "the container (size %s)%s" % (", ".join("%s = %s" % (_pretty(a), v) for a, v in sorted(wit2[0].items()) if not a.startswith("(")),
                                                                   idx.text()[:40], wit2[1], wit2[2], how), func=f.name, extra=extra)
                            continue
                why = "not proved (%s bound)" % gname
                if incomplete:
                    why += "; not refuted either: %s" % "; ".join(incomplete[:2])
                res.add(okey, UNMODELLED, where, what, why, func=f.name, extra=extra)
    res.stats["affine_subscripts"] = n_sites
    res.stats["pointer_accesses_modelled"] = n_ptr_sites
    if not n_sites and not fixture:
        res.broken.append("anchor vanished: no affine subscript of a sized container found")
    return res


def _pure_passthrough(prog, f, depth=0, seen=None):
    """name of a public function from which the internal f is reached with nothing but the caller's own, distinct, never
    re-assigned parameters as arguments and without any live check in front of the call - directly (a public wrapper around a
    template helper) or through up to three internal functions that do the same - else ''.  One such route is enough: the values
    of an instance are then the user's to choose."""
    from .chain import Chain
    from .rules_assume import literal, _is_internal, canon
    seen = seen or set()
    if f.usr in seen or depth > 3:
        return ""
    seen = seen | {f.usr}
    sites = Chain(prog, literal, _is_internal, canon).call_sites(f)
    for (caller, cn, args) in sites:
        if cn is None or caller.get("lambda") or len(args) != len(f.params) or caller.file.endswith("coverage.cc"):
            continue
        ids = set()
        ok = True
        for a in args:
            a0 = a.strip_all()
            while a0.k in ("CXXConstructExpr", "MaterializeTemporaryExpr") and len(a0.c) == 1:
                a0 = a0.c[0].strip_all()
            if not (a0.k == "DeclRefExpr" and a0.decl and a0.decl.get("k") == "parm") or a0.is_lambda_parm() or a0.decl["id"] in ids:
                ok = False
                break
            ids.add(a0.decl["id"])
        if not ok:
            continue
        caller.blocks
        if any(("id", i) in {k for (_, _, k) in caller._writes()} for i in ids):
            continue
        if any(not fact.belief for fact in caller.facts_at(cn)):
            continue
        # ... and no call in front of it that may reject and is given one of the parameters ( _check_welch_args(win, noverlap, nfft); )
        names = set()
        for a in args:
            a0 = a.strip_all()
            while a0.k in ("CXXConstructExpr", "MaterializeTemporaryExpr") and len(a0.c) == 1:
                a0 = a0.c[0].strip_all()
            names.add("p:%s" % a0.decl["n"])
        if _opaque_rejecting_call(prog, caller, cn, names):
            continue
        if not _is_internal(caller):
            return caller.short
        up = _pure_passthrough(prog, caller, depth + 1, seen)
        if up:
            return "%s (through %s)" % (up, caller.short)
    return ""


def _params_attainable(prog, f, ctx, env, node):
    """the function is a public entry point (the caller chooses the arguments), or it is internal and the call-chain prover
    (chain.py) finds a public entry point from which the failing value of its - single, integer - parameter arrives"""
    from .chain import Chain
    from .rules_assume import literal, _is_internal, canon
    from .rules_slice import INF
    if not _is_internal(f) and not f.get("lambda"):
        return (True, "")
    pt = _pure_passthrough(prog, f)
    if pt:
        return (True, "; %s is called by the public %s with its own arguments, unchecked" % (f.short, pt))
    pnames = {p["n"] for p in f.params}
    patoms = [a for a in env if a.startswith("p:") and a[2:] in pnames]
    szatoms = [a for a in env if a.startswith("sz:") and ctx.size_keys.get(a) and ctx.size_keys[a][3] == "parm"]
    if szatoms and not patoms:
        # container parameters of an internal function: every call site hands on a parameter of a public function, or *this of a
        # public class, and establishes nothing about its size
        ch0 = Chain(prog, literal, _is_internal, canon)
        sites = ch0.call_sites(f)
        if not sites:
            return (False, "")
        names = {ctx.size_keys[a][2] for a in szatoms}
        idxs = [i for i, p in enumerate(f.params) if p["n"] in names]
        via = []
        for (caller, cn, args) in sites:
            if cn is None:
                return (False, "")
            for i in idxs:
                if i >= len(args):
                    return (False, "")
                a0 = args[i].strip_all()
                from_this = a0.k == "UnaryOperator" and a0.op == "*" and a0.c and a0.c[0].strip_all().k == "CXXThisExpr"
                from_parm = a0.k == "DeclRefExpr" and a0.decl and a0.decl.get("k") == "parm"
                cls_public = caller.cls and "/include/" in ((prog.classes.get(caller.cls) or {}).get("file") or "")
                if from_this and cls_public:
                    pass
                elif from_parm and not _is_internal(caller) and not caller.get("lambda"):
                    pass
                else:
                    return (False, "")
                # any live fact at the call site that mentions the object's size makes the instance untrusted
                caller.blocks
                for fact in caller.facts_at(cn):
                    if not fact.belief and any(y.k == "CXXMemberCallExpr" and (y.callee or {}).get("qn", "").endswith("size") for y in fact.cond.walk()):
                        return (False, "")
            via.append(caller.short)
        return (True, "; the container arrives unchecked from %s" % ", ".join(sorted(set(via))[:3]))
    if szatoms or len(patoms) != 1:
        return (not patoms and not szatoms, "")
    a = patoms[0]
    v = int(env[a])
    ch = Chain(prog, literal, _is_internal, canon)
    goal = ("cmp", a, (-INF, INF, v))            # "the parameter is never v": refuted by the prover = v is attainable
    r = ch.prove(f, node, goal, [], 0, canon, [])
    return (r[0] == "bad", "; " + r[1].replace(", which is false for it", "").replace("reaches the belief", "is not excluded by") if r[0] == "bad" else "")


def _members_constructible(prog, f, ctx, env):
    """every integer member in the failing instance is a construction-time constant initialised from a constructor parameter of a
    public class, and the constructor's own live checks accept that value"""
    from .chain import Chain
    from .rules_assume import literal, _is_internal, canon
    members = [a for a in env if a.startswith("this.")]
    if not members:
        return True
    if not f.cls:
        return False
    ch = Chain(prog, literal, _is_internal, canon)
    for a in members:
        fld = a[len("this."):]
        inits = ch.field_inits(f.cls, fld)
        if not inits:
            return False
        for (ctor, init) in inits:
            if _is_internal(ctor):
                return False
            i0 = init.strip_all()
            while i0.k in ("InitListExpr", "CXXConstructExpr", "CXXFunctionalCastExpr") and len(i0.c) == 1:
                i0 = i0.c[0].strip_all()
            if not (i0.k == "DeclRefExpr" and i0.decl and i0.decl.get("k") == "parm"):
                # e.g. _n{_even_size(n)}: a function that returns its argument after validating it
                if i0.k == "CallExpr" and len(i0.call_args()) == 1 and i0.call_args()[0].strip_all().k == "DeclRefExpr" \
                        and i0.call_args()[0].strip_all().decl.get("k") == "parm":
                    g = prog.functions.get((i0.callee or {}).get("usr"))
                    if g is None or not _accepts(prog, g, g.params[0]["n"], env[a]):
                        return False
                    i0 = i0.call_args()[0].strip_all()
                else:
                    return False
            if not _accepts(prog, ctor, i0.decl["n"], env[a]):
                return False
    return True


def _accepts(prog, g, pname, value):
    """do all live throwing checks of g that hold at its normal exit and are linear in parameter pname alone admit `value`?
    (a check in another form that mentions the parameter makes the answer 'unknown' = False)"""
    g.blocks
    if not g.blocks:
        return False
    c2 = Ctx(prog, g)
    atom = "p:%s" % pname
    for fact in g.facts_at_block(g.exit, normal_exit=True):
        if fact.belief or not _mentions(fact.cond, {pname}):
            continue
        alts = _fact_alternatives(c2, fact.cond, fact.pol, strict=True)
        if alts is None:
            # n % 2 == 0 and friends: evaluate directly when the condition is over the parameter and constants only
            r = _eval_simple(fact.cond, pname, value)
            if r is None or r != fact.pol:
                return False
            continue
        ok_any = False
        for alt in alts:
            good = True
            for c in alt:
                if not c.atoms() <= {atom}:
                    return False
                if c.c + c.t.get(atom, 0) * value < 0:
                    good = False
            ok_any = ok_any or good
        if not ok_any:
            return False
    return True


def _eval_simple(cond, pname, value):
    """concrete value of a condition over one integer parameter and integer constants (+ - * / % comparisons, && || !)"""
    n = cond.strip_all()
    k = n.k
    try:
        if k == "IntegerLiteral":
            return int(n.get("v"))
        if k == "DeclRefExpr" and n.decl and n.decl.get("k") == "parm" and n.decl.get("n") == pname:
            return value
        if k == "UnaryOperator" and n.c:
            v = _eval_simple(n.c[0], pname, value)
            if v is None:
                return None
            return {"!": (not v), "-": -v, "+": v}.get(n.op)
        if k == "BinaryOperator" and len(n.c) == 2:
            a, b = _eval_simple(n.c[0], pname, value), _eval_simple(n.c[1], pname, value)
            if a is None or b is None:
                return None
            op = n.op
            if op in ("/", "%") and b == 0:
                return None
            return {"+": a + b, "-": a - b, "*": a * b, "/": int(a / b) if op == "/" else None, "%": (abs(a) % abs(b)) * (1 if a >= 0 else -1) if op == "%" else None,
                    "<": a < b, "<=": a <= b, ">": a > b, ">=": a >= b, "==": a == b, "!=": a != b, "&&": bool(a) and bool(b), "||": bool(a) or bool(b)}.get(op)
        if k in ("CXXFunctionalCastExpr", "CXXStaticCastExpr", "CStyleCastExpr", "ParenExpr") and n.c:
            return _eval_simple(n.c[0], pname, value)
    except (ValueError, ZeroDivisionError, TypeError):
        return None
    return None


def _pretty(a):
    a = re.sub(r"#\d+", "", a)
    return a.replace("sz:", "size of ").replace("p:", "").replace("l:", "").replace("i:", "").replace("this.", "")


def _callee_checks_pass(prog, cctx, call, env):
    """every live throwing check of the callee, evaluated on the instance (integer arguments by value, container arguments by
    their size), comes out on its surviving side - and the callee calls nothing that may reject in turn"""
    g = prog.functions.get((call.callee or {}).get("usr"))
    if g is None or g.body() is None:
        return False
    args = call.call_args()
    if len(args) != len(g.params):
        return False
    genv = {}
    for prm, a in zip(g.params, args):
        t = prm.get("t", "")
        if prm.get("tc") in ("int", "bool", "enum") and not prm.get("ref") and not prm.get("ptr"):
            v = _eval_cond(cctx, a, env)
            if v is None:
                return False
            genv["p:%s" % prm["n"]] = v
        elif "base_array<" in t or "std::vector<" in t:
            sa = cctx.container_atom(a)
            if sa is None or sa not in env:
                return False
            genv["sz:%s#%s" % (prm["n"], prm["id"])] = env[sa]
    for c in g.walk():
        if c.is_call() and c.callee and c.callee.get("repo") and c.k not in ("CXXConstructExpr", "CXXTemporaryObjectExpr"):
            h = prog.functions.get(c.callee.get("usr"))
            nm = (c.callee.get("qn") or "").rsplit("::", 1)[-1]
            if nm in ACCESSORS or nm.startswith("operator") or c.callee.get("noexcept"):
                continue
            if h is None or h.throw_blocks():
                return False
    g.blocks
    gctx = Ctx(prog, g)
    for fact in g.facts_at_block(g.exit, normal_exit=True):
        if fact.belief:
            continue
        r = _eval_cond(gctx, fact.cond, genv)
        if r is None or bool(r) != bool(fact.pol):
            return False
    return True


def _opaque_rejecting_call(prog, f, node, relevant, ctx=None, env=None):
    """a call before the subscript that may reject and receives one of the quantities involved: its checks are not part of the
    constraint system, so a witness is not trusted - unless all of the callee's checks can be evaluated on the instance and pass"""
    names = set()
    for a in relevant:
        m = re.match(r"(?:p:|l:|i:|sz:|this\.)([A-Za-z_]\w*)", a)
        if m:
            names.add(m.group(1))
    for c in f.walk():
        if not (c.is_call() and c.callee and c.callee.get("repo")):
            continue
        is_ctor = c.k in ("CXXConstructExpr", "CXXTemporaryObjectExpr")
        if c.callee.get("noexcept") or c.type == "bool":
            continue
        nm = (c.callee.get("qn") or "").rsplit("::", 1)[-1]
        if nm in ACCESSORS or (nm.startswith("operator") and not is_ctor):
            continue
        if not f.precedes(c, node):
            continue
        g = prog.functions.get(c.callee.get("usr"))
        if g is not None and not g.throw_blocks():
            continue
        if is_ctor and g is None:
            continue              # implicit / library constructor
        if any(_mentions(a, names) for a in c.call_args()):
            if ctx is not None and env is not None and _callee_checks_pass(prog, ctx, c, env):
                continue
            return True
    return False


def _eval_cond(ctx, n, env, depth=0):
    """concrete value of an integer / boolean expression under the instance `env` (atom -> value), or None"""
    x = n.strip_all()
    v = ctx.lin(x)
    if v is not None and all(a in env for a in v.t):
        val = v.c
        for a, k in v.t.items():
            val += k * env[a]
        return val
    if x.k == "DeclRefExpr" and x.decl and x.decl.get("k") == "local" and depth < 4:
        d = _single_def(x)
        return _eval_cond(ctx, d, env, depth + 1) if d is not None else None
    if x.k == "UnaryOperator" and x.c:
        a = _eval_cond(ctx, x.c[0], env, depth)
        if a is None:
            return None
        return {"!": int(not a), "-": -a, "+": a}.get(x.op)
    if x.k == "BinaryOperator" and len(x.c) == 2:
        a, b = _eval_cond(ctx, x.c[0], env, depth), _eval_cond(ctx, x.c[1], env, depth)
        op = x.op
        if op == "&&":
            if a is not None and not a or b is not None and not b:
                return 0
            return None if a is None or b is None else 1
        if op == "||":
            if a is not None and a or b is not None and b:
                return 1
            return None if a is None or b is None else 0
        if a is None or b is None:
            return None
        if op in ("/", "%") and b == 0:
            return None
        if op == "/":
            q = abs(a) // abs(b)
            return q if (a >= 0) == (b > 0) else -q
        if op == "%":
            return (abs(a) % abs(b)) * (1 if a >= 0 else -1)
        return {"+": a + b, "-": a - b, "*": a * b, "<": int(a < b), "<=": int(a <= b), ">": int(a > b), ">=": int(a >= b),
                "==": int(a == b), "!=": int(a != b), "&": int(a) & int(b), "|": int(a) | int(b)}.get(op)
    if x.k in ("CXXFunctionalCastExpr", "CXXStaticCastExpr", "CStyleCastExpr", "ParenExpr") and x.c:
        return _eval_cond(ctx, x.c[0], env, depth)
    if x.k == "CallExpr" and x.callee and x.callee.get("qn") in ("dsplib::ispow2", "dsplib::isprime") and len(x.call_args()) == 1:
        # the two number predicates by their definitions (the same reading the call-chain prover uses; rule A2 grounds the part
        # about non-positive arguments in the bodies, exactness on positive arguments is C15's undecided part)
        v = _eval_cond(ctx, x.call_args()[0], env, depth)
        if v is None:
            return None
        v = int(v)
        if x.callee.get("qn") == "dsplib::ispow2":
            return int(v >= 1 and (v & (v - 1)) == 0)
        return int(v >= 2 and all(v % d for d in range(2, int(v ** 0.5) + 1)))
    return None


def _is_finished_counted_loop(ctx, cond):
    p = cond.parent
    while p is not None and p.k not in ("ForStmt",):
        if p.k not in ("ImplicitCastExpr", "ParenExpr"):
            return False
        p = p.parent
    if p is None or p.role("cond") is None:
        return False
    c = p.role("cond")
    if not any(y.id == cond.id for y in c.walk()):
        return False
    saved = ctx.loopvars
    ok = _counted_loop(ctx, p) is not None
    ctx.loopvars = saved
    # the body must not leave the loop early with something still to be said about the instance (break is fine: same exit)
    return ok


def _independent_predicate(ctx, fact, env):
    """the check is ispow2(p) / isprime(p) (or its negation) on one of the function's own, never re-assigned integer parameters
    that no other quantity of the instance depends on: both outcomes are attainable whatever the instance says"""
    c = fact.cond.strip_all()
    while c.k == "UnaryOperator" and c.op == "!" and c.c:
        c = c.c[0].strip_all()
    if not (c.k == "CallExpr" and c.callee and c.callee.get("qn") in ("dsplib::ispow2", "dsplib::isprime") and len(c.call_args()) == 1):
        return False
    a = c.call_args()[0].strip_all()
    if not (a.k == "DeclRefExpr" and a.decl and a.decl.get("k") == "parm") or a.is_lambda_parm():
        return False
    if ("id", a.decl["id"]) in ctx._written_ids():
        return False
    return ("p:%s" % a.decl["n"]) not in env


def _witness(ctx, cons, goal, e, size, relevant, nonlinear=()):
    """small integer values of the base atoms under which all constraints hold and the goal fails"""
    base = set(a for a in relevant if a not in ctx.divs)
    # constraints about other quantities (x.size() == y.size() next to a divisor win.size() - noverlap) are part of the instance
    # too: it has to pass them, so their quantities get values as well
    for c in cons:
        for a in c.atoms():
            if a in ctx.divs:
                base |= {b for b in ctx.divs[a][0].atoms() if b not in ctx.divs}
            else:
                base.add(a)
    base = sorted(base)
    if len(base) > 5:
        return None
    if any(a.startswith("l:") or a.startswith("cur:") for a in base):
        return None           # a local whose value comes from a call or a loop: not a quantity an instance may choose freely
    divs = [d for d in ctx.divs if d in relevant]

    def ev(lin, env):
        v = lin.c
        for a, k in lin.t.items():
            if a not in env:
                return None
            v += k * env[a]
        return v
    rng = range(0, 7) if len(base) >= 4 else range(0, 10)
    for vals in itertools.product(rng, repeat=len(base)):
        env = dict(zip(base, vals))
        ok = True
        for _ in range(3):
            for d in divs:
                if d in env:
                    continue
                num = ev(ctx.divs[d][0], env)
                if num is None:
                    continue
                k = ctx.divs[d][1]
                q = abs(num) // k
                env[d] = q if num >= 0 else -q
        if any(d not in env for d in divs):
            continue
        for c in cons:
            v = ev(c, env)
            if v is None or v < 0:
                ok = False
                break
        if not ok:
            continue
        g = ev(goal, env)
        if g is not None and g < 0:
            good = True
            for fact in nonlinear:
                r = _eval_cond(ctx, fact.cond, env)
                if r is None and not fact.pol and _is_finished_counted_loop(ctx, fact.cond):
                    continue            # "the counted loop in front has run to its end": true of every instance
                if r is None and _independent_predicate(ctx, fact, env):
                    continue            # ispow2(nfft) on a parameter the instance does not speak about: some value passes it
                if r is None or bool(r) != bool(fact.pol):
                    good = False        # the instance does not pass this check, or the check cannot be evaluated
                    break
            if good:
                return (env, ev(e, env), ev(size, env))
    return None



# ---- refutation only: indices outside the affine fragment, evaluated on small instances ----------------------------------------
def _loop_shape(fs):
    """(decl id, name, init node, op, bound node) of  for (int i = a; i < B; ++i)  with an unwritten variable, bounds not inspected"""
    init, cond, inc, body = fs.role("init"), fs.role("cond"), fs.role("inc"), fs.role("body")
    if init is None or cond is None or inc is None:
        return None
    vds = [x for x in init.walk() if x.k == "VarDecl"]
    if len(vds) != 1 or not vds[0].c or vds[0].decl.get("k") != "local":
        return None
    vid, vname = vds[0].decl["id"], vds[0].decl["n"]
    # `++i`, or `++i, px += stride`: further comma parts may advance other things (a pointer), not the variable itself
    parts, stack = [], [inc]
    while stack:
        e = stack.pop().strip_all()
        if e.k == "BinaryOperator" and e.op == "," and len(e.c) == 2:
            stack += [e.c[1], e.c[0]]
        else:
            parts.append(e)

    def is_var(e):
        e = e.strip_all()
        return e.k == "DeclRefExpr" and e.decl and e.decl.get("id") == vid
    own = [e for e in parts if e.k == "UnaryOperator" and e.op == "++" and e.c and is_var(e.c[0])]
    if len(own) != 1:
        return None
    for e in parts:
        if e is own[0]:
            continue
        if e.k in ("UnaryOperator", "BinaryOperator", "CompoundAssignOperator") and e.c and is_var(e.c[0]):
            return None
        if e.k not in ("UnaryOperator", "CompoundAssignOperator"):
            return None
    for x in (body.walk() if body is not None else []):
        if x.k in ("BinaryOperator", "CompoundAssignOperator", "UnaryOperator") and x.op and (x.op.endswith("=") or x.op in ("++", "--")) \
                and x.op not in ("==", "!=", "<=", ">=") and x.c:
            t = x.c[0].strip_all()
            if t.k == "DeclRefExpr" and t.decl and t.decl.get("id") == vid:
                return None
    cmp_ = as_comparison(cond)
    if cmp_ is None:
        return None
    l, op, r = cmp_
    l0 = l.strip_all()
    if not (l0.k == "DeclRefExpr" and l0.decl and l0.decl.get("id") == vid) or op not in ("<", "<="):
        return None
    return (vid, vname, vds[0].c[0], op, r)


def _multi_loop_shape(fs):
    """for (int i = 0, k = phase; <cond>; ++i, k += n): several induction variables declared in the init statement, each advanced
    by one update in the increment and written nowhere in the body.  -> {"vars": [(id, name, init)], "cond": node,
    "steps": [(id, sign, step node or None)]} or None"""
    init, cond, inc, body = fs.role("init"), fs.role("cond"), fs.role("inc"), fs.role("body")
    if init is None or cond is None or inc is None:
        return None
    vds = [x for x in init.walk() if x.k == "VarDecl"]
    if not vds or any(not v.c or not v.decl or v.decl.get("k") != "local" or v.tc not in ("int",) for v in vds):
        return None
    ids = {v.decl["id"] for v in vds}

    def var_of(e):
        e = e.strip_all()
        return e.decl["id"] if e.k == "DeclRefExpr" and e.decl and e.decl.get("id") in ids else None
    steps = []
    parts = []
    stack = [inc]
    while stack:
        e = stack.pop().strip_all()
        if e.k == "BinaryOperator" and e.op == "," and len(e.c) == 2:
            stack += [e.c[1], e.c[0]]
        else:
            parts.append(e)
    for e in parts:
        if e.k == "UnaryOperator" and e.op in ("++", "--") and e.c and var_of(e.c[0]) is not None:
            steps.append((var_of(e.c[0]), 1 if e.op == "++" else -1, None))
        elif e.k == "CompoundAssignOperator" and e.op in ("+=", "-=") and len(e.c) == 2 and var_of(e.c[0]) is not None:
            steps.append((var_of(e.c[0]), 1 if e.op == "+=" else -1, e.c[1]))
        else:
            return None
    if sorted(s_[0] for s_ in steps) != sorted(ids):
        return None
    for x in (body.walk() if body is not None else []):
        if x.k in ("BinaryOperator", "CompoundAssignOperator", "UnaryOperator") and x.op and (x.op.endswith("=") or x.op in ("++", "--")) \
                and x.op not in ("==", "!=", "<=", ">=") and x.c and var_of(x.c[0]) is not None:
            return None
    return {"vars": [(v.decl["id"], v.decl["n"], v.c[0]) for v in vds], "cond": cond, "steps": steps}


def _free_atoms(ctx, nodes):
    """atoms an instance may choose, occurring in the given expressions (through single-definition locals)"""
    out = set()
    bad = False
    stack = list(nodes)
    seen = set()
    while stack:
        n = stack.pop()
        for x in n.walk():
            if x.id in seen:
                continue
            seen.add(x.id)
            if x.k == "DeclRefExpr" and x.decl:
                d = x.decl
                if d.get("id") in ctx.loopvars:
                    continue
                if d.get("k") == "parm" and x.tc in ("int", "bool", "enum"):
                    if ("id", d["id"]) in ctx._written_ids() or x.is_lambda_parm():
                        bad = True
                    out.add("p:%s" % d["n"])
                elif d.get("k") == "local" and x.tc in ("int", "bool", "enum"):
                    init = _single_def(x)
                    if init is None or ("id", d["id"]) in ctx._written_ids():
                        bad = True
                    else:
                        stack.append(init)
            elif x.k == "MemberExpr" and x.decl and x.decl.get("k") == "field" and x.tc in ("int", "bool", "enum") \
                    and (not x.c or x.c[0].strip_all().k == "CXXThisExpr"):
                if ("field", x.decl["n"]) in ctx._written_ids():
                    bad = True
                out.add("this.%s" % x.decl["n"])
            elif x.k == "CXXMemberCallExpr" and x.callee and (x.callee.get("qn") or "").rsplit("::", 1)[-1] == "size":
                a = ctx.container_atom(x.call_object())
                if a is None:
                    bad = True
                else:
                    out.add(a)
    return (None if bad else out)


def _all_loops(node):
    """enclosing for-loops whose body contains the node, innermost first (same notion as _enclosing_loops)"""
    return _enclosing_loops(node)


def _stmt_in_body(loop, node):
    """the direct child statement of the loop's body that contains the node, and its position; (None, None) when the node is not
    inside the body or the body is not a compound statement"""
    body = loop.role("body")
    if body is None:
        return (None, None)
    if body.k != "CompoundStmt":
        return (body, 0) if any(a.id == body.id for a in [node] + list(node.ancestors())) else (None, None)
    chain = [node] + list(node.ancestors())
    for i, st in enumerate(body.c):
        if any(a.id == st.id for a in chain):
            return (st, i)
    return (None, None)


def _pointer_model(ctx, f, site):
    """site: p[e], *p or *(p + e) with p a local pointer whose single initialiser is X.data() or X.data() + E for a container X
    with a known identity, and whose only other writes are `p += s`, `p -= s`, `++p`, `p++` (`--`) standing unconditionally in a
    counted for-loop around the site (its increment, or a top-level statement of its body).
    -> {"cont": X, "off": E or None, "idx": e or None, "updates": [...]} or None"""
    n = site
    idx = None
    if n.k == "ArraySubscriptExpr" and len(n.c) == 2:
        b, idx = n.c[0].strip_all(), n.c[1]
    elif n.k == "UnaryOperator" and n.op == "*" and n.c:
        b = n.c[0].strip_all()
        if b.k == "BinaryOperator" and b.op == "+" and len(b.c) == 2:
            l, r = b.c[0].strip_all(), b.c[1]
            if l.tc == "ptr":
                b, idx = l, r
            else:
                return None
    else:
        return None
    if not (b.k == "DeclRefExpr" and b.decl and b.decl.get("k") == "local" and b.tc == "ptr"):
        return None
    if idx is not None and idx.strip().tc not in ("int", "bool", "enum"):
        return None
    pid = b.decl["id"]
    decls = [v for v in f.walk() if v.k == "VarDecl" and v.decl and v.decl.get("id") == pid]
    if len(decls) != 1 or not decls[0].c:
        return None
    init = decls[0].c[0].strip_all()
    off = None
    if init.k == "BinaryOperator" and init.op == "+" and len(init.c) == 2 and init.c[0].strip_all().tc == "ptr":
        init, off = init.c[0].strip_all(), init.c[1]
        if off.strip().tc not in ("int", "bool", "enum"):
            return None
    if not (init.k == "CXXMemberCallExpr" and (init.callee or {}).get("qn", "").rsplit("::", 1)[-1] == "data" and not init.call_args()):
        return None
    cont = init.call_object()
    if cont is None or ctx.container_key(cont) is None:
        return None
    site_loops = _all_loops(site)
    decl_loops = {l.id for l in _all_loops(decls[0])}
    updates = []
    for x in f.walk():
        tgt = None
        if x.k == "UnaryOperator" and x.op in ("++", "--", "&") and x.c:
            tgt = x.c[0].strip_all()
            sign, step = (1 if x.op == "++" else -1), None
            if x.op == "&" and tgt.k == "DeclRefExpr" and tgt.decl and tgt.decl.get("id") == pid:
                return None
        elif x.k in ("BinaryOperator", "CompoundAssignOperator") and x.op and x.op.endswith("=") and x.op not in ("==", "!=", "<=", ">=") and x.c:
            tgt = x.c[0].strip_all()
            if tgt.k == "DeclRefExpr" and tgt.decl and tgt.decl.get("id") == pid:
                if x.op not in ("+=", "-="):
                    return None
                sign, step = (1 if x.op == "+=" else -1), x.c[1]
        if tgt is None or not (tgt.k == "DeclRefExpr" and tgt.decl and tgt.decl.get("id") == pid) or x.k == "UnaryOperator" and x.op == "&":
            continue
        # the loop the update belongs to
        lp = None
        for a in x.ancestors():
            if a.k in ("WhileStmt", "DoStmt", "CXXForRangeStmt", "LambdaExpr"):
                return None
            if a.k == "ForStmt":
                lp = a
                break
        if lp is None or lp.id not in {l.id for l in site_loops}:
            return None                    # advanced outside the loops around the site: its value there is not a closed form
        inc = lp.role("inc")
        if inc is not None and any(a.id == inc.id for a in [x] + list(x.ancestors())):
            kind, before = "inc", False
        else:
            st, pos = _stmt_in_body(lp, x)
            body = lp.role("body")
            top = st is not None and (st.id == x.id or (st.k in ("ExprWithCleanups",) and st.c and st.c[0].id == x.id))
            if not top or (body is not None and body.k != "CompoundStmt"):
                return None                # conditional or nested update
            sst, spos = _stmt_in_body(lp, site)
            if sst is None:
                return None
            kind, before = "body", pos < spos
        chain = []
        started = False
        for l in site_loops:               # innermost first
            if l.id == lp.id:
                started = True
            if started and l.id not in decl_loops:
                chain.append(l)
        if not chain:
            return None
        updates.append({"sign": sign, "step": step, "chain": chain, "before": before, "node": x})
    return {"cont": cont, "off": off, "idx": idx, "updates": updates, "decl": decls[0]}


def _pointer_offset(ctx, ptr, env):
    """element offset of the pointer from the start of its container at the site, for the loop variable values in env"""
    off = 0
    if ptr["off"] is not None:
        off = _eval_cond(ctx, ptr["off"], env)
        if off is None:
            return None
    for u in ptr["updates"]:
        step = 1
        if u["step"] is not None:
            if any(x.k == "DeclRefExpr" and x.decl and x.decl.get("id") in ctx.loopvars for x in u["step"].walk()):
                return None
            step = _eval_cond(ctx, u["step"], env)
            if step is None:
                return None
        done, mult = 0, 1
        for j, lp in enumerate(u["chain"]):
            vid, vname, init, op, bound = _loop_shape(lp)
            outer_ids = {_loop_shape(m)[0] for m in u["chain"][j + 1:]}
            if any(x.k == "DeclRefExpr" and x.decl and x.decl.get("id") in outer_ids for e in (init, bound) for x in e.walk()):
                return None                # trip count varies with an outer loop: no product formula
            lo, hi = _eval_cond(ctx, init, env), _eval_cond(ctx, bound, env)
            cur = env.get(ctx.loopvars[vid][0]) if vid in ctx.loopvars else None
            if lo is None or hi is None or cur is None:
                return None
            if op == "<":
                hi -= 1
            trip = max(0, hi - lo + 1)
            done += (cur - lo) * mult
            mult *= trip
        if u["before"]:
            done += 1
        off += u["sign"] * step * done
    return off


def _refute_concretely(prog, f, ctx, node, base, idx, size_cache, ptr=None):
    """a small instance (values 0..6 of at most four free quantities, loop variables inside their evaluated bounds) under which
    every dominating live fact evaluates to its required outcome and the index leaves [0, size).  -> (env, index, size) or None"""
    key = ctx.container_key(base)
    if key is None:
        return None
    satom = ctx.container_atom(base)
    if satom is None:
        return None
    loops = []
    ctx.loopvars = {}
    for fs in reversed(_enclosing_loops(node)):
        sh = _loop_shape(fs)
        if sh is None:
            sh = _multi_loop_shape(fs)
            if sh is None:
                return None          # an enclosing loop that is not counted: its variable cannot be enumerated
            loops.append(sh)
            for (vid, vname, _) in sh["vars"]:
                ctx.loopvars[vid] = ("i:%s#%d" % (vname, vid), None, None)
            continue
        loops.append(sh)
        ctx.loopvars[sh[0]] = ("i:%s#%d" % (sh[1], sh[0]), None, None)
    facts = [fa for fa in f.facts_at(node) if not fa.belief]
    exprs = ([idx] if idx is not None else []) + [fa.cond for fa in facts]
    if ptr is not None:
        exprs += [x for x in [ptr["off"]] + [u["step"] for u in ptr["updates"]] if x is not None]
        for u in ptr["updates"]:
            for l in u["chain"]:
                if _loop_shape(l) is None:
                    return None            # the pointer is advanced by a loop that is not a plain counted loop
    size_node = None
    for sh in loops:
        if isinstance(sh, dict):
            exprs += [v[2] for v in sh["vars"]] + [sh["cond"]] + [st[2] for st in sh["steps"] if st[2] is not None]
        else:
            exprs += [sh[2], sh[4]]
    size_expr = None
    if key[3] == "local":
        if key not in size_cache:
            size_cache[key] = _construction_size(ctx, f, key)
        size_expr = size_cache[key]
        if size_expr is None:
            # T r(arr.size() * n): not a linear form, but a plain integer expression that an instance can evaluate
            size_node = _construction_size(ctx, f, key, as_node=True)
            if size_node is None:
                return None
    elif key[3] == "field":
        # the size of a member is object state: only a constructor-established invariant makes it a known quantity
        if not f.cls or f.kind in ("ctor", "copy_ctor", "move_ctor", "dtor"):
            return None
        size_expr = class_size_invariants(prog, f.cls).get(key[1])
        if size_expr is None:
            return None
    free = _free_atoms(ctx, exprs + ([size_node] if size_node is not None else []))
    if free is None:
        return None
    if size_expr is not None:
        free |= {a for a in size_expr.atoms() if not a.startswith("(")}
        if ctx.divs and any(a.startswith("(") for a in size_expr.atoms()):
            for a in size_expr.atoms():
                if a in ctx.divs:
                    free |= {b for b in ctx.divs[a][0].atoms()}
    free.discard(satom) if key[3] in ("local", "field") else free.add(satom)
    # sizes of *other* local / member containers that occur (loop bounds, checks) are not the instance's to choose: they follow
    # from their construction (resp. the class invariant), or the instance says nothing
    derived = {}
    for _ in range(3):
        for a in sorted(free):
            k2 = ctx.size_keys.get(a)
            if a == satom or k2 is None or k2[3] not in ("local", "field") or a in derived:
                continue
            if k2[3] == "local":
                if k2 not in size_cache:
                    size_cache[k2] = _construction_size(ctx, f, k2)
                cs2 = size_cache[k2]
            else:
                cs2 = class_size_invariants(prog, f.cls).get(k2[1]) if (f.cls and f.kind not in ("ctor", "copy_ctor", "move_ctor", "dtor")) else None
            if cs2 is None:
                return None
            derived[a] = cs2
            free |= {b for b in cs2.atoms() if not b.startswith("(")}
            for b in cs2.atoms():
                if b in ctx.divs:
                    free |= set(ctx.divs[b][0].atoms())
    free -= set(derived)
    free = sorted(a for a in free if not a.startswith("i:") and not a.startswith("("))
    if len(free) > 4 or any(a.startswith("l:") for a in free):
        return None

    def lin_val(lin, env):
        v = lin.c
        for a, k in lin.t.items():
            if a in ctx.divs and a not in env:
                num = lin_val(ctx.divs[a][0], env)
                if num is None:
                    return None
                q = abs(num) // ctx.divs[a][1]
                env[a] = q if num >= 0 else -q
            if a not in env:
                return None
            v += k * env[a]
        return v
    # sizes and member values 0..6; plain integer parameters also -2, -1 (a negative phase / offset / count is an argument of the
    # declared type like any other)
    ranges = [([-1, -2] + list(range(0, 6)) if a.startswith("p:") else list(range(0, 7))) for a in free]
    ranges = [sorted(r, key=lambda v: (abs(v), v < 0)) for r in ranges]
    for vals in itertools.product(*ranges):
        env = dict(zip(free, vals))
        bad_inst = False
        for _ in range(2):
            for a, cs2 in derived.items():
                v = lin_val(cs2, env)
                if v is not None:
                    env[a] = v
        for a in derived:
            if env.get(a) is None or env[a] < 0:
                bad_inst = True
        if bad_inst:
            continue
        if size_expr is not None:
            sz = lin_val(size_expr, env)
            if sz is None or sz < 0:
                continue
            env[satom] = sz
        elif size_node is not None:
            sz = _eval_cond(ctx, size_node, env)
            if sz is None or sz < 0:
                continue
            env[satom] = sz
        size = env.get(satom)
        if size is None:
            continue

        def rec(k):
            if k == len(loops):
                for fa in facts:
                    r = _eval_cond(ctx, fa.cond, env)
                    if r is None:
                        if not fa.pol and _is_finished_counted_loop(ctx, fa.cond):
                            continue
                        return None          # not evaluable on this instance (division by zero, call result): no verdict from it
                    if bool(r) != bool(fa.pol):
                        return None
                iv = _eval_cond(ctx, idx, env) if idx is not None else 0
                if iv is None:
                    return None
                if ptr is not None:
                    po = _pointer_offset(ctx, ptr, env)
                    if po is None:
                        return None
                    iv += po
                if iv < 0 or iv >= size:
                    return (dict(env), iv, size)
                return None
            if isinstance(loops[k], dict):
                sh = loops[k]
                cur = {}
                for (vid, vname, init) in sh["vars"]:
                    v0 = _eval_cond(ctx, init, env)
                    if v0 is None:
                        return None
                    cur[vid] = int(v0)
                for _ in range(12):
                    for vid, v in cur.items():
                        env[ctx.loopvars[vid][0]] = v
                    c = _eval_cond(ctx, sh["cond"], env)
                    if c is None:
                        break
                    if not c:
                        break
                    r = rec(k + 1)
                    if r is not None:
                        return r
                    stop = False
                    for (vid, sign, stepn) in sh["steps"]:
                        st = 1 if stepn is None else _eval_cond(ctx, stepn, env)
                        if st is None:
                            stop = True
                            break
                        cur[vid] += sign * int(st)
                    if stop:
                        break
                for vid in cur:
                    env.pop(ctx.loopvars[vid][0], None)
                return None
            vid, vname, init, op, bound = loops[k]
            lo, hi = _eval_cond(ctx, init, env), _eval_cond(ctx, bound, env)
            if lo is None or hi is None:
                return None
            if op == "<":
                hi -= 1
            atom = ctx.loopvars[vid][0]
            for v in range(int(lo), int(min(hi, lo + 9)) + 1):
                env[atom] = v
                r = rec(k + 1)
                if r is not None:
                    return r
            env.pop(atom, None)
            return None
        r = rec(0)
        if r == "abort":
            return None
        if r is not None:
            return r
    return None


# ---- used by Z2: is a computed integer divisor kept away from zero? ----------------------------------------------------------
def nonzero_verdict(prog, f, node, divisor, size_cache=None):
    """-> ('ok' | 'bad' | 'unk', message) for the linear divisor expression at `node`"""
    f.blocks
    ctx = Ctx(prog, f)
    loop_cons = _loop_constraints(ctx, node)
    ctx.allow_cur = True
    d = ctx.lin(divisor)
    ctx.allow_cur = False
    if d is None or d.is_const():
        return ("unk", "divisor outside the linear fragment")
    base_cons = list(loop_cons)
    size_cache = {} if size_cache is None else size_cache
    alternatives, nonlinear, incomplete, relevant = _gather(ctx, f, node, base_cons, set(d.atoms()), size_cache)
    cases = _cases(ctx, base_cons, alternatives, relevant)
    if cases is None:
        return ("unk", "too many truncated quotients")
    one = Lin(const=1)
    failed = None
    for cons in cases:
        pos = fm_infeasible(cons + [d.scale(-1)])            # d <= 0 impossible  =>  d >= 1
        neg = fm_infeasible(cons + [d])                      # d >= 0 impossible  =>  d <= -1
        if not (pos or neg):
            failed = cons
            break
    if failed is None:
        return ("ok", "%r != 0 follows from %d constraint(s) in %d case(s)" % (d, len(base_cons), len(cases)))
    if incomplete:
        return ("unk", "not proved; not refuted either: %s" % "; ".join(incomplete[:2]))
    wit = _witness(ctx, failed + [d], d.scale(-1) - one + one + one - one - one, d, d, relevant, nonlinear) if False else None
    # instance with d == 0: constraints + (d >= 0), goal (-d - ... ) encoded as "d - 1 >= 0 fails" i.e. d <= 0
    wit = _witness(ctx, failed + [d], d - one, d, d, relevant, nonlinear)
    if wit is None:
        return ("unk", "not proved; no small instance found")
    okm = _members_constructible(prog, f, ctx, wit[0])
    if not okm:
        return ("unk", "not proved; the failing instance needs member values no public constructor is known to accept")
    okp, how = _params_attainable(prog, f, ctx, wit[0], node)
    if not okp:
        return ("unk", "not proved; the failing instance needs argument values no public entry point is known to pass down")
    if _opaque_rejecting_call(prog, f, node, relevant, ctx, wit[0]):
        return ("unk", "not proved; a call that may reject receives one of the quantities first")
    return ("bad", "for %s every live check at this point holds and the divisor %s is 0%s" % (
        ", ".join("%s = %s" % (_pretty(a), v) for a, v in sorted(wit[0].items()) if not a.startswith("(")), divisor.text()[:40], how))
