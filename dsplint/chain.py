"""Interprocedural discharge of a belief over the parameters (or the construction-time state) of an internal function.

A *frame* is (function, program point, goal literal, facts carried up from the callee frames).  At each frame the goal is
tested against the live dominating checks of that frame plus the carried facts, closed under a small, frozen lemma table
(interval intersection per term; ispow2(e) => e >= 1 and e % 2^k == 0 once 1 .. 2^(k-1) are excluded; isprime(e) => e >= 2).
If it is not entailed the goal is rewritten along equalities (n == n_), through single-definition locals, from a field that
is only written by the constructors of its class to the constructor's parameters at the constructor's normal exit, or - when it
is over parameters only - substituted into every call site (including std::make_shared<T>(args) -> T::T(args)).

Verdicts: ok (all chains end in an entailing frame), bad (a chain ends at a public entry point whose parameter the user
controls and a concrete integer value satisfies every collected check while falsifying the belief), unk (anything else)."""
import re

from .ir import atoms_of, _single_def
from .rules_slice import _subset, INF

MAX_DEPTH = 7
POW2 = "dsplib::ispow2"
PRIME = "dsplib::isprime"
LOOKUP_METHODS = ("exists", "count", "contains", "find")
PTOK = re.compile(r"p:([A-Za-z_]\w*)")
LTOK = re.compile(r"l:([A-Za-z_]\w*)#(\d+)")
FTOK = re.compile(r"this\.([A-Za-z_]\w*)")


def lit_terms(l):
    if l[0] in ("mod", "cmp"):
        return [l[1]]
    if l[0] == "rel":
        return [l[1], l[3]]
    if l[0] == "pred":
        return [l[2]]
    return [l[1]]


def lit_map(l, fn):
    if l[0] == "mod":
        return ("mod", fn(l[1]), l[2])
    if l[0] == "cmp":
        return ("cmp", fn(l[1]), l[2])
    if l[0] == "rel":
        return ("rel", fn(l[1]), l[2], fn(l[3]))
    if l[0] == "pred":
        return ("pred", l[1], fn(l[2]), l[3])
    return ("opaque", fn(l[1]), l[2])


def lit_text(l):
    if l[0] == "mod":
        return "%s %% %d == 0" % (l[1], l[2])
    if l[0] == "cmp":
        lo, hi, x = l[2]
        if x is not None and lo == -INF and hi == INF:
            return "%s != %d" % (l[1], x)
        if lo == hi:
            return "%s == %d" % (l[1], lo)
        if hi == INF:
            return "%s >= %d" % (l[1], lo)
        if lo == -INF:
            return "%s <= %d" % (l[1], hi)
        return "%d <= %s <= %d" % (lo, l[1], hi)
    if l[0] == "rel":
        lo, hi, x = l[2]
        if lo == hi == 0:
            return "%s == %s" % (l[1], l[3])
        return "%s - %s in [%s, %s]%s" % (l[1], l[3], lo, hi, (" \\ {%d}" % x) if x is not None else "")
    if l[0] == "pred":
        return "%s%s(%s)" % ("" if l[3] else "!", l[1].rsplit("::", 1)[-1], l[2])
    return "%s%s" % ("" if l[2] else "!", l[1])


def _pretty(t):
    return LTOK.sub(lambda m: m.group(1), t.replace("p:", "").replace("this.", ""))


# ---- lemma closure ---------------------------------------------------------------------------------
def _bounds(facts, term):
    lo, hi, excl = -INF, INF, set()
    for l in facts:
        if l[0] == "cmp" and l[1] == term:
            a, b, x = l[2]
            lo, hi = max(lo, a), min(hi, b)
            if x is not None:
                excl.add(x)
        if l[0] == "pred" and l[2] == term and l[3]:
            if l[1] == POW2:
                lo = max(lo, 1)
            if l[1] == PRIME:
                lo = max(lo, 2)
    while lo in excl:
        lo += 1
    while hi in excl:
        hi -= 1
    return lo, hi, excl


def closure(facts):
    facts = list(dict.fromkeys(facts))
    terms = []
    for l in facts:
        if l[0] in ("cmp", "pred", "mod"):
            t = lit_terms(l)[0]
            if t not in terms:
                terms.append(t)
    out = list(facts)
    for t in terms:
        lo, hi, excl = _bounds(facts, t)
        if lo != -INF or hi != INF:
            out.append(("cmp", t, (lo, hi, None)))
        if any(l[0] == "pred" and l[1] == POW2 and l[2] == t and l[3] for l in facts) and lo >= 2 and lo != INF:
            k = 1
            while k < lo:
                k *= 2
            out.append(("mod", t, k))
    return out


def entails(fact, goal):
    if fact[0] == "mod" and goal[0] == "mod":
        return fact[1] == goal[1] and fact[2] % goal[2] == 0
    if fact[0] == "cmp" and goal[0] == "cmp":
        return fact[1] == goal[1] and _subset(fact[2], goal[2])
    if fact[0] == "rel" and goal[0] == "rel":
        if fact[1] == goal[1] and fact[3] == goal[3]:
            return _subset(fact[2], goal[2])
        if fact[1] == goal[3] and fact[3] == goal[1]:
            lo, hi, x = fact[2]
            return _subset((-hi, -lo, (-x if x is not None else None)), goal[2])
        return False
    if fact[0] in ("pred", "opaque") and goal[0] == fact[0]:
        return fact == goal
    return False


def eq_class(facts, term):
    cls = [term]
    changed = True
    while changed:
        changed = False
        for l in facts:
            if l[0] == "rel" and l[2] == (0, 0, None):
                for a, b in ((l[1], l[3]), (l[3], l[1])):
                    if a in cls and b not in cls:
                        cls.append(b)
                        changed = True
    return cls


def goal_variants(facts, goal):
    """the goal itself and its rewritings along equalities established by the facts (single-term goals only)"""
    if goal[0] not in ("mod", "cmp", "pred"):
        return [goal]
    t = lit_terms(goal)[0]
    return [lit_map(goal, lambda s, a=alt: a if s == t else s) for alt in eq_class(facts, t)]


# ---- frames ------------------------------------------------------------------------------------------
class Chain:
    def __init__(self, prog, literal, is_internal, canon=None):
        self.prog = prog
        self._canon = canon
        self.literal = literal            # (cond node, polarity, subst) -> literal tuple
        self.is_internal = is_internal
        self._fwd = None
        self._field_writers = None
        self.frames = 0

    # -- facts of one frame --
    def frame_facts(self, f, site, beliefs=False, helpers=False, depth=0):
        f.blocks
        if site == "exit":
            fs = f.facts_at_block(f.exit, normal_exit=True)
        else:
            fs = f.facts_at(site)
        out = []
        for fact in fs:
            if bool(fact.belief) != beliefs:
                continue
            if site == "exit" and helpers and not fact.rejects_by_throw:
                continue
            for (c, p) in atoms_of(fact.cond, fact.pol):
                out.append(self.literal(c, p, None))
        if helpers and not beliefs:
            out += self.helper_facts(f, site, depth)[0]
        return out

    def helper_facts(self, f, site, depth=0):
        """facts established by a repository function that is called on every path before `site` and cannot complete
        normally unless they hold (a hoisted _check_args(n, n_) helper), in f's terms;
        also -> the calls before `site` that may reject but could not be summarised"""
        out, opaque = [], []
        tb = f.throw_blocks()
        for c in f.walk():
            if not (c.is_call() and c.callee) or c.k in ("CXXConstructExpr", "CXXTemporaryObjectExpr"):
                continue
            if site != "exit" and c.id == site.id:
                continue
            if not c.callee.get("repo"):
                continue
            if site == "exit":
                loc = f.block_of(c)
                if loc is None or f.exit in f.reachable(f.entry, removed_blocks=set(tb) | {loc[0]}):
                    continue
            elif not f.precedes(c, site):
                continue
            h = self.prog.functions.get(c.callee.get("usr"))
            args = c.call_args()
            if h is None or h.usr == f.usr or c.callee.get("virt") or depth > 1:
                if not c.callee.get("noexcept") and c.type != "bool":      # predicates are read where they are tested
                    opaque.append(c)
                continue
            stable = self._stable_params(h) | {p["n"] for p in h.params if p.get("ptr")}
            sigma = {}
            for i, prm in enumerate(h.params):
                if i < len(args):
                    sigma[prm["n"]] = self._canon(args[i], None)
            obj = c.call_object()
            same_obj = obj is None or obj.strip_all().k == "CXXThisExpr"
            lits = self.frame_facts(h, "exit", helpers=True, depth=depth + 1)
            for l in lits:
                ok = True
                for t in lit_terms(l):
                    if LTOK.search(t) or "?" in t or not set(PTOK.findall(t)) <= stable:
                        ok = False
                    if FTOK.search(t) and not (same_obj and h.cls and h.cls == f.cls):
                        ok = False
                if not ok:
                    continue
                l2 = lit_map(l, lambda s_, sigma=sigma: PTOK.sub(lambda m: sigma.get(m.group(1), "?unbound"), s_))
                if not any("?" in t for t in lit_terms(l2)):
                    out.append(l2)
        return out, opaque

    def _stable_params(self, f, site=None):
        """parameters whose value at `site` (default: anywhere in f) is the value the caller passed"""
        if site is None or site == "exit":
            written = {k[1] for (_, _, k) in f._writes() if k[0] == "id"}
        else:
            # only writes that can execute before the site count
            loc = f.block_of(site)
            written = set()
            for (wb, wi, k) in f._writes():
                if k[0] != "id":
                    continue
                if loc is None or (wb == loc[0] and wi < loc[1]) or (wb != loc[0] and loc[0] in f.reachable(wb)) \
                        or (wb == loc[0] and loc[0] in f.reachable_from_succs(wb)):
                    written.add(k[1])
        ok = set()
        for p in f.params:
            if p.get("id") in written:
                continue
            if p.get("ptr"):
                continue
            if p.get("ref") and not p.get("pointee_const"):
                continue
            ok.add(p["n"])
        return ok

    # -- callers, including forwarding factories --
    def _forwarded(self):
        if self._fwd is None:
            self._fwd = {}
            for g in self.prog.functions.values():
                if g.file.endswith("coverage.cc"):
                    continue
                for n in g.walk():
                    if n.k == "CallExpr" and n.callee and n.callee.get("qn") in ("std::make_shared", "std::make_unique"):
                        m = re.match(r"std::make_(?:shared|unique)<([^,>]+)", n.callee.get("name", ""))
                        if m:
                            self._fwd.setdefault(m.group(1).strip(), []).append((g, n))
        return self._fwd

    def call_sites(self, f):
        out = []
        for (caller, call) in self.prog.callers_of(f.usr):
            if caller.file.endswith("coverage.cc"):
                continue
            cn = caller.nodes.get(call["node"])
            if cn is None:
                out.append((caller, None, None))
                continue
            if cn.k == "CallExpr" and cn.callee and cn.callee.get("qn") in ("std::make_shared", "std::make_unique"):
                continue
            out.append((caller, cn, cn.call_args()))
        if f.kind == "ctor" and f.cls:
            for (g, n) in self._forwarded().get(f.cls, []):
                args = n.call_args()
                if len(args) == len(f.params):
                    out.append((g, n, args))
        return out

    # -- fields written only while the object is constructed --
    def field_inits(self, cls, field):
        """[(ctor, init expr node)] when `field` of `cls` is written by constructor initialisers only, else None"""
        if self._field_writers is None:
            fw = {}
            for g in self.prog.functions.values():
                for (_, _, k) in g._writes():
                    if k[0] == "field" and g.cls:
                        fw.setdefault((g.cls, k[1]), []).append(g)
                for n in g.walk():
                    # writes through another object of the class (o.n_ = ..), address-of, non-const reference binding
                    if n.k == "MemberExpr" and n.decl and n.decl.get("k") == "field" and n.c and n.c[0].strip_all().k != "CXXThisExpr":
                        p = n.parent
                        if p is not None and ((p.k in ("BinaryOperator", "CompoundAssignOperator") and p.op and p.op.endswith("=")
                                               and p.op not in ("==", "!=", "<=", ">=") and p.c and p.c[0].id == n.id)
                                              or (p.k == "UnaryOperator" and p.op in ("++", "--", "&"))):
                            fw.setdefault((n.decl.get("cls"), n.decl["n"]), []).append(g)
            self._field_writers = fw
        if self._field_writers.get((cls, field)):
            return None
        c = self.prog.classes.get(cls)
        if c is None:
            return None
        fj = [x for x in c.get("fields", []) if x.get("name") == field]
        if not fj or fj[0].get("access") == "public" or fj[0].get("mutable"):
            return None
        ctors = [g for g in self.prog.functions.values() if g.cls == cls and g.kind in ("ctor", "copy_ctor", "move_ctor")]
        user = [g for g in ctors if not g.get("implicit")]
        if any(g.kind != "ctor" for g in user):
            return None          # user-written copy/move constructor: not modelled
        out = []
        for g in user:
            if g.params and len(g.params) == 1 and cls.rsplit("::", 1)[-1] in (g.params[0].get("t") or "") and g.params[0].get("ref"):
                return None      # user-written copy/move constructor: not modelled
            if any(r.get("delegating") for r in g.ctor_inits()):
                continue         # delegates to another constructor of the class, which is in this list itself
            inits = [r for r in g.ctor_inits() if r.get("member") == field]
            if len(inits) != 1 or not inits[0].c:
                return None
            if inits[0].get("delegating"):
                return None
            out.append((g, inits[0].c[0]))
        return out or None

    # -- the prover --
    def prove(self, f, site, goal, carried, depth, canon, trail, tainted=False):
        """-> (status, message, trail)"""
        self.frames += 1
        here = "%s @ %s:%s" % (f.short, self.prog.rel(f.file), site.line if site != "exit" else "exit")
        local = self.frame_facts(f, site, helpers=True)
        ctor_eq, own_fields = set(), set()
        if site == "exit" and f.kind == "ctor":
            # at the end of a constructor every member with a plain initialiser equals that initialiser (unless written again)
            rewritten = {k[1] for (_, _, k) in f._writes() if k[0] == "field"}
            for ci in f.ctor_inits():
                m = ci.get("member")
                if m and ci.c and m not in rewritten:
                    e = canon(ci.c[0], None)
                    if "?" not in e and not LTOK.search(e) and set(PTOK.findall(e)) <= self._stable_params(f):
                        local.append(("rel", "this." + m, (0, 0, None), e))
                        ctor_eq.add(("rel", "this." + m, (0, 0, None), e))
                        own_fields.add(m)
        facts = closure(list(carried) + local)
        opaque = self.helper_facts(f, site)[1]
        shown = sorted({lit_text(l) for l in facts if any(t in lit_terms(goal) or any(t in x for x in lit_terms(goal)) for t in lit_terms(l))})
        trail = trail + ["%s: goal %s; facts {%s}" % (here, lit_text(goal), "; ".join(shown[:8]))]
        # equivalent restatements of the goal, each with the facts restated for it
        if goal[0] in ("mod", "cmp", "pred"):
            cls = eq_class(facts, lit_terms(goal)[0])
            variants = [(lit_map(goal, lambda s_, a=alt: a), _restated(facts, cls, alt)) for alt in cls]
        else:
            variants = [(goal, facts)]
        toks = set()
        for (g, _) in variants:
            for t in lit_terms(g):
                toks |= set(re.findall(r"p:\w+|this\.\w+|l:\w+#\d+", t))
        for c in opaque:
            if any(tok in canon(a, None) for a in c.call_args() for tok in toks):
                tainted = True        # a call that may reject receives the value and could not be summarised
        for (g, F) in variants:
            if any(entails(x, g) for x in F):
                return ("ok", "entailed in %s by {%s}" % (f.short, "; ".join(sorted({lit_text(x) for x in F if entails(x, g)}))), trail)
        if depth >= MAX_DEPTH:
            return ("unk", "call chain longer than %d frames" % MAX_DEPTH, trail)
        # single-definition locals
        expanded = []
        for (g, F) in variants:
            r = self._expand_locals(f, g, canon)
            if r is not None and r[0] != g:
                g2, repl = r

                def ap(s_, repl=repl):
                    for (tok, e) in repl:
                        s_ = s_.replace(tok, e)
                    return s_
                F2 = closure([lit_map(l, ap) for l in F] + list(F))
                expanded.append((g2, F2))
        for (g, F) in expanded:
            if any(entails(x, g) for x in F):
                return ("ok", "entailed in %s after local look-through" % f.short, trail)
        variants = variants + expanded
        stable = self._stable_params(f, site)
        results = []
        # field -> constructor
        for (g, F) in variants:
            ts = lit_terms(g)
            fields = set()
            for t in ts:
                fields |= set(FTOK.findall(t))
            rest = [FTOK.sub("", t) for t in ts]
            if fields and f.cls and not any(PTOK.search(r) or LTOK.search(r) or "?" in r for r in rest) and len(fields) == 1:
                fld = next(iter(fields))
                if fld in own_fields:
                    continue          # this very constructor initialises it: the parameter route says the same
                ftok = "this." + fld
                inits = self.field_inits(f.cls, fld)
                if inits is None:
                    results.append(("unk", "field %s::%s is not construction-time constant (written outside constructor initialisers, "
                                           "public, or copy-constructed by user code)" % (f.cls, fld), trail))
                    continue
                # facts of this frame about the field: plain ones travel to the constructor; an equality with a parameter of
                # this function is the caller's choice; anything else is a constraint the constructor frame cannot see
                travel, lost = [], False
                for l in F:
                    if not any(ftok in t for t in lit_terms(l)):
                        continue
                    if l[0] in ("mod", "cmp", "pred") and lit_terms(l)[0] == ftok:
                        travel.append(l)
                    elif l[0] == "rel" and l[2] == (0, 0, None) and ftok in (l[1], l[3]) and \
                            re.fullmatch(r"p:\w+", l[3] if l[1] == ftok else l[1]):
                        continue
                    elif not _is_lookup(l):
                        lost = True
                sub = []
                for (ctor, init) in inits:
                    e = canon(init, None)
                    if "?" in e or LTOK.search(e) or FTOK.search(e):
                        sub.append(("unk", "initialiser of %s in %s is outside the mini-domain" % (fld, ctor.short), trail))
                        continue
                    if not set(PTOK.findall(e)) <= self._stable_params(ctor):
                        sub.append(("unk", "initialiser of %s uses a parameter that %s modifies" % (fld, ctor.short), trail))
                        continue

                    def tr(s_, e=e, ftok=ftok):
                        return s_.replace(ftok, e)
                    sub.append(self.prove(ctor, "exit", lit_map(g, tr), [lit_map(l, tr) for l in travel], depth + 1, canon,
                                          trail + ["%s::%s is only written by the constructor initialiser %s{%s}" % (f.cls, fld, fld, _pretty(e))],
                                          tainted or lost))
                results.append(_all(sub))
        # parameters -> call sites
        for (g, F) in variants:
            ts = lit_terms(g)
            if any(LTOK.search(t) or FTOK.search(t) or "?" in t for t in ts):
                continue
            names = set()
            for t in ts:
                names |= set(PTOK.findall(t))
            if not names:
                continue
            if not names <= stable:
                results.append(("unk", "%s modifies a parameter the belief is about" % f.short, trail))
                continue
            liftable = [l for l in F if all(not LTOK.search(t) and not FTOK.search(t) and "?" not in t and set(PTOK.findall(t)) <= stable
                                            for t in lit_terms(l))]
            ptoks = {"p:" + n_ for n_ in names}
            lost = any(l not in liftable and l not in ctor_eq and not _is_lookup(l) and any(tok in t for t in lit_terms(l) for tok in ptoks) for l in F)
            if not self.is_internal(f) and not f.get("lambda"):
                self._frame_ctor_eq = ctor_eq
                results.append(self._public_frame(f, site, g, F, trail) if not (tainted or lost) else
                               ("unk", "a check on the way constrains the value in a way this analysis does not carry along "
                                       "(object state, locals, or a rejecting call that is not summarised)", trail))
                continue
            sites = self.call_sites(f)
            if not sites:
                results.append(("unk", "no caller of %s in the analysed program" % f.short, trail))
                continue
            sub = []
            for (caller, cn, args) in sites:
                if cn is None:
                    sub.append(("unk", "call site in %s not located" % caller.short, trail))
                    continue
                sigma = {}
                for i, p in enumerate(f.params):
                    if i < len(args):
                        sigma[p["n"]] = canon(args[i], None)
                if any(n_ not in sigma or "?" in sigma[n_] for n_ in names):
                    sub.append(("unk", "actual argument at %s:%d is outside the mini-domain" % (self.prog.rel(caller.file), cn.line), trail))
                    continue

                def up(s_, sigma=sigma):
                    return PTOK.sub(lambda m: sigma.get(m.group(1), "?unbound"), s_)
                g2 = lit_map(g, up)
                carried2 = [lit_map(l, up) for l in liftable]
                carried2 = [l for l in carried2 if not any("?" in t for t in lit_terms(l))]
                sub.append(self.prove(caller, cn, g2, carried2, depth + 1, canon,
                                      trail + ["called from %s at %s:%d as %s" % (caller.short, self.prog.rel(caller.file), cn.line, cn.text()[:80])],
                                      tainted or lost))
            results.append(_all(sub))
        if not results:
            return ("unk", "the belief is about values this analysis cannot relate to the callers (locals / object state)", trail)
        oks = [r for r in results if r[0] == "ok"]
        if oks:
            return oks[0]
        # the variants are equivalent restatements of the goal at this point: a refuted one refutes the belief
        bads = [r for r in results if r[0] == "bad"]
        if bads:
            return bads[0]
        return results[0]

    def _expand_locals(self, f, g, canon):
        """-> (goal with single-definition locals replaced by their initialisers, [(token, expression)]) or None"""
        repl = []
        for _ in range(3):
            ts = lit_terms(g)
            found = None
            for t in ts:
                m = LTOK.search(t)
                if m:
                    found = m
                    break
            if found is None:
                return (g, repl)
            did = int(found.group(2))
            ref = None
            for n in f.walk():
                if n.k == "DeclRefExpr" and n.decl and n.decl.get("id") == did and n.decl.get("k") == "local":
                    ref = n
                    break
            init = _single_def(ref) if ref is not None else None
            if init is None:
                return None
            e = canon(init, None)
            if "?" in e:
                return None
            tok = found.group(0)
            repl.append((tok, e))
            g = lit_map(g, lambda s_: s_.replace(tok, e))
        return None if any(LTOK.search(t) for t in lit_terms(g)) else (g, repl)

    # -- a public entry point: the user chooses the value --
    def _public_frame(self, f, site, g, facts, trail):
        if any(entails(x, g) for x in closure(self.frame_facts(f, site, beliefs=True))):
            return ("unk", "the public entry %s documents the same precondition with an assert" % f.short, trail)
        if g[0] not in ("mod", "cmp"):
            return ("unk", "public entry %s reached with a relational belief: no witness search" % f.short, trail)
        t = g[1]
        m = re.fullmatch(r"p:([A-Za-z_]\w*)(\.size\(\))?", t)
        if not m:
            return ("unk", "public entry %s reached with the belief about %s, not a plain parameter" % (f.short, _pretty(t)), trail)
        p = f.param(m.group(1))
        if p is None:
            return ("unk", "parameter not found", trail)
        about, other = [], []
        for l in facts:
            ts = lit_terms(l)
            if not any(t in x for x in ts):
                continue
            if l in getattr(self, "_frame_ctor_eq", ()):
                continue          # member == its own initialiser: defines the member, constrains nothing
            if l[0] in ("mod", "cmp") and l[1] == t:
                about.append(l)
            elif l[0] == "pred" and l[2] == t and l[1] in (POW2, PRIME):
                about.append(l)
            elif l[0] in ("opaque", "pred") and re.search(r"\.(%s)\(%s\)$" % ("|".join(LOOKUP_METHODS), re.escape(t)), lit_terms(l)[0]):
                continue          # membership test of a container: not read as an arithmetic constraint
            else:
                other.append(l)
        if other:
            return ("unk", "checks outside the mini-domain mention %s: %s" % (_pretty(t), "; ".join(lit_text(x) for x in other[:3])), trail)
        cands = set(range(0, 1100))
        for l in about + [g]:
            if l[0] == "cmp":
                for c in l[2]:
                    if c is not None and abs(c) != INF:
                        cands |= {c + d for d in range(-9, 10)}
        for v in sorted(c for c in cands if c >= 0):
            if all(_holds(l, v) for l in about) and not _holds(g, v):
                return ("bad", "%s = %d passes every check on the way from the public entry point %s {%s} and reaches the belief %s, which is false for it"
                        % (_pretty(t), v, f.short, "; ".join(sorted({lit_text(x) for x in about})) or "none", lit_text(g)), trail)
        return ("unk", "no small witness found for %s at the public entry %s" % (_pretty(t), f.short), trail)


def _restated(facts, cls, t_new):
    out = []
    for l in facts:
        if l[0] in ("mod", "cmp", "pred") and lit_terms(l)[0] in cls and lit_terms(l)[0] != t_new:
            out.append(lit_map(l, lambda s_: t_new))
        out.append(l)
    return closure(out)


def _is_lookup(l):
    return l[0] in ("opaque", "pred") and re.search(r"\.(%s)\([^()]*\)$" % "|".join(LOOKUP_METHODS), lit_terms(l)[0]) is not None


def _holds(l, v):
    if l[0] == "mod":
        return v % l[2] == 0
    if l[0] == "cmp":
        lo, hi, x = l[2]
        return lo <= v <= hi and v != x
    if l[0] == "pred":
        if l[1] == POW2:
            r = v >= 1 and (v & (v - 1)) == 0
        else:
            r = v >= 2 and all(v % d for d in range(2, int(v ** 0.5) + 1))
        return r == l[3]
    return True


def _all(sub):
    if not sub:
        return ("unk", "nothing to check", [])
    bad = [r for r in sub if r[0] == "bad"]
    if bad:
        return bad[0]
    unk = [r for r in sub if r[0] == "unk"]
    if unk:
        return unk[0]
    return ("ok", "%s" % "; ".join(sorted({r[1] for r in sub}))[:300], sub[0][2])
