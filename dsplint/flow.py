"""Flow-insensitive may-dependence and storage-root analysis inside one function body.

Atoms are tuples
    ('parm', name, facet)   facet in {'val', 'size', 'content'}
    ('this', field, facet)
    ('global', qualified name, 'val')
`size` = the object is only asked for its element count (size()/empty()/length()); `content` = anything
else is done with a container-like object; `val` = scalar / pointer value.
May-dependence over-approximates, so an *absent* atom is a definite independence (rule D1) while a *present*
atom only says "may".  Guard rules therefore additionally require a syntactic comparison (see rules_guard).
"""
from collections import defaultdict

SIZE_METHODS = {"size", "empty", "length"}
OUTPUT_ITERATOR_RESULT = {"std::copy": "last", "std::copy_n": "last", "std::copy_backward": "last", "std::move": "last",
                          "std::move_backward": "last", "std::transform": "before_op", "std::fill_n": "first", "std::copy_if": "before_op",
                          "std::partial_sum": "third", "std::adjacent_difference": "third"}
def output_arg(qn, args):
    """the destination iterator of a standard algorithm call"""
    how = OUTPUT_ITERATOR_RESULT[qn]
    if how == "first" or not args:
        return args[0]
    if how == "before_op":
        # transform(first, last, d_first, op) / transform(first1, last1, first2, d_first, op) / copy_if(first, last, d_first, pred)
        return args[-2] if len(args) >= 4 else args[-1]
    if how == "third":
        return args[2] if len(args) >= 3 else args[-1]
    return args[-1]


# non-const members that only hand out a reference / pointer / view: writes through the result are seen at the
# assignment, the call itself changes nothing
ACCESS_METHODS = {"operator[]", "operator()", "data", "begin", "end", "at", "front", "back", "operator*", "operator->",
                  "get", "rbegin", "rend", "slice", "cbegin", "cend"}


def is_container_type(t):
    t = t or ""
    return ("base_array<" in t or "std::vector<" in t or "slice_t<" in t or "initializer_list<" in t
            or "std::array<" in t or "std::basic_string" in t or "std::deque<" in t or "std::list<" in t)


def is_alias_type(tstr, tc):
    """local variables of these types denote storage owned by something else"""
    t = tstr or ""
    if tc == "ptr" or t.endswith("&") or t.endswith("&&") or t.endswith("*"):
        return True
    return ("slice_t<" in t or "SliceIterator<" in t or "__normal_iterator" in t or "_iterator" in t)


class Flow:
    def __init__(self, fn, program=None, control=False, max_depth=2, fields_env=True):
        self.fields_env = fields_env      # guard rules switch this off: a looser dependence must not make a condition "relate" two objects
        self.fn = fn
        self.program = program
        self.control = control
        self.max_depth = max_depth
        self.parm_ids = {p["id"]: p for p in fn.params}
        self.env = defaultdict(set)       # local decl id -> atoms (contents and shape)
        self.shape = defaultdict(set)     # local decl id -> atoms its *element count* may depend on
        self.roots = defaultdict(set)     # local decl id -> storage roots
        self.fenv = defaultdict(set)      # member name -> atoms written into this->member inside this function
        self.alias_ids = defaultdict(set) # local alias (pointer / reference / iterator / slice) id -> ids of the locals it may denote
        self._solve()

    # ------------------------------------------------------------------------------------------
    def _decl_atoms(self, d, node, size_only=False):
        k = d.get("k")
        if k == "parm":
            if d["id"] in self.parm_ids:
                t = d.get("dt", "")
                if is_container_type(t):
                    if size_only:
                        return {("parm", d["n"], "size")}
                    return {("parm", d["n"], "size"), ("parm", d["n"], "content")} | set(self.env.get(d["id"], ()))
                # a by-value parameter that the function itself modifies (std::advance(it, _nc)) also carries what was written
                return {("parm", d["n"], "val")} | set(self.env.get(d["id"], ()))
            # lambda parameter: bound at the call, unknown here
            return set(self.env.get(d["id"], ()))
        if k == "local" or k == "binding" or (k == "global" and d.get("sl")):
            if size_only and is_container_type(d.get("dt", "")):
                # element writes (v[i] = e) do not change the element count: use the shape environment
                return {(a[0], a[1], "size") if a[2] == "content" else a for a in self.shape.get(d["id"], set())}
            return set(self.env.get(d["id"], set()))
        if k == "global":
            return {("global", d.get("qn", d["n"]), "val")}
        if k == "field":
            t = d.get("dt", "")
            if is_container_type(t):
                if size_only:
                    return {("this", d["n"], "size")}
                return {("this", d["n"], "size"), ("this", d["n"], "content")} | (set(self.fenv.get(d["n"], ())) if self.fields_env else set())
            return {("this", d["n"], "val")} | (set(self.fenv.get(d["n"], ())) if self.fields_env else set())
        return set()

    def deps(self, n, size_only=False, depth=0):
        """atoms the value of expression n may depend on"""
        if n is None:
            return set()
        k = n.k
        if k == "DeclRefExpr":
            return self._decl_atoms(n.decl, n, size_only)
        if k == "MemberExpr":
            d = n.decl
            base = n.c[0] if n.c else None
            if d and d.get("k") == "field":
                if base is None or base.strip_all().k == "CXXThisExpr":
                    return self._decl_atoms(d, n, size_only)
                # field of another object: depends on that object (same root)
                return self.deps(base, size_only, depth)
            return self.deps(base, size_only, depth) if base is not None else set()
        if k == "CXXThisExpr":
            return {("this", "*", "val")}
        if k in ("IntegerLiteral", "FloatingLiteral", "CXXBoolLiteralExpr", "StringLiteral", "CXXNullPtrLiteralExpr",
                 "CharacterLiteral", "UnaryExprOrTypeTraitExpr"):
            return set()
        if k == "CXXMemberCallExpr":
            obj = n.call_object()
            ce = n.callee or {}
            mname = (ce.get("qn") or "").rsplit("::", 1)[-1]
            out = set()
            if mname in SIZE_METHODS and not n.call_args():
                return self.deps(obj, True, depth)
            out |= self.deps(obj, size_only, depth)
            for a in n.call_args():
                out |= self.deps(a, size_only, depth)
            return out
        if k == "LambdaExpr":
            out = set()
            body = n.role("body")
            for ch in n.c:
                if body is not None and ch.id == body.id:
                    for x in ch.walk():
                        if x.k == "DeclRefExpr" and x.decl and x.decl.get("k") in ("parm", "local", "global", "binding"):
                            out |= self._decl_atoms(x.decl, x)
                        elif x.k == "MemberExpr" and x.decl and x.decl.get("k") == "field":
                            out |= self.deps(x)
                else:
                    out |= self.deps(ch, size_only, depth)
            return out
        if k == "CallExpr" and n.callee and n.callee.get("repo") and not size_only and self.program is not None and n.tc in ("int", "bool", "enum"):
            # an integer helper whose result depends on its container arguments only through their sizes
            # ( int _frame_size(x, d) { if (x.size() != d.size()) throw; return x.size(); } ): the call depends on the sizes, too
            if _returns_shape_only(self.program, n.callee.get("usr")):
                out = set()
                for a in n.call_args():
                    out |= self.deps(a, is_container_type(a.type or ""), depth)
                return out
        out = set()
        for ch in n.c:
            out |= self.deps(ch, size_only, depth)
        return out

    # ------------------------------------------------------------------------------------------
    def root(self, n):
        """storage roots an lvalue / pointer expression may denote:
           ('this', field) ('this', '*') ('parm', name) ('local', name) ('global', qn) ('fresh', '')"""
        if n is None:
            return set()
        n = n.strip_all()
        k = n.k
        if k == "DeclRefExpr":
            d = n.decl
            dk = d.get("k")
            if dk == "parm":
                return {("parm", d["n"])}
            if dk in ("local", "binding"):
                r = self.roots.get(d["id"])
                if r:
                    return set(r)
                return {("local", d["n"])}
            if dk == "global":
                return {("global", d.get("qn", d["n"]))}
            return set()
        if k == "CXXThisExpr":
            return {("this", "*")}
        if k == "MemberExpr":
            d = n.decl
            base = n.c[0] if n.c else None
            if d and d.get("k") == "field":
                if base is None or base.strip_all().k == "CXXThisExpr":
                    return {("this", d["n"])}
                return self.root(base)
            return self.root(base)
        if k in ("CXXMemberCallExpr", "CXXOperatorCallExpr", "CallExpr") and not (
                n.get("lv") or n.tc == "ptr" or is_alias_type(n.type, n.tc)):
            return {("fresh", "")}      # returned by value: new storage
        if k == "CXXMemberCallExpr":
            return self.root(n.call_object())
        if k == "CXXOperatorCallExpr":
            op = n.op
            if op in ("[]", "*", "->", "()", "++", "--", "+", "-", "+=", "-=", "=") and len(n.c) > 1:
                return self.root(n.c[1])
            return set()
        if k == "UnaryOperator":
            return self.root(n.c[0]) if n.c else set()
        if k == "ArraySubscriptExpr":
            return self.root(n.c[0])
        if k == "BinaryOperator":
            if n.op in ("+", "-"):
                out = set()
                for ch in n.c:
                    if ch.tc == "ptr":
                        out |= self.root(ch)
                return out
            if n.op == ",":
                return self.root(n.c[-1])
            return set()
        if k == "ConditionalOperator":
            return self.root(n.c[1]) | self.root(n.c[2]) if len(n.c) == 3 else set()
        if k == "CallExpr":
            # free function returning a pointer/reference into one of its arguments (std::addressof, begin, get ...)
            out = set()
            qn = (n.callee or {}).get("qn", "")
            args = n.call_args()
            if qn in OUTPUT_ITERATOR_RESULT and args:
                # std::copy & co. return an iterator into their *destination*
                return self.root(output_arg(qn, args))
            if n.tc == "ptr" or is_alias_type(n.type, n.tc) or n.get("lv"):
                for a in args:
                    a0 = a.strip()
                    if a0.tc in ("int", "bool", "enum", "float") and not a0.get("lv"):
                        continue      # a scalar passed by value carries no storage the result could point into
                    if a0.tc in ("int", "bool", "enum", "float"):
                        # an lvalue scalar (int& or const int&): only a reference parameter could hand its address back
                        pm = (n.callee or {}).get("pm", [])
                        i = args.index(a)
                        if i >= len(pm) or pm[i] not in ("ref", "ptr"):
                            continue
                    out |= self.root(a)
            return out
        if k in ("CXXConstructExpr", "CXXTemporaryObjectExpr"):
            # constructing an alias object (slice, iterator) from another object keeps the root
            if is_alias_type(n.type, n.tc):
                out = set()
                for a in n.c:
                    out |= self.root(a)
                return out
            return {("fresh", "")}
        return set()

    # ------------------------------------------------------------------------------------------
    def _control_atoms(self, n):
        out = set()
        for a in n.ancestors():
            if a.k in ("IfStmt", "WhileStmt", "ForStmt", "DoStmt", "SwitchStmt", "ConditionalOperator", "CXXForRangeStmt"):
                c = a.role("cond")
                if c is not None and not _within(n, c):
                    out |= self.deps(c)
                if a.k == "CXXForRangeStmt":
                    r = a.role("range")
                    if r is not None and not _within(n, r):
                        out |= self.deps(r, True)
        return out

    def _assign(self, target, atoms, ctx_node, whole=None, shape_atoms=None):
        """target: lvalue node; adds atoms to every local it may denote.  An element write (v[i] = e, *p = e,
        v.f = e) updates the contents only; a whole-object write (v = e, v.resize(n)) also the shape."""
        changed = False
        t = target.strip_all()
        ids = set()
        for x in _lvalue_locals(t):
            ids.add(x)
        # a write through a local pointer / reference / iterator reaches the locals it may denote
        via_alias = set()
        for x in list(ids):
            via_alias |= self.alias_ids.get(x, set())
        if whole is None:
            whole = t.k == "DeclRefExpr"
        if self.control:
            atoms = atoms | self._control_atoms(ctx_node)
        for i in ids:
            before = len(self.env[i])
            self.env[i] |= atoms
            if len(self.env[i]) != before:
                changed = True
            if whole:
                before = len(self.shape[i])
                self.shape[i] |= (atoms if shape_atoms is None else shape_atoms)
                if len(self.shape[i]) != before:
                    changed = True
        for i in via_alias - ids:
            before = len(self.env[i])
            self.env[i] |= atoms
            if len(self.env[i]) != before:
                changed = True
        # writes into members of *this are visible to later reads of the member in the same function
        for r in self.root(t):
            if r[0] == "this" and r[1] != "*":
                before = len(self.fenv[r[1]])
                self.fenv[r[1]] |= atoms
                if len(self.fenv[r[1]]) != before:
                    changed = True
        return changed

    def _solve(self):
        fn = self.fn
        nodes = list(fn.walk())
        for _ in range(12):
            changed = False
            for n in nodes:
                k = n.k
                if k == "VarDecl":
                    d = n.decl
                    if n.c:
                        a = self.deps(n.c[0])
                        if self.control:
                            a = a | self._control_atoms(n)
                        if not a <= self.env[d["id"]]:
                            self.env[d["id"]] |= a
                            changed = True
                        if not a <= self.shape[d["id"]]:
                            self.shape[d["id"]] |= a
                            changed = True
                        if is_alias_type(n.get("ts") or n.type, n.tc) or is_alias_type(n.type, n.tc):
                            r = self.root(n.c[0])
                            r.discard(("fresh", ""))
                            if r and not r <= self.roots[d["id"]]:
                                self.roots[d["id"]] |= r
                                changed = True
                            tg = set(_lvalue_locals(n.c[0])) - {d["id"]}
                            for t_ in list(tg):
                                tg |= self.alias_ids.get(t_, set())
                            if not tg <= self.alias_ids[d["id"]]:
                                self.alias_ids[d["id"]] |= tg
                                changed = True
                    # range-for loop variable
                    p = n.parent
                    if p is not None and p.k == "DeclStmt" and p.parent is not None and p.parent.k == "CXXForRangeStmt":
                        fr = p.parent
                        if fr.role("var") is not None and fr.role("var").id == p.id:
                            rng = fr.role("range")
                            if rng is not None:
                                a = set()
                                for x in rng.walk():
                                    if x.k == "VarDecl" and x.c:
                                        a |= self.deps(x.c[0])
                                        if is_alias_type(n.get("ts") or n.type, n.tc):
                                            r = self.root(x.c[0])
                                            r.discard(("fresh", ""))
                                            if r and not r <= self.roots[d["id"]]:
                                                self.roots[d["id"]] |= r
                                                changed = True
                                if not a <= self.env[d["id"]]:
                                    self.env[d["id"]] |= a
                                    changed = True
                    if n.get("bindings") and n.c:
                        a = self.deps(n.c[0])
                        for b in n.get("bindings"):
                            if not a <= self.env[b["id"]]:
                                self.env[b["id"]] |= a
                                changed = True
                elif k in ("BinaryOperator", "CompoundAssignOperator") and n.op and n.op.endswith("=") and n.op not in ("==", "!=", "<=", ">=") and len(n.c) == 2:
                    a = self.deps(n.c[1])
                    if k == "CompoundAssignOperator":
                        a |= self.deps(n.c[0])
                    a |= _index_atoms(self, n.c[0])
                    changed |= self._assign(n.c[0], a, n)
                    l0 = n.c[0].strip_all()
                    if l0.k == "DeclRefExpr" and l0.decl and l0.decl.get("k") == "local" and (n.c[0].strip().tc == "ptr") and n.op == "=":
                        tg = set(_lvalue_locals(n.c[1])) - {l0.decl["id"]}
                        if not tg <= self.alias_ids[l0.decl["id"]]:
                            self.alias_ids[l0.decl["id"]] |= tg
                            changed = True
                elif k == "UnaryOperator" and n.op in ("++", "--") and n.c:
                    changed |= self._assign(n.c[0], self.deps(n.c[0]), n)
                elif k == "CXXOperatorCallExpr" and n.op and n.op.endswith("=") and n.op not in ("==", "!=", "<=", ">=") and len(n.c) >= 3:
                    a = self.deps(n.c[2]) | _index_atoms(self, n.c[1])
                    if n.op != "=":
                        a |= self.deps(n.c[1])
                    changed |= self._assign(n.c[1], a, n)
                elif n.is_call() and n.callee:
                    ce = n.callee
                    pm = ce.get("pm", [])
                    args = n.call_args()
                    allat = None
                    obj = n.call_object()
                    targets = []
                    for i, a in enumerate(args):
                        mode = pm[i] if i < len(pm) else "val"
                        if mode in ("ref", "ptr"):
                            targets.append(a)
                    wq = ce.get("qn", "")
                    if wq in OUTPUT_ITERATOR_RESULT and args:
                        targets.append(output_arg(wq, args))
                    elif wq in ("std::fill", "std::iota", "std::generate", "std::reverse", "std::sort", "std::rotate") and args:
                        targets.append(args[0])
                    if (obj is not None and "cls" in ce and not ce.get("const") and n.k != "CXXConstructExpr"
                            and (ce.get("qn") or "").rsplit("::", 1)[-1] not in ACCESS_METHODS):
                        targets.append(obj)
                    if targets:
                        parts = [(a, self.deps(a)) for a in args]
                        if obj is not None:
                            parts.append((obj, self.deps(obj)))
                        allat = set()
                        for (_, d_) in parts:
                            allat |= d_
                        for t in targets:
                            # the element count of t can change with the *other* arguments (v.resize(n), f(v, n)),
                            # not with its own previous contents
                            others = set()
                            for (a, d_) in parts:
                                if a.id != t.id:
                                    others |= d_
                            changed |= self._assign(t, allat, n, whole=True, shape_atoms=others)
            if not changed:
                break

    # ------------------------------------------------------------------------------------------
    def return_deps(self):
        out = set()
        for n in self.fn.walk():
            if n.k == "ReturnStmt" and n.c:
                # lambdas' returns belong to the lambda
                if any(a.k == "LambdaExpr" for a in n.ancestors()):
                    continue
                out |= self.deps(n.c[0])
                if self.control:
                    out |= self._control_atoms(n)
        return out


def _returns_shape_only(program, usr):
    """memoised: the value returned by the repository function depends on its container parameters through size() only"""
    cache = program.__dict__.setdefault("_ret_shape_cache", {})
    if usr in cache:
        return cache[usr]
    cache[usr] = False            # recursion guard
    g = program.functions.get(usr)
    if g is None or g.body() is None or g.get("nodes", 0) > 300:
        return False
    fl = Flow(g, None, control=True)
    deps = fl.return_deps()
    names = {p["n"] for p in g.params if is_container_type(p.get("t", ""))}
    ok = all(not (a[0] == "parm" and a[1] in names and a[2] != "size") for a in deps) and not any(a[0] in ("this", "global") for a in deps)
    cache[usr] = ok
    return ok


def _within(n, anc):
    x = n
    while x is not None:
        if x.id == anc.id:
            return True
        x = x.parent
    return False


def _lvalue_locals(t, depth=0):
    """decl ids of the local variables an lvalue / pointer expression writes into
    (v, v[i], v.f, *v, v->f, v.data() + k, reinterpret_cast<T*>(v.data()), c ? a : b ...)"""
    out = []
    if t is None or depth > 12:
        return out
    t = t.strip_all()
    k = t.k
    if k in ("CXXReinterpretCastExpr", "CXXConstCastExpr", "CXXDynamicCastExpr") and t.c:
        return _lvalue_locals(t.c[0], depth + 1)
    if k == "DeclRefExpr":
        d = t.decl
        if d and (d.get("k") in ("local", "binding", "parm") or (d.get("k") == "global" and d.get("sl"))):
            out.append(d["id"])
        return out
    if k == "MemberExpr":
        return _lvalue_locals(t.c[0], depth + 1) if t.c else out
    if k in ("ArraySubscriptExpr", "UnaryOperator"):
        return _lvalue_locals(t.c[0], depth + 1) if t.c else out
    if k == "BinaryOperator" and len(t.c) == 2:
        if t.op in ("+", "-"):
            for ch in t.c:
                if ch.strip().tc == "ptr" or ch.strip().tc == "rec":
                    out += _lvalue_locals(ch, depth + 1)
            return out
        if t.op == ",":
            return _lvalue_locals(t.c[1], depth + 1)
        return out
    if k == "ConditionalOperator" and len(t.c) == 3:
        return _lvalue_locals(t.c[1], depth + 1) + _lvalue_locals(t.c[2], depth + 1)
    if k == "CXXOperatorCallExpr" and len(t.c) > 1:
        return _lvalue_locals(t.c[1], depth + 1)
    if k == "CXXMemberCallExpr":
        return _lvalue_locals(t.call_object(), depth + 1)
    if k == "CallExpr":
        qn = (t.callee or {}).get("qn", "")
        args = t.call_args()
        if qn in OUTPUT_ITERATOR_RESULT and args:
            return _lvalue_locals(output_arg(qn, args), depth + 1)
        for a in args:
            out += _lvalue_locals(a, depth + 1)
        return out
    if k in ("CXXConstructExpr", "CXXTemporaryObjectExpr") and is_alias_type(t.type, t.tc):
        for a in t.c:
            out += _lvalue_locals(a, depth + 1)
        return out
    return out


def _index_atoms(flow, t):
    """atoms of the index expressions on the left-hand side (y[idx] = v depends on idx as well)"""
    out = set()
    t = t.strip_all()
    if t.k == "ArraySubscriptExpr" and len(t.c) == 2:
        out |= flow.deps(t.c[1])
    elif t.k == "CXXOperatorCallExpr" and t.op in ("[]", "()") and len(t.c) > 2:
        for a in t.c[2:]:
            out |= flow.deps(a)
    return out
