"""Q2 SEARCH-RESULT: the iterator a standard search returns is dereferenced only where the search is known to have found something"""
import re

from .core import RuleResult, DISCHARGED, VIOLATED, UNMODELLED
from .ir import atoms_of
from .guards import as_comparison

SEARCHES = {"std::lower_bound": "lb", "std::upper_bound": "ub", "std::find": "find", "std::find_if": "find", "std::find_if_not": "find",
            "std::adjacent_find": "find", "std::search": "find", "std::find_first_of": "find", "std::find_end": "find",
            "std::partition_point": "find", "std::search_n": "find", "std::mismatch": None}
NEG = {"==": "!=", "!=": "==", "<": ">=", ">=": "<", ">": "<=", "<=": ">"}
SWAP = {"==": "==", "!=": "!=", "<": ">", ">": "<", "<=": ">=", ">=": "<="}
_SKIP = ("ImplicitCastExpr", "ParenExpr", "MaterializeTemporaryExpr", "ExprWithCleanups", "CXXBindTemporaryExpr", "CXXConstructExpr")


def _fkey(f):
    nm = re.sub(r"\(lambda at [^)]*:(\d+):\d+\)", r"lambda@\1", f.name.replace("(anonymous namespace)::", ""))
    return nm.split("(")[0]


def _up(n):
    p = n.parent
    while p is not None and p.k in _SKIP and len(p.c) == 1:
        n, p = p, p.parent
    return n, p


def _is_end(e, last_text):
    e0 = e.strip_all()
    t = e0.text()
    if last_text and t == last_text:
        return True
    if e0.k == "CXXMemberCallExpr" and ((e0.callee or {}).get("qn") or "").rsplit("::", 1)[-1] in ("end", "cend"):
        return True
    if e0.k == "CallExpr" and (e0.callee or {}).get("qn") in ("std::end", "std::cend"):
        return True
    return False


def _range_object(first):
    """R of R.begin() / std::begin(R)"""
    e = first.strip_all()
    if e.k == "CXXMemberCallExpr" and ((e.callee or {}).get("qn") or "").rsplit("::", 1)[-1] in ("begin", "cbegin"):
        o = e.call_object()
        return o.strip_all() if o is not None else None
    if e.k == "CallExpr" and (e.callee or {}).get("qn") in ("std::begin", "std::cbegin") and e.call_args():
        return e.call_args()[0].strip_all()
    return None


def _back_texts(r):
    return {"%s.back()" % r, "%s[%s.size() - 1]" % (r, r), "*(%s.end() - 1)" % r, "*%s.rbegin()" % r, "*prev(%s.end())" % r,
            "*std::prev(%s.end())" % r, "%s.at(%s.size() - 1)" % (r, r)}


def _table_last(prog, robj):
    """last element of a constexpr table with a literal initialiser, if the range object is one"""
    if robj is None or robj.k != "DeclRefExpr" or not robj.decl or robj.decl.get("k") != "global":
        return None
    qn = robj.decl.get("qn", robj.decl["n"])
    for s in prog.statics.values():
        if s["name"].replace("(anonymous namespace)::", "") == qn.replace("(anonymous namespace)::", "") or s["name"].endswith("::" + robj.decl["n"]):
            if not (s.get("constexpr") or s.get("const")):
                return None
            vals = s.get("init_ints")
            if vals and list(vals) == sorted(vals):
                return int(vals[-1])
    return None


def rule_Q2(prog, fixture=False):
    res = RuleResult("Q2", "the iterator returned by a standard search (find, find_if, lower_bound, upper_bound, adjacent_find, search, "
                           "partition_point) equals the end of the range when nothing is found: it is dereferenced only behind a live "
                           "comparison with that end, or - for the two bound searches - where a live check keeps the searched value "
                           "at or below the last element of the range")
    n_sites = 0
    for f in sorted(prog.functions.values(), key=lambda g: (g.file, g.line, g.name)):
        if f.get("implicit") or f.file.endswith("coverage.cc"):
            continue
        rel = prog.rel(f.file)
        if not fixture and not (rel.startswith("lib/") or rel.startswith("include/")):
            continue
        k_in_f = 0
        for c in f.walk():
            if not (c.k == "CallExpr" and c.callee and SEARCHES.get(c.callee.get("qn"))):
                continue
            kind = SEARCHES[c.callee["qn"]]
            args = c.call_args()
            if len(args) < 2:
                continue
            n_sites += 1
            k_in_f += 1
            key = "Q2:%s:%s%s" % (_fkey(f), c.callee["qn"].split("::")[-1], "" if k_in_f == 1 else "#%d" % k_in_f)
            where = "%s:%d" % (rel, c.line)
            what = "%s in %s" % (c.text()[:60], f.short)
            extra = {"props": ["C05"] + (["C15"] if rel.endswith("primes.cpp") else [])}
            last_text = args[1].strip_all().text()
            if not _is_end(args[1], None):
                # a search over part of the storage (x, x + n - 1): the "not found" result is that position, which may be a valid
                # element - what the rule says about end() does not apply
                res.add(key, DISCHARGED, where, what, "searches a sub-range: its end (%s) is not the end of the storage" % last_text[:40],
                        func=f.name, extra=extra)
                continue
            top, p = _up(c)
            derefs = []       # (node, iterator local id or None)
            vid = None
            if p is not None and ((p.k == "UnaryOperator" and p.op == "*") or (p.k == "CXXOperatorCallExpr" and p.op in ("*", "->", "[]"))
                                  or (p.k == "MemberExpr" and p.get("arrow"))):
                derefs.append((p, None))
            elif p is not None and p.k == "VarDecl" and p.decl and p.decl.get("k") == "local":
                vid = p.decl["id"]
                for u in f.walk():
                    if u.k == "DeclRefExpr" and u.decl and u.decl.get("id") == vid:
                        t2, p2 = _up(u)
                        if p2 is None:
                            continue
                        if (p2.k == "UnaryOperator" and p2.op == "*") or (p2.k == "MemberExpr" and p2.get("arrow")) or \
                                (p2.k == "CXXOperatorCallExpr" and p2.op in ("*", "->", "[]") and len(p2.c) > 1 and p2.c[1].strip_all() is u.strip_all()):
                            derefs.append((p2, vid))
                        elif p2.is_call() and ((p2.callee or {}).get("qn") or "").rsplit("::", 1)[-1] == "erase":
                            derefs.append((p2, vid))
            if not derefs:
                res.add(key, DISCHARGED, where, what, "the result is compared or measured, never dereferenced", func=f.name, extra=extra)
                continue
            robj = _range_object(args[0])
            rtext = robj.text() if robj is not None else None
            value = args[2] if len(args) > 2 and kind in ("lb", "ub") else None
            vtext = value.strip_all().text() if value is not None else None
            last_elem = _table_last(prog, robj)
            bad, undecided = None, None
            for (d, dv) in derefs:
                ok, mentions_value = False, False
                for fact in f.facts_at(d):
                    if fact.belief:
                        continue
                    for (cn, pol) in atoms_of(fact.cond, fact.pol):
                        cmp_ = as_comparison(cn)
                        if cmp_ is None:
                            continue
                        lhs, op, rhs = cmp_
                        if not pol:
                            op = NEG[op]
                        for (a, o, b) in ((lhs, op, rhs), (rhs, SWAP[op], lhs)):
                            a0 = a.strip_all()
                            # it != end
                            if dv is not None and a0.k == "DeclRefExpr" and a0.decl and a0.decl.get("id") == dv and o == "!=" and _is_end(b, last_text):
                                ok = True
                            # value <= last element
                            if vtext is not None and a0.text() == vtext and o in ("<", "<=", "=="):
                                mentions_value = True
                                bt = b.strip_all().text()
                                if rtext and bt in _back_texts(rtext):
                                    if kind == "lb" or o == "<":
                                        ok = True
                                elif b.strip_all().k == "IntegerLiteral" and last_elem is not None:
                                    ub = int(b.strip_all().get("v")) - (1 if o == "<" else 0)
                                    if ub <= (last_elem if kind == "lb" else last_elem - 1):
                                        ok = True
                                    else:
                                        mentions_value = "beyond"
                if ok:
                    continue
                if mentions_value is True and kind in ("lb", "ub"):
                    undecided = d
                else:
                    bad = (d, mentions_value)
                    break
            if bad:
                d, mv = bad
                why = ("no live comparison of the result with %s stands in front of it" % last_text) if mv is False else \
                      ("the check in front of it admits values above the last element (%s) of %s" % (last_elem, rtext))
                res.add(key, VIOLATED, "%s:%d" % (rel, d.line), what,
                        "the result of %s is dereferenced (%s) although the search may have found nothing: %s; it then equals the end of the "
                        "range and the access reads past the storage" % (c.callee["qn"], d.text()[:60], why), func=f.name, extra=extra)
            elif undecided is not None:
                res.add(key, UNMODELLED, where, what, "a check on the searched value stands in front of the dereference, but its bound is not "
                        "related to the last element of the range here", func=f.name, extra=extra)
            else:
                res.add(key, DISCHARGED, where, what, "every dereference is behind a live found-check", func=f.name, extra=extra)
    res.stats["search_sites"] = n_sites
    return res


# ------------------------------------------------------------------------------------------------
# N8 MASK-AS-MODULO
def _is_pow2_fact(cn, pol, ntext):
    """(cn == pol) says that the quantity spelled ntext is a power of two"""
    e = cn.strip_all()
    while e.k == "UnaryOperator" and e.op == "!" and e.c:
        pol = not pol
        e = e.c[0].strip_all()
    if e.is_call() and e.callee and (e.callee.get("qn") or "").rsplit("::", 1)[-1] in ("ispow2", "is_pow2", "_ispow2", "has_single_bit"):
        args = e.call_args()
        return pol and bool(args) and args[0].strip_all().text() == ntext
    cmp_ = as_comparison(e)
    if cmp_ is not None:
        l, op, r = cmp_
        if not pol:
            op = NEG[op]
        for (a, b) in ((l, r), (r, l)):
            a0, b0 = a.strip_all(), b.strip_all()
            if b0.k == "IntegerLiteral" and str(b0.get("v")) == "0" and op == "==" and a0.k == "BinaryOperator" and a0.op == "&":
                t = {a0.c[0].strip_all().text(), a0.c[1].strip_all().text()}
                if t == {ntext, "%s - 1" % ntext}:
                    return True
    return False


def rule_N8(prog, fixture=False):
    res = RuleResult("N8", "`e & (n - 1)` stands for `e % n` only when n is a power of two: wherever a value is reduced with a mask formed "
                           "as n - 1 from a non-constant n, a live check (ispow2(n), (n & (n - 1)) == 0) or the construction of n (1 << k) "
                           "establishes that - otherwise positions are dropped or taken twice for every other n")
    from .ir import _single_def
    n_sites = 0
    for f in sorted(prog.functions.values(), key=lambda g: (g.file, g.line, g.name)):
        if f.get("implicit") or f.file.endswith("coverage.cc"):
            continue
        rel = prog.rel(f.file)
        if not fixture and not (rel.startswith("lib/") or rel.startswith("include/")):
            continue
        k_in_f = 0
        for x in f.walk():
            if not (x.k == "BinaryOperator" and x.op == "&" and len(x.c) == 2):
                continue
            mask = None
            for side in x.c:
                m = side.strip_all()
                if m.k == "BinaryOperator" and m.op == "-" and len(m.c) == 2 and m.c[1].strip_all().k == "IntegerLiteral" \
                        and str(m.c[1].strip_all().get("v")) == "1":
                    mask = m
            if mask is None:
                continue
            nexp = mask.c[0].strip_all()
            other = [s_ for s_ in x.c if s_.strip_all() is not mask]
            # the test (n & (n - 1)) itself
            if other and other[0].strip_all().text() == nexp.text():
                continue
            k_in_f += 1
            n_sites += 1
            key = "N8:%s%s" % (_fkey(f), "" if k_in_f == 1 else "#%d" % k_in_f)
            where = "%s:%d" % (rel, x.line)
            what = "%s in %s" % (x.text()[:60], f.short)
            extra = {"props": ["C05"] + (["C02", "C10"] if ("/fft/" in rel or rel.endswith("stft.cpp")) else [])}
            if nexp.k == "IntegerLiteral" or (nexp.k == "DeclRefExpr" and nexp.get("cv") is not None):
                v = int(nexp.get("v") if nexp.k == "IntegerLiteral" else nexp.get("cv"))
                if v > 0 and (v & (v - 1)) == 0:
                    res.add(key, DISCHARGED, where, what, "the modulus is the constant %d, a power of two" % v, func=f.name, extra=extra)
                else:
                    res.add(key, VIOLATED, where, what, "the modulus %d is not a power of two" % v, func=f.name, extra=extra)
                continue
            # construction: n = 1 << k
            d = nexp
            hops = 0
            while d.k == "DeclRefExpr" and d.decl and d.decl.get("k") == "local" and hops < 3:
                dd = _single_def(d)
                if dd is None:
                    break
                d = dd.strip_all()
                hops += 1
            if d.k == "BinaryOperator" and d.op == "<<" and d.c[0].strip_all().k == "IntegerLiteral" and str(d.c[0].strip_all().get("v")) == "1":
                res.add(key, DISCHARGED, where, what, "%s is formed as 1 << k" % nexp.text(), func=f.name, extra=extra)
                continue
            ok = False
            cands = {nexp.text(), d.text()}
            for fact in f.facts_at(x):
                if fact.belief:
                    continue
                for (cn, pol) in atoms_of(fact.cond, fact.pol):
                    if any(_is_pow2_fact(cn, pol, t) for t in cands):
                        ok = True
            if not ok and (f.get("anon_ns") or f.get("static_fn") or f.get("access") == "private"):
                # an internal helper: the check may stand in front of every call.  n is a parameter or the size of one.
                pn = None
                for y in d.walk():
                    if y.k == "DeclRefExpr" and y.decl and y.decl.get("k") == "parm":
                        pn = y.decl
                sites = [(caller, caller.nodes.get(call["node"])) for (caller, call) in prog.callers_of(f.usr) if not caller.file.endswith("coverage.cc")]
                if pn is not None and sites and all(cn is not None for (_, cn) in sites):
                    good = 0
                    for (caller, cn) in sites:
                        args = cn.call_args()
                        a = args[pn["pi"]].strip_all() if pn.get("pi") is not None and pn["pi"] < len(args) else None
                        if a is None:
                            continue
                        at = a.text()
                        texts = {at, "%s.size()" % at}
                        hit = False
                        for fact in caller.facts_at(cn):
                            if fact.belief:
                                continue
                            for (c2, p2) in atoms_of(fact.cond, fact.pol):
                                if any(_is_pow2_fact(c2, p2, t) for t in texts):
                                    hit = True
                        good += 1 if hit else 0
                    if good == len(sites):
                        ok = True
            if ok:
                res.add(key, DISCHARGED, where, what, "a live check establishes that %s is a power of two" % nexp.text(), func=f.name, extra=extra)
            elif nexp.k == "MemberExpr" or (nexp.k == "DeclRefExpr" and nexp.decl and nexp.decl.get("k") == "parm" and
                                             (f.get("anon_ns") or f.get("static_fn") or f.get("access") == "private")):
                res.add(key, UNMODELLED, where, what, "%s is established elsewhere (a member / an internal function's parameter)" % nexp.text(),
                        func=f.name, extra=extra)
            else:
                res.add(key, VIOLATED, where, what,
                        "%s is reduced with the mask %s, which equals the remainder modulo %s only for powers of two; no live check or "
                        "construction on the way here says that %s is one: for any other value some positions are never produced and "
                        "others twice" % (other[0].text()[:40] if other else "a value", mask.text(), nexp.text(), nexp.text()),
                        func=f.name, extra=extra)
    res.stats["mask_sites"] = n_sites
    return res
