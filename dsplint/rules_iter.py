"""Q2 SEARCH-RESULT: the iterator a standard search returns is dereferenced only where the search is known to have found something"""
import re

from .core import RuleResult, DISCHARGED, VIOLATED, UNMODELLED
from .ir import atoms_of
from .guards import as_comparison

SEARCHES = {"std::lower_bound": "lb", "std::upper_bound": "ub", "std::find": "find", "std::find_if": "find", "std::find_if_not": "find",
            "std::adjacent_find": "find", "std::search": "find", "std::find_first_of": "find", "std::find_end": "find",
            "std::partition_point": "find", "std::search_n": "find", "std::mismatch": None}
NEG = {"==": "!=", "!=": "==", "<": ">=", ">=": "<", ">": "<=", "<=": ">"}
SWAP = {"==": "==", "!=": "!=", "<": ">", ">": "<", "<=": ">=", ">=": "<="}
_SKIP = ("ImplicitCastExpr", "ParenExpr", "MaterializeTemporaryExpr", "ExprWithCleanups", "CXXBindTemporaryExpr", "CXXConstructExpr")


def _fkey(f):
    nm = re.sub(r"\(lambda at [^)]*:(\d+):\d+\)", r"lambda@\1", f.name.replace("(anonymous namespace)::", ""))
    return nm.split("(")[0]


def _up(n):
    p = n.parent
    while p is not None and p.k in _SKIP and len(p.c) == 1:
        n, p = p, p.parent
    return n, p


def _is_end(e, last_text):
    e0 = e.strip_all()
    t = e0.text()
    if last_text and t == last_text:
        return True
    if e0.k == "CXXMemberCallExpr" and ((e0.callee or {}).get("qn") or "").rsplit("::", 1)[-1] in ("end", "cend"):
        return True
    if e0.k == "CallExpr" and (e0.callee or {}).get("qn") in ("std::end", "std::cend"):
        return True
    return False


def _range_object(first):
    """R of R.begin() / std::begin(R)"""
    e = first.strip_all()
    if e.k == "CXXMemberCallExpr" and ((e.callee or {}).get("qn") or "").rsplit("::", 1)[-1] in ("begin", "cbegin"):
        o = e.call_object()
        return o.strip_all() if o is not None else None
    if e.k == "CallExpr" and (e.callee or {}).get("qn") in ("std::begin", "std::cbegin") and e.call_args():
        return e.call_args()[0].strip_all()
    return None


def _back_texts(r):
    return {"%s.back()" % r, "%s[%s.size() - 1]" % (r, r), "*(%s.end() - 1)" % r, "*%s.rbegin()" % r, "*prev(%s.end())" % r,
            "*std::prev(%s.end())" % r, "%s.at(%s.size() - 1)" % (r, r)}


def _table_last(prog, robj):
    """last element of a constexpr table with a literal initialiser, if the range object is one"""
    if robj is None or robj.k != "DeclRefExpr" or not robj.decl or robj.decl.get("k") != "global":
        return None
    qn = robj.decl.get("qn", robj.decl["n"])
    for s in prog.statics.values():
        if s["name"].replace("(anonymous namespace)::", "") == qn.replace("(anonymous namespace)::", "") or s["name"].endswith("::" + robj.decl["n"]):
            if not (s.get("constexpr") or s.get("const")):
                return None
            vals = s.get("init_ints")
            if vals and list(vals) == sorted(vals):
                return int(vals[-1])
    return None


def rule_Q2(prog, fixture=False):
    res = RuleResult("Q2", "the iterator returned by a standard search (find, find_if, lower_bound, upper_bound, adjacent_find, search, "
                           "partition_point) equals the end of the range when nothing is found: it is dereferenced only behind a live "
                           "comparison with that end, or - for the two bound searches - where a live check keeps the searched value "
                           "at or below the last element of the range")
    n_sites = 0
    for f in sorted(prog.functions.values(), key=lambda g: (g.file, g.line, g.name)):
        if f.get("implicit") or f.file.endswith("coverage.cc"):
            continue
        rel = prog.rel(f.file)
        if not fixture and not (rel.startswith("lib/") or rel.startswith("include/")):
            continue
        k_in_f = 0
        for c in f.walk():
            if not (c.k == "CallExpr" and c.callee and SEARCHES.get(c.callee.get("qn"))):
                continue
            kind = SEARCHES[c.callee["qn"]]
            args = c.call_args()
            if len(args) < 2:
                continue
            n_sites += 1
            k_in_f += 1
            key = "Q2:%s:%s%s" % (_fkey(f), c.callee["qn"].split("::")[-1], "" if k_in_f == 1 else "#%d" % k_in_f)
            where = "%s:%d" % (rel, c.line)
            what = "%s in %s" % (c.text()[:60], f.short)
            extra = {"props": ["C05"] + (["C15"] if rel.endswith("primes.cpp") else [])}
            last_text = args[1].strip_all().text()
            if not _is_end(args[1], None):
                # a search over part of the storage (x, x + n - 1): the "not found" result is that position, which may be a valid
                # element - what the rule says about end() does not apply
                res.add(key, DISCHARGED, where, what, "searches a sub-range: its end (%s) is not the end of the storage" % last_text[:40],
                        func=f.name, extra=extra)
                continue
            top, p = _up(c)
            derefs = []       # (node, iterator local id or None)
            vid = None
            if p is not None and ((p.k == "UnaryOperator" and p.op == "*") or (p.k == "CXXOperatorCallExpr" and p.op in ("*", "->", "[]"))
                                  or (p.k == "MemberExpr" and p.get("arrow"))):
                derefs.append((p, None))
            elif p is not None and p.k == "VarDecl" and p.decl and p.decl.get("k") == "local":
                vid = p.decl["id"]
                for u in f.walk():
                    if u.k == "DeclRefExpr" and u.decl and u.decl.get("id") == vid:
                        t2, p2 = _up(u)
                        if p2 is None:
                            continue
                        if (p2.k == "UnaryOperator" and p2.op == "*") or (p2.k == "MemberExpr" and p2.get("arrow")) or \
                                (p2.k == "CXXOperatorCallExpr" and p2.op in ("*", "->", "[]") and len(p2.c) > 1 and p2.c[1].strip_all() is u.strip_all()):
                            derefs.append((p2, vid))
                        elif p2.is_call() and ((p2.callee or {}).get("qn") or "").rsplit("::", 1)[-1] == "erase":
                            derefs.append((p2, vid))
            if not derefs:
                res.add(key, DISCHARGED, where, what, "the result is compared or measured, never dereferenced", func=f.name, extra=extra)
                continue
            robj = _range_object(args[0])
            rtext = robj.text() if robj is not None else None
            value = args[2] if len(args) > 2 and kind in ("lb", "ub") else None
            vtext = value.strip_all().text() if value is not None else None
            last_elem = _table_last(prog, robj)
            bad, undecided = None, None
            for (d, dv) in derefs:
                ok, mentions_value = False, False
                for fact in f.facts_at(d):
                    if fact.belief:
                        continue
                    for (cn, pol) in atoms_of(fact.cond, fact.pol):
                        cmp_ = as_comparison(cn)
                        if cmp_ is None:
                            continue
                        lhs, op, rhs = cmp_
                        if not pol:
                            op = NEG[op]
                        for (a, o, b) in ((lhs, op, rhs), (rhs, SWAP[op], lhs)):
                            a0 = a.strip_all()
                            # it != end
                            if dv is not None and a0.k == "DeclRefExpr" and a0.decl and a0.decl.get("id") == dv and o == "!=" and _is_end(b, last_text):
                                ok = True
                            # value <= last element
                            if vtext is not None and a0.text() == vtext and o in ("<", "<=", "=="):
                                mentions_value = True
                                bt = b.strip_all().text()
                                if rtext and bt in _back_texts(rtext):
                                    if kind == "lb" or o == "<":
                                        ok = True
                                elif b.strip_all().k == "IntegerLiteral" and last_elem is not None:
                                    ub = int(b.strip_all().get("v")) - (1 if o == "<" else 0)
                                    if ub <= (last_elem if kind == "lb" else last_elem - 1):
                                        ok = True
                                    else:
                                        mentions_value = "beyond"
                if ok:
                    continue
                if mentions_value is True and kind in ("lb", "ub"):
                    undecided = d
                else:
                    bad = (d, mentions_value)
                    break
            if bad:
                d, mv = bad
                why = ("no live comparison of the result with %s stands in front of it" % last_text) if mv is False else \
                      ("the check in front of it admits values above the last element (%s) of %s" % (last_elem, rtext))
                res.add(key, VIOLATED, "%s:%d" % (rel, d.line), what,
                        "the result of %s is dereferenced (%s) although the search may have found nothing: %s; it then equals the end of the "
                        "range and the access reads past the storage" % (c.callee["qn"], d.text()[:60], why), func=f.name, extra=extra)
            elif undecided is not None:
                res.add(key, UNMODELLED, where, what, "a check on the searched value stands in front of the dereference, but its bound is not "
                        "related to the last element of the range here", func=f.name, extra=extra)
            else:
                res.add(key, DISCHARGED, where, what, "every dereference is behind a live found-check", func=f.name, extra=extra)
    res.stats["search_sites"] = n_sites
    return res
