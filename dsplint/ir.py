"""Resolved-program IR for the dsplib checks.

Loads the per-translation-unit fact files written by /verif/tool/dsplint.cc and offers
  * Node      – typed AST node with resolved declaration / callee / macro provenance
  * Function  – AST + clang CFG (+ dominance by edge removal, path facts)
  * Program   – all functions (merged by USR), classes, statics, whole-program call graph
Nothing here knows a rule; rules live in dsplint/rules_*.py.
"""
import json
import os
from collections import defaultdict, deque

WRAPPER_CASTS = {"NoOp", "LValueToRValue", "ConstructorConversion", "UserDefinedConversion",
                 "DerivedToBase", "UncheckedDerivedToBase", "ArrayToPointerDecay", "FunctionToPointerDecay"}
BELIEF_MACROS = {"assert", "DSPLIB_ASSUME"}


class Node:
    __slots__ = ("j", "id", "k", "c", "parent", "fn")

    def __init__(self, j, fn, parent=None):
        self.j = j
        self.id = j.get("id", -1)
        self.k = j.get("k", "?")
        self.fn = fn
        self.parent = parent
        self.c = [Node(x, fn, self) for x in j.get("c", []) if isinstance(x, dict)]

    # --- plain attribute access into the json --------------------------------------------
    def get(self, key, default=None):
        return self.j.get(key, default)

    @property
    def line(self):
        return self.j.get("l", 0)

    @property
    def type(self):
        return self.j.get("t", "")

    @property
    def tc(self):
        return self.j.get("tc", "")

    @property
    def op(self):
        return self.j.get("op")

    @property
    def decl(self):
        return self.j.get("d")

    @property
    def callee(self):
        return self.j.get("callee")

    @property
    def macros(self):
        return self.j.get("m", [])

    def is_lambda_parm(self):
        """a reference to a parameter of a lambda (or other nested callable) inside this function: not one of the function's own
        parameters, so nothing a caller of the function passes"""
        d = self.j.get("d")
        if not d or d.get("k") != "parm" or self.fn is None:
            return False
        own = getattr(self.fn, "_own_parm_ids", None)
        if own is None:
            own = {p.get("id") for p in self.fn.params}
            self.fn._own_parm_ids = own
        return d.get("id") not in own

    def role(self, name):
        rid = self.j.get("r", {}).get(name)
        if rid is None:
            return None
        for ch in self.c:
            if ch.id == rid:
                return ch
        return None

    # --- traversal -----------------------------------------------------------------------
    def walk(self):
        stack = [self]
        while stack:
            n = stack.pop()
            yield n
            stack.extend(reversed(n.c))

    def ancestors(self):
        p = self.parent
        while p is not None:
            yield p
            p = p.parent

    def strip(self):
        """skip implicit casts that do not change the value category of interest"""
        n = self
        while n.k == "ImplicitCastExpr" and n.c:
            n = n.c[0]
        return n

    def strip_all(self):
        """skip implicit and explicit value-preserving casts, functional casts and temporaries"""
        n = self
        while True:
            if n.k in ("ImplicitCastExpr", "CXXStaticCastExpr", "CStyleCastExpr", "CXXFunctionalCastExpr", "CXXReinterpretCastExpr",
                       "CXXConstCastExpr") and n.c:
                n = n.c[0]
            else:
                return n

    # --- predicates ----------------------------------------------------------------------
    def is_call(self):
        return "callee" in self.j or self.k in ("CallExpr", "CXXMemberCallExpr", "CXXOperatorCallExpr")

    def call_args(self):
        """argument nodes (object argument of member / operator calls excluded)"""
        if self.k == "CXXConstructExpr" or self.k == "CXXTemporaryObjectExpr":
            return list(self.c)
        if self.k == "CXXMemberCallExpr":
            return self.c[1:]
        if self.k == "CXXOperatorCallExpr":
            ce = self.callee
            if ce and "cls" in ce and not ce.get("static"):
                return self.c[2:]
            return self.c[1:]
        if self.k in ("CallExpr", "CUDAKernelCallExpr", "UserDefinedLiteral"):
            return self.c[1:]
        return []

    def call_object(self):
        """the object expression of a member call / member operator call, else None"""
        if self.k == "CXXMemberCallExpr" and self.c:
            m = self.c[0].strip()
            if m.k == "MemberExpr" and m.c:
                return m.c[0]
            return None
        if self.k == "CXXOperatorCallExpr":
            ce = self.callee
            if ce and "cls" in ce and not ce.get("static") and len(self.c) > 1:
                return self.c[1]
        return None

    def callee_name(self):
        ce = self.callee
        return ce.get("qn") if ce else None

    def in_macro(self, name):
        return name in self.macros

    def is_belief(self):
        return any(m in BELIEF_MACROS for m in self.macros)

    def text(self):
        return expr_str(self)

    def __repr__(self):
        return "<%s#%d l%d %s>" % (self.k, self.id, self.line, expr_str(self)[:60])


def expr_str(n, depth=0):
    """compact, readable rendering for reports (not used for any decision)"""
    if n is None:
        return ""
    if depth > 12:
        return "..."
    k = n.k
    d = depth + 1
    if k in ("DeclRefExpr",):
        return n.decl["n"] if n.decl else "?"
    if k == "MemberExpr":
        base = n.c[0] if n.c else None
        nm = n.decl["n"] if n.decl else "?"
        if base is None or base.strip().k == "CXXThisExpr":
            return nm
        return expr_str(base, d) + ("->" if n.get("arrow") else ".") + nm
    if k == "CXXThisExpr":
        return "this"
    if k in ("IntegerLiteral", "FloatingLiteral", "CXXBoolLiteralExpr"):
        v = n.get("v")
        return str(v).lower() if isinstance(v, bool) else str(v)
    if k == "StringLiteral":
        return json.dumps(n.get("v", ""))
    if k in ("ImplicitCastExpr",):
        return expr_str(n.c[0], d) if n.c else "?"
    if k in ("CXXStaticCastExpr", "CStyleCastExpr", "CXXFunctionalCastExpr", "CXXConstCastExpr", "CXXReinterpretCastExpr"):
        return "(%s)(%s)" % (n.type, expr_str(n.c[0], d) if n.c else "")
    if k in ("BinaryOperator", "CompoundAssignOperator") and len(n.c) == 2:
        return "%s %s %s" % (_par(n.c[0], d), n.op, _par(n.c[1], d))
    if k == "UnaryOperator" and n.c:
        if n.get("postfix"):
            return _par(n.c[0], d) + n.op
        return n.op + _par(n.c[0], d)
    if k == "ConditionalOperator" and len(n.c) == 3:
        return "%s ? %s : %s" % (_par(n.c[0], d), _par(n.c[1], d), _par(n.c[2], d))
    if k == "CXXMemberCallExpr":
        return "%s(%s)" % (expr_str(n.c[0], d) if n.c else "?", ", ".join(expr_str(a, d) for a in n.c[1:]))
    if k == "CXXOperatorCallExpr":
        op = n.op or "?"
        args = n.c[1:]
        if op == "[]" and len(args) == 2:
            return "%s[%s]" % (_par(args[0], d), expr_str(args[1], d))
        if op == "()" and args:
            return "%s(%s)" % (_par(args[0], d), ", ".join(expr_str(a, d) for a in args[1:]))
        if len(args) == 2:
            return "%s %s %s" % (_par(args[0], d), op, _par(args[1], d))
        if len(args) == 1:
            return "%s%s" % (op, _par(args[0], d))
    if k == "CallExpr":
        return "%s(%s)" % (expr_str(n.c[0], d) if n.c else "?", ", ".join(expr_str(a, d) for a in n.c[1:]))
    if k in ("CXXConstructExpr", "CXXTemporaryObjectExpr"):
        if len(n.c) == 1 and not n.get("list_init"):
            ce = n.callee or {}
            if ce.get("pm") in (["cref"], ["ref"]):
                return expr_str(n.c[0], d)
        return "%s(%s)" % (short_type(n.type), ", ".join(expr_str(a, d) for a in n.c))
    if k == "ArraySubscriptExpr" and len(n.c) == 2:
        return "%s[%s]" % (_par(n.c[0], d), expr_str(n.c[1], d))
    if k == "VarDecl":
        return "%s %s%s" % (n.get("ts", n.type), n.decl["n"], (" = " + expr_str(n.c[0], d)) if n.c else "")
    if k == "DeclStmt":
        return "; ".join(expr_str(x, d) for x in n.c)
    if k == "ReturnStmt":
        return "return " + (expr_str(n.c[0], d) if n.c else "")
    if k == "CXXThrowExpr":
        return "throw " + (expr_str(n.c[0], d) if n.c else "")
    if k == "IfStmt":
        return "if (%s) ..." % expr_str(n.role("cond"), d)
    if k == "InitListExpr":
        return "{%s}" % ", ".join(expr_str(a, d) for a in n.c)
    if k == "CtorInit":
        return "%s(%s)" % (n.get("member") or n.get("base") or "this", ", ".join(expr_str(a, d) for a in n.c))
    if k == "CXXDefaultArgExpr" or k == "CXXDefaultInitExpr":
        return expr_str(n.c[0], d) if n.c else ""
    if k == "LambdaExpr":
        return "[..](..){..}"
    if k == "CXXNewExpr":
        return "new " + short_type(n.type)
    return "%s<%s>" % (k, ", ".join(expr_str(a, d) for a in n.c[:3]))


def _par(n, d):
    s = expr_str(n, d)
    k = n.strip().k if n is not None else ""
    if k in ("BinaryOperator", "ConditionalOperator", "CompoundAssignOperator") or (k == "CXXOperatorCallExpr" and " " in s):
        return "(" + s + ")"
    return s


def short_type(t):
    return t.replace("dsplib::", "").replace("std::", "")


class Block:
    __slots__ = ("id", "elems", "succs", "term", "cond", "tk", "noreturn", "preds")

    def __init__(self, j):
        self.id = j["id"]
        self.elems = j.get("e", [])
        self.succs = j.get("s", [])
        self.term = j.get("t")
        self.cond = j.get("cond")
        self.tk = j.get("tk")
        self.noreturn = j.get("noreturn", False)
        self.preds = []


class Fact:
    """a branch outcome that holds on every path to some program point"""
    __slots__ = ("cond", "pol", "belief", "rejects_by_throw", "block", "edges")

    def __init__(self, cond, pol, belief, rejects_by_throw, block, edges=()):
        self.edges = tuple(edges)
        self.cond = cond          # Node
        self.pol = pol            # truth value of cond on the surviving edge
        self.belief = belief      # compiled out in the shipped build (assert)
        self.rejects_by_throw = rejects_by_throw   # the other edge cannot complete normally
        self.block = block

    def __repr__(self):
        return "%s%s%s" % ("" if self.pol else "!", "(" + self.cond.text() + ")", " [belief]" if self.belief else "")


class Function:
    def __init__(self, j, tu):
        self.j = j
        self.tu = tu
        self.usr = j["usr"]
        self.name = j["name"]
        self.qn = j["qn"]
        self.file = j["file"]
        self.line = j["line"]
        self.kind = j["kind"]
        self.cls = j.get("cls")
        self.params = j.get("params", [])
        self._roots = None
        self._nodes = None
        self._blocks = None
        self._nodeblock = None
        self._facts_cache = {}
        self._throw_blocks = None

    def get(self, k, d=None):
        return self.j.get(k, d)

    @property
    def where(self):
        return "%s:%d" % (self.file, self.line)

    @property
    def short(self):
        return short_type(self.name)

    # --- AST -----------------------------------------------------------------------------
    @property
    def roots(self):
        if self._roots is None:
            self._roots = [Node(x, self) for x in self.j.get("ast", [])]
            self._nodes = {}
            for r in self._roots:
                for n in r.walk():
                    self._nodes[n.id] = n
        return self._roots

    @property
    def nodes(self):
        self.roots
        return self._nodes

    def walk(self):
        for r in self.roots:
            yield from r.walk()

    def body(self):
        for r in self.roots:
            if r.k != "CtorInit":
                return r
        return None

    def ctor_inits(self):
        return [r for r in self.roots if r.k == "CtorInit"]

    def param(self, name):
        for p in self.params:
            if p["n"] == name:
                return p
        return None

    # --- CFG -----------------------------------------------------------------------------
    @property
    def blocks(self):
        if self._blocks is None:
            self._blocks = {}
            cfg = self.j.get("cfg")
            if cfg:
                for bj in cfg["blocks"]:
                    b = Block(bj)
                    self._blocks[b.id] = b
                for b in self._blocks.values():
                    for s in b.succs:
                        if s is not None and s in self._blocks:
                            self._blocks[s].preds.append(b.id)
                self.entry = cfg["entry"]
                self.exit = cfg["exit"]
            else:
                self.entry = self.exit = None
            self._nodeblock = {}
            for b in self._blocks.values():
                for i, nid in enumerate(b.elems):
                    # a node may be listed twice (e.g. as element and as terminator condition); keep the first
                    self._nodeblock.setdefault(nid, (b.id, i))
        return self._blocks

    def block_of(self, node):
        """(block id, index) of the CFG element that evaluates `node` (nearest enclosing element)"""
        self.blocks
        n = node
        while n is not None:
            if n.id in self._nodeblock:
                return self._nodeblock[n.id]
            n = n.parent
        return None

    def throw_blocks(self):
        """blocks that end the function abnormally (throw / noreturn call)"""
        if self._throw_blocks is None:
            tb = set()
            nodes = self.nodes
            for b in self.blocks.values():
                if b.noreturn:
                    tb.add(b.id)
                    continue
                for nid in b.elems:
                    n = nodes.get(nid)
                    if n is not None and n.k == "CXXThrowExpr":
                        tb.add(b.id)
                        break
            self._throw_blocks = tb
        return self._throw_blocks

    def reachable(self, start, removed_edges=(), removed_blocks=(), stop_at=None):
        blocks = self.blocks
        seen = set()
        if start in removed_blocks:
            return seen
        dq = deque([start])
        seen.add(start)
        rem = set(removed_edges)
        while dq:
            b = dq.popleft()
            if stop_at is not None and b == stop_at:
                continue
            for si, s in enumerate(blocks[b].succs):
                if s is None or s not in blocks or s in removed_blocks:
                    continue
                if (b, si) in rem:
                    continue
                if s not in seen:
                    seen.add(s)
                    dq.append(s)
        return seen

    def normal_exit_reachable_from(self, start):
        """can a path from `start` reach EXIT without ending in a throw / noreturn block?"""
        tb = self.throw_blocks()
        if start in tb:
            return False
        r = self.reachable(start, removed_blocks=tb)
        return self.exit in r

    def branch_edges(self):
        """[(block, succ_index, succ, cond Node, polarity)] for two-way branches"""
        out = []
        nodes = self.nodes
        for b in self.blocks.values():
            if b.cond is None or len(b.succs) != 2:
                continue
            if b.tk in ("SwitchStmt", "CXXTryStmt", "IndirectGotoStmt"):
                continue
            cn = nodes.get(b.cond)
            if cn is None:
                continue
            out.append((b, 0, b.succs[0], cn, True))
            out.append((b, 1, b.succs[1], cn, False))
        return out

    def compound_groups(self):
        """For if/while/for statements whose condition is a short-circuit expression the CFG spreads the test over
        several blocks, so no single edge carries "the whole condition is false".  Returns
        [(edges, cond Node, polarity, other side entry blocks, statement Node)] where `edges` is the set of CFG edges
        that leave the evaluation of the condition with the given truth value."""
        if getattr(self, "_groups", None) is not None:
            return self._groups
        groups = []
        nodes = self.nodes
        blocks = self.blocks
        by_term = {}
        for b in blocks.values():
            if b.term is not None:
                by_term.setdefault(b.term, []).append(b)
        for n in self.walk():
            if n.k not in ("IfStmt", "WhileStmt", "ForStmt", "DoStmt", "ConditionalOperator"):
                continue
            c = n.role("cond")
            if c is None:
                continue
            cs = c.strip()
            if not (cs.k == "BinaryOperator" and cs.op in ("&&", "||")):
                continue
            sblocks = by_term.get(n.id, [])
            if len(sblocks) != 1 or len(sblocks[0].succs) != 2:
                continue
            logical = set()
            stack = [cs]
            while stack:
                x = stack.pop().strip()
                if x.k == "BinaryOperator" and x.op in ("&&", "||"):
                    logical.add(x.id)
                    stack.extend(x.c)
            region = {sblocks[0].id}
            for lid in logical:
                for b in by_term.get(lid, []):
                    region.add(b.id)
            t_entry, f_entry = sblocks[0].succs[0], sblocks[0].succs[1]
            true_edges, false_edges = [], []
            ok = True
            for bid in region:
                b = blocks[bid]
                if len(b.succs) != 2:
                    ok = False
                    break
                for si, sx in enumerate(b.succs):
                    if sx is None or sx in region:
                        continue
                    if sx == t_entry:
                        true_edges.append((bid, si))
                    elif sx == f_entry:
                        false_edges.append((bid, si))
                    else:
                        ok = False
            if not ok or not true_edges or not false_edges:
                continue
            groups.append((true_edges, c, True, [f_entry], n))
            groups.append((false_edges, c, False, [t_entry], n))
        self._groups = groups
        return groups

    def facts_at_block(self, bid, normal_exit=False, assume=()):
        """branch outcomes that hold on every path from ENTRY to block `bid`
        (normal_exit=True: to EXIT through a normally completing block; assume: CFG edges taken not to exist, i.e. facts of the
        paths that avoid them - used for case analysis over an if/else)"""
        key = (bid, normal_exit, tuple(assume))
        if key in self._facts_cache:
            return self._facts_cache[key]
        facts = []
        tb = self.throw_blocks() if normal_exit else ()
        nodes = self.nodes
        assume = list(assume)
        r0 = self.reachable(self.entry, removed_blocks=tb, removed_edges=assume)
        if bid not in r0:
            self._facts_cache[key] = facts
            return facts
        for (b, si, s, cn, pol) in self.branch_edges():
            if s is None:
                continue
            # the fact (cn == pol) holds at bid iff every path to bid crosses the edge (b, si)
            r = self.reachable(self.entry, removed_edges=[(b.id, si)] + assume, removed_blocks=tb)
            if bid in r:
                continue
            other = b.succs[1 - si]
            rej = other is not None and not self.normal_exit_reachable_from(other)
            tn = nodes.get(b.term) if b.term is not None else None
            belief = (tn is not None and tn.is_belief()) or cn.is_belief()
            fact = Fact(cn, pol, belief, rej, b.id, [(b.id, si)])
            if not self._killed(fact, bid, None, tb):
                facts.append(fact)
        for (edges, cn, pol, others, stmt) in self.compound_groups():
            r = self.reachable(self.entry, removed_edges=list(edges) + assume, removed_blocks=tb)
            if bid in r:
                continue
            rej = all(o is not None and not self.normal_exit_reachable_from(o) for o in others)
            belief = stmt.is_belief() or cn.is_belief()
            fact = Fact(cn, pol, belief, rej, edges[0][0], edges)
            if not self._killed(fact, bid, None, tb):
                facts.append(fact)
        self._facts_cache[key] = facts
        return facts

    # --- a fact is only worth something while the things it talks about are unchanged -------------------
    def _writes(self):
        """[(block, index, key)] key = ('id', decl id) | ('field', name): assignments, ++/--, and non-const member calls on
        a local / member object (v.resize(n) changes v.size())"""
        if getattr(self, "_write_list", None) is not None:
            return self._write_list
        out = []
        accessors = {"operator[]", "operator()", "data", "begin", "end", "at", "front", "back", "operator*", "operator->", "get",
                     "slice", "cbegin", "cend", "rbegin", "rend"}

        def key_of(t):
            t = t.strip_all()
            if t.k == "DeclRefExpr" and t.decl and t.decl.get("k") in ("local", "parm", "binding"):
                return ("id", t.decl["id"])
            if t.k == "MemberExpr" and t.decl and t.decl.get("k") == "field" and (not t.c or t.c[0].strip_all().k == "CXXThisExpr"):
                return ("field", t.decl["n"])
            return None
        for n in self.walk():
            tgt = None
            if n.k in ("BinaryOperator", "CompoundAssignOperator") and n.op and n.op.endswith("=") and n.op not in ("==", "!=", "<=", ">=") and n.c:
                tgt = n.c[0]
            elif n.k == "UnaryOperator" and n.op in ("++", "--") and n.c:
                tgt = n.c[0]
            elif n.k == "CXXOperatorCallExpr" and n.op and (n.op.endswith("=") and n.op not in ("==", "!=", "<=", ">=") or n.op in ("++", "--")) and len(n.c) > 1:
                tgt = n.c[1]
            elif n.k == "CXXMemberCallExpr" and n.callee and not n.callee.get("const") and not n.callee.get("static"):
                nm = (n.callee.get("qn") or "").rsplit("::", 1)[-1]
                if nm not in accessors:
                    tgt = n.call_object()
            if tgt is None:
                # a call whose target is not known here (callable parameter, function pointer, std::function) may re-enter
                # the object: every fact about its members is stale afterwards
                if (n.k == "CallExpr" and n.callee is None and not n.get("builtin")) or \
                        (n.k == "CXXOperatorCallExpr" and n.callee and (n.callee.get("qn") or "").startswith("std::function")):
                    loc = self.block_of(n)
                    if loc is not None:
                        out.append((loc[0], loc[1], ("field", "*")))
                continue
            k = key_of(tgt)
            if k is None:
                continue
            loc = self.block_of(n)
            if loc is not None:
                out.append((loc[0], loc[1], k))
        self._write_list = out
        return out

    def _terms(self, cond, depth=0):
        ts = set()
        for x in cond.walk():
            if x.k == "DeclRefExpr" and x.decl and x.decl.get("k") in ("local", "parm", "binding"):
                ts.add(("id", x.decl["id"]))
                if x.decl.get("k") == "local" and x.tc == "bool" and depth < 3:
                    d = _single_def(x)
                    if d is not None:
                        ts |= self._terms(d, depth + 1)     # a flag is only as fresh as what it was computed from
            elif x.k == "MemberExpr" and x.decl and x.decl.get("k") == "field" and (not x.c or x.c[0].strip_all().k == "CXXThisExpr"):
                ts.add(("field", x.decl["n"]))
        return ts

    def _killed(self, fact, bid, idx, removed_blocks=()):
        """is some variable / member the condition mentions written at a point from which the target can be reached without
        re-crossing the fact's edge(s)?  (a write before the test, or a loop increment followed by a re-test, does not kill)"""
        terms = self._terms(fact.cond)
        if not terms:
            return False
        anyfield = any(t[0] == "field" for t in terms)
        ws = [w for w in self._writes() if w[2] in terms or (anyfield and w[2] == ("field", "*"))]
        if not ws:
            return False
        for (wb, wi, k) in ws:
            if wb == bid:
                if idx is None:
                    # target is the block as a whole: only facts_at(node) refines within a block
                    reach_from_succ = False
                else:
                    if wi < idx:
                        return True
                    reach_from_succ = False
            r = set()
            for si, s_ in enumerate(self.blocks[wb].succs):
                if s_ is None or (wb, si) in fact.edges:
                    continue
                r |= self.reachable(s_, removed_edges=fact.edges, removed_blocks=removed_blocks)
            if bid in r:
                return True
        return False

    def stale_flag(self, ref, use):
        """`ref` names a single-definition local flag that is tested at node `use`: is something its initialiser reads
        written (or may an unknown call re-enter) on a path between the definition and the test?  -> the write's
        (block, index) or None"""
        d = _single_def(ref)
        if d is None:
            return None
        dloc, uloc = self.block_of(d), self.block_of(use)
        if dloc is None or uloc is None:
            return None
        terms = self._terms(d)
        anyfield = any(t[0] == "field" for t in terms)
        for (wb, wi, k) in self._writes():
            if not (k in terms or (anyfield and k == ("field", "*"))):
                continue
            after_def = (wb == dloc[0] and wi > dloc[1]) or (wb != dloc[0] and wb in self.reachable(dloc[0]))
            before_use = (wb == uloc[0] and wi < uloc[1]) or (wb != uloc[0] and uloc[0] in self.reachable(wb))
            if wb == dloc[0] == uloc[0]:
                after_def, before_use = wi > dloc[1], wi < uloc[1]
            if after_def and before_use:
                return (wb, wi)
        return None

    def facts_at(self, node):
        """facts that hold whenever `node` is evaluated.  Conditions are block terminators, so the facts of the
        node's block are exactly those established before the block was entered."""
        loc = self.block_of(node)
        if loc is None:
            return []
        facts = self.facts_at_block(loc[0])
        # writes earlier in the node's own block, after the block was entered, also invalidate
        out = []
        for fact in facts:
            terms = self._terms(fact.cond)
            dead = False
            if terms:
                anyfield = any(t[0] == "field" for t in terms)
                for (wb, wi, k) in self._writes():
                    if wb == loc[0] and wi < loc[1] and (k in terms or (anyfield and k == ("field", "*"))):
                        dead = True
                        break
            if not dead:
                out.append(fact)
        return out + self._checker_facts(node, loc)

    # --- checks hoisted into helpers --------------------------------------------------------------------
    def _checker_calls(self):
        """calls of small repository functions (void checkers, value-returning validators, in member initialisers or statements)
        whose normal completion establishes facts: [(call node, callee, [(condition in the caller's terms, polarity, fact)])]"""
        cached = getattr(self, "_checker_call_cache", None)
        if cached is not None:
            return cached
        out = []
        self._checker_call_cache = out            # recursion guard: a callee's own checker facts are not followed
        if _PROGRAM is None:
            return out
        for c in self.walk():
            if not (c.k in ("CallExpr", "CXXMemberCallExpr") and c.callee and c.callee.get("repo")) or c.callee.get("virt"):
                continue
            if any(a.k == "LambdaExpr" for a in c.ancestors()):
                continue
            g = _PROGRAM.functions.get(c.callee.get("usr"))
            if g is None or g.usr == self.usr or g.get("nodes", 0) > 400 or not g.throw_blocks():
                continue
            if self.block_of(c) is None:
                continue
            g.blocks
            if not g.blocks:
                continue
            fs = []
            for fact in g.facts_at_block(g.exit, normal_exit=True):
                if not fact.rejects_by_throw and not fact.belief:
                    continue
                sub = inline_expr(fact.cond, g, c)
                if sub is not None:
                    fs.append((sub, fact.pol, fact))
            if fs:
                out.append((c, g, fs))
        return out

    def _checker_facts(self, node, loc):
        out = []
        calls = self._checker_calls()
        if not calls:
            return out
        for (c, g, fs) in calls:
            cl = self.block_of(c)
            if cl is None or c.id == node.id or any(a.id == c.id for a in node.ancestors()):
                continue
            if not self.precedes(c, node):
                continue
            after = None
            for (sub, pol, fact) in fs:
                terms = self._terms(sub)
                dead = False
                if terms:
                    anyfield = any(t[0] == "field" for t in terms)
                    if after is None:
                        after = self.reachable_from_succs(cl[0])
                    for (wb, wi, k) in self._writes():
                        if not (k in terms or (anyfield and k == ("field", "*"))):
                            continue
                        # a write after the call (and not provably after the node) makes the established fact stale
                        if (wb == cl[0] and wi > cl[1] and not (loc[0] == cl[0] and wi > loc[1])) or (wb != cl[0] and wb in after):
                            dead = True
                            break
                if not dead:
                    out.append(Fact(sub, pol, fact.belief, fact.rejects_by_throw, cl[0], ()))
        return out

    def reachable_from_succs(self, bid):
        """blocks reachable from the successors of bid (bid itself only when it lies on a cycle)"""
        out = set()
        for s_ in self.blocks[bid].succs:
            if s_ is not None:
                out |= self.reachable(s_)
        return out

    def precedes(self, a, b):
        """True if CFG element of node a is evaluated on every path before node b (block dominance + order)"""
        la, lb = self.block_of(a), self.block_of(b)
        if la is None or lb is None:
            return False
        if la[0] == lb[0]:
            return la[1] < lb[1]
        return self.block_dominates(la[0], lb[0])

    def block_dominates(self, a, b):
        if a == b:
            return True
        r = self.reachable(self.entry, removed_blocks={a})
        return b not in r and b in self.reachable(self.entry)


_PROGRAM = None            # the program being analysed (set by Program.load): lets expression-level helpers see callee bodies
_SYNTH_ID = [-1000]


def _written_locals(fn):
    cache = getattr(fn, "_written_decl_ids", None)
    if cache is None:
        cache = set()
        for x in fn.walk():
            t = None
            if x.k in ("BinaryOperator", "CompoundAssignOperator") and x.op and x.op.endswith("=") and x.op not in ("==", "!=", "<=", ">=") and x.c:
                t = x.c[0].strip_all()
            elif x.k == "UnaryOperator" and x.op in ("++", "--", "&") and x.c:
                t = x.c[0].strip_all()
            if t is not None and t.k == "DeclRefExpr" and t.decl:
                cache.add(t.decl.get("id"))
        fn._written_decl_ids = cache
    return cache


def inline_expr(expr, callee, call, depth=0):
    """the callee's expression `expr` re-expressed in the caller of `call`: parameters replaced by the argument expressions, the
    callee's single-definition locals by their initialisers, members of *this kept when the call is made on the caller's own
    object.  -> Node (belonging to the caller's function), or None when it cannot be expressed there"""
    if depth > 3 or callee is None:
        return None
    args = call.call_args()
    params = callee.params
    pidx = {p.get("id"): i for i, p in enumerate(params)}
    written = _written_locals(callee)
    obj = call.call_object() if call.k == "CXXMemberCallExpr" else None
    on_this = call.k == "CXXMemberCallExpr" and (obj is None or obj.strip_all().k == "CXXThisExpr") and call.fn is not None \
        and call.fn.cls == callee.cls and not (call.callee or {}).get("static")

    def conv(n, d):
        if d > 40:
            return None
        k = n.k
        if k == "DeclRefExpr" and n.decl:
            dk = n.decl.get("k")
            if dk == "parm":
                i = pidx.get(n.decl.get("id"))
                if i is None or i >= len(args) or n.decl.get("id") in written or args[i].k == "CXXDefaultArgExpr":
                    return None
                return args[i].j            # the caller's own expression, ids and all
            if dk in ("local", "binding"):
                if n.decl.get("id") in written:
                    return None
                init = _single_def(n)
                if init is None:
                    return None
                return conv(init, d + 1)
            if dk in ("func", "global", "enumconst"):
                return dict(n.j)
            return dict(n.j) if dk not in ("field",) else None
        if k == "CXXThisExpr":
            return dict(n.j) if on_this else None
        if k == "MemberExpr" and n.decl and n.decl.get("k") == "field" and (not n.c or n.c[0].strip_all().k == "CXXThisExpr"):
            if not on_this:
                return None
        if k in ("LambdaExpr", "CXXThrowExpr", "CXXNewExpr"):
            return None
        j = {kk: vv for kk, vv in n.j.items() if kk != "c"}
        _SYNTH_ID[0] -= 1
        j["id"] = _SYNTH_ID[0]
        j["l"] = call.line
        j["_inl"] = (call.j.get("_inl", 0) or 0) + 1
        kids = []
        for ch in n.c:
            cj = conv(ch, d + 1)
            if cj is None:
                return None
            kids.append(cj)
        if kids:
            j["c"] = kids
            # roles refer to children by id: rebuild from positions
            if "r" in n.j:
                pos = {ch.id: i for i, ch in enumerate(n.c)}
                j["r"] = {name: kids[pos[rid]].get("id") for name, rid in n.j["r"].items() if rid in pos}
        return j
    j = conv(expr, 0)
    if j is None:
        return None
    return Node(j, call.fn)


def predicate_body(call):
    """for a call of a small repository predicate with a single `return <expr>;` -> (callee function, returned expression), else None"""
    if _PROGRAM is None or not (call.k in ("CallExpr", "CXXMemberCallExpr") and call.callee and call.callee.get("repo")) or call.callee.get("virt"):
        return None
    if (call.j.get("_inl", 0) or 0) >= 3:
        return None
    g = _PROGRAM.functions.get(call.callee.get("usr"))
    if g is None or g.get("nodes", 0) > 250 or (call.fn is not None and g.usr == call.fn.usr):
        return None
    rets = [x for x in g.walk() if x.k == "ReturnStmt" and not any(a.k == "LambdaExpr" for a in x.ancestors())]
    if len(rets) != 1 or not rets[0].c:
        return None
    return (g, rets[0].c[0])


def atoms_of(fact_cond, pol):
    """Expand a branch outcome into a conjunction of atomic outcomes where possible:
       !(X) -> flip; (X && Y)=true -> X,Y true; (X || Y)=false -> X,Y false.  Other shapes stay compound."""
    out = []
    depth_guard = 0
    stack = [(fact_cond, pol)]
    while stack:
        n, p = stack.pop()
        n = n.strip()
        if n.k == "UnaryOperator" and n.op == "!" and n.c:
            stack.append((n.c[0], not p))
        elif n.k == "BinaryOperator" and n.op == "&&" and p:
            stack.append((n.c[0], True))
            stack.append((n.c[1], True))
        elif n.k == "BinaryOperator" and n.op == "||" and not p:
            stack.append((n.c[0], False))
            stack.append((n.c[1], False))
        elif n.k == "CXXStaticCastExpr" and n.tc == "bool" and n.c:
            stack.append((n.c[0], p))
        elif n.k == "DeclRefExpr" and n.decl and n.decl.get("k") == "local" and n.tc == "bool" and _single_def(n) is not None and depth_guard < 40:
            # const bool ok = (a == b); ... if (!ok) throw;   -> look through the flag
            depth_guard += 1
            stack.append((_single_def(n), p))
        elif n.k in ("CallExpr", "CXXMemberCallExpr") and n.tc == "bool" and depth_guard < 40 and predicate_body(n) is not None:
            # if (!_window_fits(n, win)) throw;  with  bool _window_fits(n, win) { return win.size() == n + 1; }
            # -> the returned expression in the caller's terms; the call itself stays in the list for rules that know the callee
            g, e = predicate_body(n)
            sub = inline_expr(e, g, n)
            out.append((n, p))
            if sub is not None:
                depth_guard += 1
                stack.append((sub, p))
        else:
            out.append((n, p))
    return out


def _single_def(ref):
    """initialiser of a local that is defined once and never written afterwards, else None"""
    fn = ref.fn
    cache = getattr(fn, "_single_def_cache", None)
    if cache is None:
        cache = {}
        defs, written = {}, set()
        for x in fn.walk():
            if x.k == "VarDecl" and x.decl and x.decl.get("k") == "local":
                defs.setdefault(x.decl["id"], []).append(x)
            if x.k in ("BinaryOperator", "CompoundAssignOperator") and x.op and x.op.endswith("=") and x.op not in ("==", "!=", "<=", ">=") and x.c:
                l = x.c[0].strip_all()
                if l.k == "DeclRefExpr" and l.decl:
                    written.add(l.decl.get("id"))
            if x.k == "UnaryOperator" and x.op in ("++", "--") and x.c:
                l = x.c[0].strip_all()
                if l.k == "DeclRefExpr" and l.decl:
                    written.add(l.decl.get("id"))
        for i, ds in defs.items():
            if len(ds) == 1 and ds[0].c and i not in written:
                cache[i] = _through_identity_helper(ds[0].c[0])
        fn._single_def_cache = cache
    return cache.get(ref.decl["id"])


def _through_identity_helper(init):
    """const int n = _checked_order(order);  where every return of the helper hands back that parameter unchanged: the local
    *is* the argument (the helper's checks are facts of their own, see Function._checker_facts)"""
    e = init.strip_all()
    if _PROGRAM is None or not (e.k in ("CallExpr", "CXXMemberCallExpr") and e.callee and e.callee.get("repo")) or e.callee.get("virt"):
        return init
    g = _PROGRAM.functions.get(e.callee.get("usr"))
    if g is None or g.get("nodes", 0) > 250:
        return init
    rets = [x for x in g.walk() if x.k == "ReturnStmt" and x.c and not any(a.k == "LambdaExpr" for a in x.ancestors())]
    if not rets:
        return init
    pid = None
    for r in rets:
        v = r.c[0].strip_all()
        if not (v.k == "DeclRefExpr" and v.decl and v.decl.get("k") == "parm"):
            return init
        if pid is not None and v.decl.get("id") != pid:
            return init
        pid = v.decl.get("id")
    if pid in _written_locals(g):
        return init
    idx = [i for i, p in enumerate(g.params) if p.get("id") == pid]
    args = e.call_args()
    if not idx or idx[0] >= len(args) or args[idx[0]].k == "CXXDefaultArgExpr":
        return init
    return args[idx[0]]


class Program:
    def __init__(self):
        self.functions = {}       # usr -> Function
        self.by_qn = defaultdict(list)
        self.classes = {}         # name -> class json
        self.statics = {}         # usr -> json
        self.ext_edges = {}       # usr -> {c:[...], nothrow}
        self.tus = []
        self.diags = {}           # tu -> diags
        self.invalid = []
        self.root = None
        self._callers = None
        self._overriders = None

    @classmethod
    def load(cls, paths):
        p = cls()
        global _PROGRAM
        _PROGRAM = p
        for path in sorted(paths):
            with open(path) as fh:
                j = json.load(fh)
            p.tus.append(j["tu"])
            p.root = j.get("root", p.root)
            if j.get("diags"):
                p.diags[j["tu"]] = j["diags"]
            for inv in j.get("invalid", []):
                p.invalid.append(inv)
            for fj in j["functions"]:
                u = fj["usr"]
                if not u:
                    u = "nousr:%s:%s:%d" % (fj["name"], fj["file"], fj["line"])
                    fj["usr"] = u
                if u not in p.functions:
                    f = Function(fj, j["tu"])
                    p.functions[u] = f
                    p.by_qn[f.qn].append(f)
            for cj in j["classes"]:
                p.classes.setdefault(cj["name"], cj)
            for sj in j["statics"]:
                key = sj["usr"] or "%s:%s:%d" % (sj["name"], sj["file"], sj["line"])
                p.statics.setdefault(key, sj)
            for u, e in j.get("edges", {}).items():
                if u not in p.ext_edges:
                    p.ext_edges[u] = e
                else:
                    have = set(p.ext_edges[u]["c"])
                    have.update(e["c"])
                    p.ext_edges[u]["c"] = sorted(have)
        return p

    def rel(self, path):
        if self.root and path.startswith(self.root.rstrip("/") + "/"):
            return path[len(self.root.rstrip("/")) + 1:]
        return path

    def funcs_named(self, qn):
        return self.by_qn.get(qn, [])

    def find(self, pred):
        return [f for f in self.functions.values() if pred(f)]

    # --- class hierarchy -----------------------------------------------------------------
    def class_named(self, name):
        return self.classes.get(name)

    def derived_from(self, base_name, strict=True):
        """names of all classes that (transitively) derive from base_name"""
        out = set()
        changed = True
        targets = {base_name}
        while changed:
            changed = False
            for nm, cj in self.classes.items():
                if nm in out:
                    continue
                for b in cj["bases"]:
                    if b["type"] in targets:
                        out.add(nm)
                        targets.add(nm)
                        changed = True
                        break
        if not strict:
            out.add(base_name)
        return out

    def overriders(self, usr):
        """all methods that (transitively) override `usr` (final overriders included), plus itself"""
        if self._overriders is None:
            direct = defaultdict(set)
            for cj in self.classes.values():
                for m in cj["methods"]:
                    for o in m.get("overrides", []):
                        direct[o].add(m["usr"])
            for f in self.functions.values():
                for o in f.get("overrides", []) or []:
                    direct[o].add(f.usr)
            self._overriders = direct
        out = {usr}
        work = [usr]
        while work:
            u = work.pop()
            for d in self._overriders.get(u, ()):
                if d not in out:
                    out.add(d)
                    work.append(d)
        return out

    # --- call graph ----------------------------------------------------------------------
    def callees(self, usr):
        """[(callee usr, line, virt)] – repo functions carry call sites, external ones only edges"""
        f = self.functions.get(usr)
        if f is not None:
            return [(c["usr"], c["l"], c.get("virt", False)) for c in f.get("calls", [])]
        e = self.ext_edges.get(usr)
        if e is not None:
            return [(c, 0, False) for c in e["c"]]
        return []

    def resolved_callees(self, usr):
        """callee usrs with virtual calls fanned out to every overrider"""
        out = []
        for (c, l, virt) in self.callees(usr):
            if virt:
                for o in self.overriders(c):
                    out.append((o, l))
            else:
                out.append((c, l))
        return out

    def callers_of(self, usr):
        if self._callers is None:
            cs = defaultdict(list)
            for f in self.functions.values():
                for c in f.get("calls", []):
                    targets = self.overriders(c["usr"]) if c.get("virt") else [c["usr"]]
                    for t in targets:
                        cs[t].append((f, c))
            self._callers = cs
        return self._callers.get(usr, [])
