"""A1 ASSUMPTION-DISCHARGE, A1b VALIDATE-FIRST (C02, C05) and Z1 ZERO-DIVISOR-STATE (C05)"""
import re

from .core import RuleResult, DISCHARGED, VIOLATED, UNMODELLED
from .flow import Flow
from .guards import GuardCtx, as_comparison, NEG, FLIP
from .ir import atoms_of
from .chain import Chain
from .rules_slice import _interval, _subset
from .rules_state import fkey

C02_FILES = re.compile(r"lib/fft/ifft\.cpp$|include/dsplib/ifft\.h$")


# ---- canonical terms -----------------------------------------------------------------------------
def canon(n, subst=None):
    n = n.strip_all()
    k = n.k
    if k == "DeclRefExpr" and n.decl:
        d = n.decl
        if n.is_lambda_parm():
            return "?lambdaparm#%d" % n.id
        if d.get("k") == "parm" and subst is not None and d["n"] in subst:
            return subst[d["n"]]
        if d.get("k") == "parm":
            return "p:" + d["n"]
        if d.get("k") in ("local", "binding"):
            return "l:%s#%d" % (d["n"], d["id"])
        if d.get("k") == "global":
            return "g:" + d.get("qn", d["n"])
        return d["n"]
    if k == "MemberExpr" and n.decl and n.decl.get("k") == "field":
        base = n.c[0].strip_all() if n.c else None
        if base is None or base.k == "CXXThisExpr":
            return "this." + n.decl["n"]
        return canon(base, subst) + "." + n.decl["n"]
    if k == "IntegerLiteral":
        return str(int(n.get("v")))
    if k == "UnaryOperator" and n.c:
        return "(%s%s)" % (n.op, canon(n.c[0], subst))
    if k == "BinaryOperator" and len(n.c) == 2:
        return "(%s %s %s)" % (canon(n.c[0], subst), n.op, canon(n.c[1], subst))
    if k == "CXXMemberCallExpr":
        obj = n.call_object()
        nm = (n.callee or {}).get("qn", "?").rsplit("::", 1)[-1]
        return "%s.%s(%s)" % (canon(obj, subst) if obj is not None else "?", nm, ",".join(canon(a, subst) for a in n.call_args()))
    if k == "CallExpr" and n.callee:
        return "%s(%s)" % (n.callee.get("qn"), ",".join(canon(a, subst) for a in n.call_args()))
    if k in ("CXXConstructExpr", "CXXFunctionalCastExpr", "InitListExpr") and len(n.c) == 1:
        return canon(n.c[0], subst)
    return "?%s#%d" % (k, n.id)


def _intconst(n):
    n = n.strip_all()
    if n.k == "IntegerLiteral":
        return int(n.get("v"))
    if n.k == "UnaryOperator" and n.op == "-" and n.c and n.c[0].strip_all().k == "IntegerLiteral":
        return -int(n.c[0].strip_all().get("v"))
    return None


def literal(cond, pol, subst=None):
    """('mod', e, k) | ('cmp', e, interval) | ('rel', e1, interval over e1-e2, e2) | ('pred', name, e, pol) | ('opaque', text, pol)"""
    c = cond.strip_all()
    if c.k == "UnaryOperator" and c.op == "!" and c.c:
        return literal(c.c[0], not pol, subst)
    cmp_ = as_comparison(c)
    if cmp_ is not None:
        lhs, op, rhs = cmp_
        if not pol:
            op = NEG[op]
        l, r = lhs.strip_all(), rhs.strip_all()
        # e % k == 0
        for a, b, o in ((l, r, op), (r, l, FLIP[op])):
            if a.k == "BinaryOperator" and a.op == "%" and len(a.c) == 2 and _intconst(a.c[1]) and _intconst(b) == 0 and o == "==":
                return ("mod", canon(a.c[0], subst), _intconst(a.c[1]))
        cb, ca = _intconst(r), _intconst(l)
        if cb is not None:
            return ("cmp", canon(l, subst), _interval(op, cb))
        if ca is not None:
            return ("cmp", canon(r, subst), _interval(FLIP[op], ca))
        return ("rel", canon(l, subst), _interval(op, 0), canon(r, subst))
    if c.k == "CallExpr" and c.callee and len(c.call_args()) == 1:
        return ("pred", c.callee.get("qn"), canon(c.call_args()[0], subst), pol)
    return ("opaque", canon(c, subst), pol)


def entails(fact, goal):
    if fact[0] == "mod" and goal[0] == "mod":
        return fact[1] == goal[1] and fact[2] % goal[2] == 0
    if fact[0] == "cmp" and goal[0] == "cmp":
        return fact[1] == goal[1] and _subset(fact[2], goal[2])
    if fact[0] == "rel" and goal[0] == "rel":
        if fact[1] == goal[1] and fact[3] == goal[3]:
            return _subset(fact[2], goal[2])
        if fact[1] == goal[3] and fact[3] == goal[1]:
            lo, hi, x = fact[2]
            return _subset((-hi, -lo, (-x if x is not None else None)), goal[2])
        return False
    if fact[0] in ("pred", "opaque") and goal[0] == fact[0]:
        return fact == goal
    return False


def _facts_literals(f, node, subst=None, live_only=True):
    out = []
    for fact in f.facts_at(node):
        if live_only and fact.belief:
            continue
        for (c, p) in atoms_of(fact.cond, fact.pol):
            out.append((literal(c, p, subst), fact))
    return out


def _belief_sites(prog):
    """[(function, node, cond node, kind)] for DSPLIB_ASSUME and assert"""
    out = []
    for f in prog.functions.values():
        if f.file.endswith("coverage.cc") or f.get("implicit"):
            continue
        seen_assume_lines = set()
        for n in f.walk():
            if n.k == "CallExpr" and n.callee and n.callee.get("qn") == "__builtin_assume" and "DSPLIB_ASSUME" in n.macros:
                args = n.call_args()
                if args:
                    out.append((f, n, args[0], "DSPLIB_ASSUME"))
                    seen_assume_lines.add(n.line)
        for n in f.walk():
            if n.k == "ConditionalOperator" and "assert" in n.macros and "DSPLIB_ASSUME" not in n.macros:
                c = n.role("cond")
                if c is not None:
                    out.append((f, n, c, "assert"))
    return out


def _is_internal(f):
    """not reachable by a user of the installed headers: internal linkage, non-public member, or declared outside include/"""
    if f.get("anon_ns") or f.get("static_fn") or f.get("access") in ("private", "protected"):
        return True
    df = f.get("decl_file") or f.file
    if "/fixtures/" in df:
        return False
    return "/include/" not in df


def rule_A1(prog, fixture=False):
    res = RuleResult("A1", "every DSPLIB_ASSUME (undefined behaviour when false in release builds) and every assert over the "
                           "parameters of an internal function is entailed by a live check: inside the function, or at every call "
                           "site of a public caller (depth 1).  Entailment is syntactic in a mini-domain (e % k == 0, e op const, "
                           "e1 op e2, predicate calls)")
    sites = _belief_sites(prog)
    if not sites and not fixture:
        res.broken.append("anchor vanished: no DSPLIB_ASSUME / assert site found")
    counters = {}
    chain = Chain(prog, literal, _is_internal, canon)
    chained = 0
    for (f, node, cond, kind) in sorted(sites, key=lambda s: (s[0].file, s[1].line)):
        rel = prog.rel(f.file)
        counters[f.usr] = counters.get(f.usr, 0) + 1
        key = "A1:%s:%s%d" % (fkey(f), kind, counters[f.usr])
        where = "%s:%d" % (rel, node.line)
        what = "%s(%s) in %s" % (kind, cond.text(), f.short)
        props = ["C05"] + (["C02"] if (C02_FILES.search(rel) or (fixture and "irfft" in f.name)) else [])
        extra = {"props": props, "kind": kind}
        # conjunctions are separate goals
        goals = [literal(c, p) for (c, p) in atoms_of(cond, True)]
        # (1) established inside the function by a live check
        local = _facts_literals(f, node)
        if all(any(entails(fl, g) for (fl, _) in local) for g in goals):
            res.add(key, DISCHARGED, where, what, "entailed by a live check in the same function", func=f.name, extra=extra)
            continue
        # (2) interprocedural: up the call chain / back to the constructor (chain.py)
        if _is_internal(f):
            subs = [chain.prove(f, node, literal(c, p), [], 0, canon, []) for (c, p) in atoms_of(cond, True)]
            st = "bad" if any(r[0] == "bad" for r in subs) else ("ok" if all(r[0] == "ok" for r in subs) else "unk")
            if st == "ok":
                res.add(key, DISCHARGED, where, what, "entailed along every call chain: " + "; ".join(r[1] for r in subs)[:400], func=f.name,
                        extra=dict(extra, chain=[r[2] for r in subs]))
                chained += 1
                continue
            if st == "bad":
                r = [r for r in subs if r[0] == "bad"][0]
                res.add(key, VIOLATED, where, what, r[1], func=f.name, extra=extra, path=r[2])
                continue
            chain_note = "; chain analysis: " + [r for r in subs if r[0] == "unk"][0][1]
        else:
            chain_note = ""
        pnames = {p["n"] for p in f.params}
        over_params = all(_only_params(c, pnames) for (c, p) in atoms_of(cond, True))
        if kind == "assert" and not _is_internal(f):
            res.add(key, UNMODELLED, where, what, "assert in a public function: a documented precondition, not an obligation", func=f.name, extra=extra)
            continue
        if not over_params:
            res.add(key, UNMODELLED, where, what, "condition is not over the function's parameters (object state / locals)" + chain_note,
                    func=f.name, extra=extra)
            continue
        callers = prog.callers_of(f.usr)
        if not callers:
            res.add(key, UNMODELLED, where, what, "no caller in the analysed program", func=f.name, extra=extra)
            continue
        verdicts = []
        for (caller, call) in callers:
            cn = caller.nodes.get(call["node"])
            if cn is None:
                verdicts.append(("unmodelled", caller, "call site not located"))
                continue
            args = cn.call_args()
            subst = {}
            for i, p in enumerate(f.params):
                if i < len(args):
                    subst[p["n"]] = canon(args[i])
            goals_c = [literal(c, p, subst) for (c, p) in atoms_of(cond, True)]
            facts = _facts_literals(caller, cn)
            if all(any(entails(fl, g) for (fl, _) in facts) for g in goals_c):
                verdicts.append(("ok", caller, ""))
                continue
            modelled = all("?" not in repr(g) for g in goals_c) and all(_simple_actual(a) for a in args[:len(f.params)])
            public_caller = not _is_internal(caller) and not caller.get("lambda")
            if modelled and public_caller:
                strongest = "; ".join(sorted({fc.cond.text() for (fl, fc) in facts})) or "none"
                verdicts.append(("bad", caller, "at %s:%d the call %s is reached with live facts {%s}, none of which entails the belief"
                                 % (prog.rel(caller.file), cn.line, cn.text(), strongest)))
            else:
                verdicts.append(("unmodelled", caller, "caller %s: %s" % (caller.short, "longer call chain / internal caller" if not public_caller else "actual arguments outside the mini-domain")))
        if any(v[0] == "bad" for v in verdicts):
            v = [v for v in verdicts if v[0] == "bad"][0]
            res.add(key, VIOLATED, where, what, "belief is not established by its public caller %s: %s" % (v[1].short, v[2]), func=f.name, extra=extra)
        elif all(v[0] == "ok" for v in verdicts):
            res.add(key, DISCHARGED, where, what, "entailed by live checks at all %d call site(s)" % len(verdicts), func=f.name, extra=extra)
        else:
            v = [v for v in verdicts if v[0] == "unmodelled"][0]
            res.add(key, UNMODELLED, where, what, v[2] + chain_note, func=f.name, extra=extra)
    res.stats["belief_sites"] = len(sites)
    res.stats["discharged_by_chain"] = chained
    res.stats["chain_frames"] = chain.frames
    res.stats["assume_sites"] = sum(1 for s in sites if s[3] == "DSPLIB_ASSUME")
    return res


def _only_params(c, pnames):
    ok = False
    for x in c.walk():
        if x.k == "DeclRefExpr" and x.decl:
            k = x.decl.get("k")
            if k == "parm" and x.decl["n"] in pnames:
                ok = True
            elif k in ("local", "binding"):
                return False
        if x.k == "MemberExpr" and x.decl and x.decl.get("k") == "field":
            return False
        if x.k == "CXXThisExpr":
            return False
    return ok


def _simple_actual(a):
    a = a.strip_all()
    if a.k in ("DeclRefExpr", "IntegerLiteral"):
        return True
    if a.k == "MemberExpr" and a.decl and a.decl.get("k") == "field":
        return True
    if a.k == "BinaryOperator" and len(a.c) == 2:
        return _simple_actual(a.c[0]) and _simple_actual(a.c[1])
    if a.k == "CXXMemberCallExpr" and not a.call_args():
        return True
    return False


# =================================================================================================
A1B_CLASSES = {"dsplib::IfftPlanR": 0}     # class -> index of the transform-length parameter


def _parity_fact(ctx, fact_cond, pol, pname):
    """does (cond == pol) constrain the parity of parameter pname?  (n % 2 == 0, n % 4 == 0, !(n & 1) ...)"""
    for (c, p) in atoms_of(fact_cond, pol):
        lit = literal(c, p)
        if lit[0] == "mod" and lit[2] % 2 == 0 and ("p:" + pname) in lit[1]:
            return True
        cs = c.strip_all()
        cmp_ = as_comparison(cs)
        if cmp_ is not None:
            for side in (cmp_[0], cmp_[2]):
                s = side.strip_all()
                if s.k == "BinaryOperator" and s.op == "&" and len(s.c) == 2 and _intconst(s.c[1]) == 1 and ("p:" + pname) in canon(s.c[0]):
                    return True
    return False


def _guard_function(prog, g, pidx, memo):
    """does g reject (throw) unless its parameter #pidx is even, before it indexes anything?"""
    k = (g.usr, pidx)
    if k in memo:
        return memo[k]
    memo[k] = False
    if pidx >= len(g.params):
        return False
    pname = g.params[pidx]["n"]
    g.blocks
    ok = False
    for fact in g.facts_at_block(g.exit, normal_exit=True):
        if fact.belief or not fact.rejects_by_throw:
            continue
        if _parity_fact(None, fact.cond, fact.pol, pname):
            ok = True
    if not ok:
        # the check may itself be delegated: int _even_size(int n) { _require_even(n); return n; }
        inner = []
        for c in g.walk():
            if c.is_call() and c.callee and c.callee.get("repo") and c.k not in ("CXXConstructExpr",):
                h = prog.functions.get(c.callee.get("usr"))
                args = c.call_args()
                direct = [i for i, a in enumerate(args) if a.strip_all().k == "DeclRefExpr" and a.strip_all().decl.get("n") == pname]
                if h is not None and direct and _guard_function(prog, h, direct[0], memo):
                    inner.append(c)
        if inner:
            at = _validated_points(g, pname, inner)
            tb = g.throw_blocks()
            ok = all(at((bid, 10 ** 6)) for bid, b in g.blocks.items()
                     if g.exit in [s_ for s_ in b.succs if s_ is not None] and bid not in tb and bid in g.reachable(g.entry))
            if ok:
                memo[k] = True
                return True
    if ok:
        # the guard must also precede every subscript of the function
        ctx = GuardCtx(prog, g)
        for (node, base, idx) in ctx.subscripts():
            has = False
            for fact in g.facts_at(node):
                if not fact.belief and fact.rejects_by_throw and _parity_fact(None, fact.cond, fact.pol, pname):
                    has = True
            if not has:
                ok = False
                break
    memo[k] = ok
    return ok


def _validated_points(f, pname, guard_calls):
    """returns a predicate (block, index) -> has every path to this point either passed a live, throwing parity test of
    `pname` on its surviving edge or called a validating function?"""
    blocks = f.blocks
    nodes = f.nodes
    tb = f.throw_blocks()
    guard_pos = {}
    for g in guard_calls:
        loc = f.block_of(g)
        if loc:
            guard_pos.setdefault(loc[0], []).append(loc[1])
    edge_valid = {}
    for (b, si, s_, cn, pol) in f.branch_edges():
        tn = nodes.get(b.term) if b.term is not None else None
        if (tn is not None and tn.is_belief()) or cn.is_belief():
            continue
        if _parity_fact(None, cn, pol, pname):
            edge_valid[(b.id, si)] = True
    IN = {bid: True for bid in blocks}
    IN[f.entry] = False
    changed = True
    it = 0
    while changed and it < 50:
        changed = False
        it += 1
        for bid, b in blocks.items():
            if bid == f.entry:
                continue
            preds = []
            for pid in b.preds:
                pb = blocks[pid]
                out = IN[pid] or bool(guard_pos.get(pid))
                for si, sx in enumerate(pb.succs):
                    if sx == bid:
                        preds.append(out or edge_valid.get((pid, si), False))
            new = all(preds) if preds else False
            if new != IN[bid]:
                IN[bid] = new
                changed = True

    def at(loc):
        bid, idx = loc
        if IN.get(bid, False):
            return True
        return any(g < idx for g in guard_pos.get(bid, []))
    return at


def rule_A1b(prog, fixture=False):
    res = RuleResult("A1b", "in IfftPlanR's constructor (member initialisers in declaration order) every call that receives the "
                            "transform length n or a value derived from it is preceded by a live throwing check of the parity of n "
                            "(or is itself a function that performs that check before indexing): odd n is rejected before any "
                            "table is built")
    ctors = [f for f in prog.functions.values() if f.cls in A1B_CLASSES and f.kind == "ctor" and not f.get("implicit")]
    if not ctors:
        res.broken.append("anchor vanished: no user-written constructor of %s" % ", ".join(A1B_CLASSES))
        return res
    memo = {}
    for f in sorted(ctors, key=lambda f: f.line):
        pidx = A1B_CLASSES[f.cls]
        if pidx >= len(f.params):
            res.broken.append("anchor vanished: %s has no length parameter" % f.short)
            continue
        pname = f.params[pidx]["n"]
        flow = Flow(f, prog)
        sinks = []
        guard_calls = []
        for n in f.walk():
            if not (n.is_call() and n.callee):
                continue
            args = n.call_args()
            dep_args = [i for i, a in enumerate(args) if ("parm", pname, "val") in flow.deps(a)]
            if not dep_args:
                continue
            ce = n.callee
            g = prog.functions.get(ce.get("usr"))
            direct = [i for i in dep_args if args[i].strip_all().k == "DeclRefExpr" and args[i].strip_all().decl.get("n") == pname]
            if g is not None and ce.get("repo") and direct and _guard_function(prog, g, direct[0], memo):
                guard_calls.append(n)
                continue
            # calls into the standard library that merely forward (make_shared) still build a sized object
            sinks.append(n)
        key0 = "A1b:" + fkey(f)
        where = "%s:%d" % (prog.rel(f.file), f.line)
        if not sinks and not guard_calls:
            res.add(key0, UNMODELLED, where, f.short, "no call receives the transform length", func=f.name, extra={"props": ["C02"]})
            continue
        # forward must-analysis over the constructor's CFG: "the parity of n has been checked (and odd n rejected)"
        validated_at = _validated_points(f, pname, guard_calls)
        bad = []
        for s in sinks:
            loc = f.block_of(s)
            if loc is None or not validated_at(loc):
                bad.append(s)
        if bad:
            s = bad[0]
            res.add(key0, VIOLATED, "%s:%d" % (prog.rel(f.file), s.line), "%s validates n first" % f.short,
                    "%s receives the transform length before any live parity check of '%s' has run (%d of %d such calls): for an "
                    "odd n tables are sized and indexed before the 'must be even' exception" % (s.text(), pname, len(bad), len(sinks)),
                    func=f.name, extra={"props": ["C02"]}, path=["%d: %s" % (b.line, b.text()) for b in bad])
        else:
            res.add(key0, DISCHARGED, where, "%s validates n first" % f.short,
                    "%d call(s) that receive n are preceded by the parity check (%d validating call(s))" % (len(sinks), len(guard_calls)),
                    func=f.name, extra={"props": ["C02"]})
    return res


# =================================================================================================
def rule_Z1(prog, fixture=False):
    res = RuleResult("Z1", "an integer division or remainder whose divisor is a data member initialised to zero in the class and "
                           "left untouched by some accessible constructor is dominated by a live guard on that member")
    n_sites = 0
    for cn, cj in sorted(prog.classes.items()):
        zero_fields = {fl["name"] for fl in cj["fields"] if fl.get("init_int") == 0 and re.match(r"^(const )?(unsigned |signed )?(int|long|short|char|size_t|unsigned long)", fl["ctype"])}
        if not zero_fields:
            continue
        ctors = [m for m in cj["methods"] if m["kind"] in ("ctor",) and m["access"] == "public" and not m["deleted"]]
        # which constructors leave the field at zero?
        leaves_zero = {}
        for fld in zero_fields:
            for m in ctors:
                g = prog.functions.get(m["usr"])
                if m["defaulted"] or m["implicit"]:
                    if m.get("default_ctor"):
                        leaves_zero.setdefault(fld, []).append("%s() = default" % cn.rsplit("::", 1)[-1])
                    continue
                if g is None:
                    continue
                written = False
                for ci in g.ctor_inits():
                    if ci.get("member") == fld and ci.get("written"):
                        written = True
                    if ci.get("delegating"):
                        written = True      # whatever the target constructor does is that constructor's entry
                for x in g.walk():
                    if x.k in ("BinaryOperator", "CompoundAssignOperator") and x.op and x.op.endswith("=") and x.op not in ("==", "!=", "<=", ">=") and x.c:
                        l = x.c[0].strip_all()
                        if l.k == "MemberExpr" and l.decl and l.decl.get("n") == fld:
                            written = True
                if not written:
                    leaves_zero.setdefault(fld, []).append(g.short)
        if not leaves_zero:
            continue
        for f in prog.functions.values():
            if f.cls != cn or f.kind != "method":
                continue
            idx = 0
            for x in f.walk():
                if x.k in ("BinaryOperator", "CompoundAssignOperator") and x.op in ("/", "%", "/=", "%=") and len(x.c) == 2 and x.c[1].strip().tc == "int" and x.c[0].strip().tc == "int":
                    r = x.c[1].strip_all()
                    if r.k == "MemberExpr" and r.decl and r.decl.get("k") == "field" and r.decl["n"] in leaves_zero:
                        idx += 1
                        n_sites += 1
                        fld = r.decl["n"]
                        key = "Z1:%s:%s:div%d" % (fkey(f), fld, idx)
                        where = "%s:%d" % (prog.rel(f.file), x.line)
                        guarded = False
                        for fact in f.facts_at(x):
                            if fact.belief:
                                continue
                            for (c, p) in atoms_of(fact.cond, fact.pol):
                                lit = literal(c, p)
                                if lit[0] == "cmp" and lit[1] == "this." + fld and not (lit[2][0] <= 0 <= lit[2][1] and lit[2][2] != 0):
                                    guarded = True
                        if guarded:
                            res.add(key, DISCHARGED, where, "%s in %s" % (x.text(), f.short), "a live guard excludes %s == 0" % fld, func=f.name)
                        else:
                            res.add(key, VIOLATED, where, "%s in %s" % (x.text(), f.short),
                                    "integer division by %s, which is 0 after %s: SIGFPE instead of an exception"
                                    % (fld, ", ".join(leaves_zero[fld])), func=f.name)
    res.stats["division_sites_by_zero_initialised_members"] = n_sites
    return res


# =================================================================================================
# Z2 ZERO-DIVISOR-ARGUMENT: an integer division by a value the caller chooses is preceded by a live check that excludes zero (C05)
def rule_Z2(prog, fixture=False):
    from .rules_slice import INF
    res = RuleResult("Z2", "every integer '/' or '%' whose divisor is a parameter, a construction-time constant member or a "
                           "single-definition local of those is reached only with a non-zero divisor: 'divisor != 0' is proved "
                           "along every call chain from the public entry points (chain.py), or refuted by the value 0 passing "
                           "every live check on the way (SIGFPE instead of an exception)")
    ch = Chain(prog, literal, _is_internal, canon)
    n = 0
    for f in sorted(prog.functions.values(), key=lambda f: (f.file, f.line, f.name)):
        if f.get("implicit") or f.file.endswith("coverage.cc"):
            continue
        rel = prog.rel(f.file)
        if not fixture and not (rel.startswith("lib/") or rel.startswith("include/")):
            continue
        idx = 0
        for x in f.walk():
            if not (x.k in ("BinaryOperator", "CompoundAssignOperator") and x.op in ("/", "%", "/=", "%=") and len(x.c) == 2
                    and x.c[1].strip().tc == "int" and x.c[0].strip().tc == "int"):
                continue
            r = x.c[1].strip_all()
            if r.k in ("IntegerLiteral", "UnaryExprOrTypeTraitExpr", "CharacterLiteral"):
                continue
            t = canon(r)
            idx += 1
            key = "Z2:%s:div%d" % (fkey(f), idx)
            where = "%s:%d" % (rel, x.line)
            what = "%s in %s" % (x.text()[:60], f.short)
            extra = {"props": ["C05"]}
            # divisor = std::gcd(a, b), directly or through a single-definition local: zero iff both arguments are zero
            gsrc = r
            if gsrc.k == "DeclRefExpr" and gsrc.decl and gsrc.decl.get("k") == "local":
                from .ir import _single_def
                d0 = _single_def(gsrc)
                if d0 is None:
                    # int gcd = std::gcd(p, q);  p /= gcd;  - the local itself is never written, only read
                    defs = [v for v in f.walk() if v.k == "VarDecl" and v.decl and v.decl.get("id") == gsrc.decl.get("id") and v.c]
                    d0 = defs[0].c[0] if len(defs) == 1 and ("id", gsrc.decl.get("id")) not in {k for (_, _, k) in f._writes()} else None
                gsrc = d0.strip_all() if d0 is not None else gsrc
            if gsrc.k == "CallExpr" and gsrc.callee and gsrc.callee.get("qn") in ("std::gcd", "gcd") and len(gsrc.call_args()) == 2:
                n += 1
                f.blocks
                if "?" not in t:
                    st0 = ch.prove(f, x, ("cmp", t, (-INF, INF, 0)), [], 0, canon, [])
                    if st0[0] == "ok":
                        res.add(key, DISCHARGED, where, what, "divisor != 0: " + st0[1][:200], func=f.name, extra=extra)
                        continue
                verdicts = []
                for a in gsrc.call_args():
                    ta = canon(a)
                    if "?" in ta:
                        verdicts.append(("unk", "argument outside the mini-domain", []))
                    else:
                        verdicts.append(ch.prove(f, gsrc, ("cmp", ta, (-INF, INF, 0)), [], 0, canon, []))
                if any(v[0] == "ok" for v in verdicts):
                    res.add(key, DISCHARGED, where, what, "gcd of two values of which one is never zero: " + [v for v in verdicts if v[0] == "ok"][0][1][:160],
                            func=f.name, extra=extra)
                elif all(v[0] == "bad" for v in verdicts):
                    res.add(key, VIOLATED, where, what,
                            "integer division by zero (SIGFPE, not an exception): std::gcd(0, 0) is 0, and both arguments can be 0 - "
                            + "; ".join(v[1].replace("reaches the belief", "reaches the call, which needs").replace(", which is false for it", "") for v in verdicts)[:600],
                            func=f.name, extra=extra)
                else:
                    res.add(key, UNMODELLED, where, what, "gcd divisor: " + [v for v in verdicts if v[0] != "ok"][0][1][:160], func=f.name, extra=extra)
                continue
            if "?" in t or not re.fullmatch(r"(p:\w+|this\.\w+|l:\w+#\d+)", t):
                # a computed divisor (win.size() - noverlap): linear constraint system of the program point (rules_bounds)
                from .rules_bounds import nonzero_verdict
                st, msg = nonzero_verdict(prog, f, x, x.c[1])
                if st == "unk" and "outside the linear fragment" in msg:
                    continue
                n += 1
                if st == "ok":
                    res.add(key, DISCHARGED, where, what, msg, func=f.name, extra=extra)
                elif st == "bad":
                    res.add(key, VIOLATED, where, what, "integer division by zero (SIGFPE, not an exception): " + msg, func=f.name, extra=extra)
                else:
                    res.add(key, UNMODELLED, where, what, msg, func=f.name, extra=extra)
                continue
            n += 1
            f.blocks
            st, msg, trail = ch.prove(f, x, ("cmp", t, (-INF, INF, 0)), [], 0, canon, [])
            if st == "ok":
                res.add(key, DISCHARGED, where, what, "divisor != 0: " + msg[:200], func=f.name, extra=extra)
            elif st == "bad":
                res.add(key, VIOLATED, where, what,
                        "integer division by zero (SIGFPE, not an exception): " + msg.replace("reaches the belief", "reaches the division, which needs")
                        .replace(", which is false for it", ""), func=f.name, extra=extra, path=trail)
            else:
                from .rules_bounds import nonzero_verdict
                st2, msg2 = nonzero_verdict(prog, f, x, x.c[1])
                if st2 == "ok":
                    res.add(key, DISCHARGED, where, what, msg2, func=f.name, extra=extra)
                elif st2 == "bad":
                    res.add(key, VIOLATED, where, what, "integer division by zero (SIGFPE, not an exception): " + msg2, func=f.name, extra=extra)
                else:
                    res.add(key, UNMODELLED, where, what, msg[:200], func=f.name, extra=extra)
    res.stats["divisions_by_caller_values"] = n
    return res
